#!/bin/bash
# Builds the facts driver and pre-checks /repo's dependencies into /verif/.cache (offline, from files on disk only).
set -e
cd "$(dirname "$0")"
export CARGO_NET_OFFLINE=true
(cd engine/driver && cargo build --offline 2>&1 | tail -2)
mkdir -p .cache
# warm the dependency check (the member crate itself is re-analysed by every check run that sees a new tree)
python3 - <<'PY'
import sys
sys.path.insert(0, "engine/rules")
import facts
p, cached, secs = facts.run_driver("lib")
print("facts:", p, "cached" if cached else "fresh", "%.1fs" % secs)
PY
