use reactive_mutiny::prelude::advanced::*;
use futures::{Stream,StreamExt};
use std::sync::Arc;
use std::task::{Context, Poll, Wake};
use std::pin::Pin;
use std::future::Future;

struct NoopWaker; impl Wake for NoopWaker { fn wake(self: Arc<Self>) {} }

fn c10_stale() {
    // MAX_STREAMS = 1: the single stream id is recycled
    let channel = ChannelMultiArcAtomic::<u32, 8, 1>::new("c10");
    let (s_a, _) = channel.create_stream_for_new_events();
    let _ = channel.send(111);
    drop(s_a);                                   // dropped with an unconsumed event
    let (mut s_b, _) = channel.create_stream_for_new_events();
    let w = Arc::new(NoopWaker).into(); let mut cx = Context::from_waker(&w);
    match Pin::new(&mut s_b).poll_next(&mut cx) {
        Poll::Ready(Some(v)) => println!("C10: new listener yielded STALE event {v} sent before its creation"),
        other => println!("C10: ok: {:?}", other.map(|o| o.map(|a| *a))),
    }
}

fn c05_teardown() {
    let channel = ChannelMultiOgreArcAtomic::<String, 8, 2>::new("c05");
    let (s_a, _) = channel.create_stream_for_new_events();
    let _ = channel.send(String::from("payload still buffered at teardown"));
    drop(s_a);
    drop(channel);      // allocator field dropped before the per-listener queue that still holds an OgreArc into it
    println!("C05: teardown done");
}

fn c20_hang(which: &str) {
    let w = Arc::new(NoopWaker).into(); let mut cx = Context::from_waker(&w);
    if which == "fullsync" {
        let channel: &'static _ = Box::leak(Box::new(ChannelUniMoveFullSync::<u32, 8, 1>::new("c20")));
        let mut fut = Box::pin(channel.send_with_async(|slot| async move { futures::future::pending::<()>().await; slot }));
        assert!(fut.as_mut().poll(&mut cx).is_pending());
        println!("C20 fullsync: setter suspended; now a plain send from the same thread...");
        let r = channel.send(7); println!("C20 fullsync: send returned ok={}", r.is_ok());
    } else {
        let channel: &'static _ = Box::leak(Box::new(ChannelUniMoveAtomic::<u32, 8, 1>::new("c20")));
        let mut fut = Box::pin(channel.send_with_async(|slot| async move { futures::future::pending::<()>().await; slot }));
        assert!(fut.as_mut().poll(&mut cx).is_pending());
        println!("C20 atomic: setter suspended; now a plain send from the same thread...");
        let r = channel.send(7); println!("C20 atomic: send returned ok={}", r.is_ok());
    }
}

fn c15_panic() {
    // enqueuer_tail == 0 is also what the counter reads after exactly 2^32 reservations
    let channel = ChannelUniMoveAtomic::<u32, 4, 1>::new("c15");
    let slot = channel.reserve_slot().unwrap() as *mut u32;
    assert!(channel.try_cancel_slot_reserve(unsafe{&mut *slot}));
    let r = std::panic::catch_unwind(std::panic::AssertUnwindSafe(|| channel.try_cancel_slot_reserve(unsafe{&mut *slot})));
    println!("C15: second cancel with enqueuer_tail==0 -> {:?}", r.map_err(|_| "PANIC (attempt to subtract with overflow)"));
}


struct CountWaker(std::sync::atomic::AtomicU32);
impl Wake for CountWaker { fn wake(self: Arc<Self>) { self.0.fetch_add(1, std::sync::atomic::Ordering::SeqCst); } fn wake_by_ref(self: &Arc<Self>) { self.0.fetch_add(1, std::sync::atomic::Ordering::SeqCst); } }

/// single-threaded, deterministic lost wake-up on the movable atomic Uni channel (MAX_STREAMS = 1)
fn c04_lost_wakeup() {
    use std::sync::atomic::Ordering::SeqCst;
    let channel: &'static _ = Box::leak(Box::new(ChannelUniMoveAtomic::<u32, 8, 1>::new("c04")));
    let (mut stream, _) = channel.create_stream();
    let cw = Arc::new(CountWaker(0.into())); let w = cw.clone().into(); let mut cx = Context::from_waker(&w);
    let nw = Arc::new(NoopWaker).into(); let mut ncx = Context::from_waker(&nw);
    assert!(Pin::new(&mut stream).poll_next(&mut cx).is_pending());            // consumer parks (registers waker; self-wake #1)
    let base = cw.0.load(SeqCst);
    let (tx1, rx1) = futures::channel::oneshot::channel::<u32>();
    let (tx2, rx2) = futures::channel::oneshot::channel::<u32>();
    let mut f1 = Box::pin(channel.send_with_async(|slot| async move { *slot = rx1.await.unwrap(); slot }));
    let mut f2 = Box::pin(channel.send_with_async(|slot| async move { *slot = rx2.await.unwrap(); slot }));
    assert!(f1.as_mut().poll(&mut ncx).is_pending());                          // producer 1 reserved slot #0 (len_before = 0), suspended
    assert!(f2.as_mut().poll(&mut ncx).is_pending());                          // producer 2 reserved slot #1 (len_before = 1), suspended
    tx1.send(10).unwrap();
    assert!(f1.as_mut().poll(&mut ncx).is_ready());                            // producer 1 publishes, wakes stream #0
    println!("C04: wakes after 1st publication: {}", cw.0.load(SeqCst) - base);
    println!("C04: consumer polled: {:?}", Pin::new(&mut stream).poll_next(&mut cx));   // yields 10
    println!("C04: consumer polled: {:?}  (parks again)", Pin::new(&mut stream).poll_next(&mut cx));
    let before = cw.0.load(SeqCst);
    tx2.send(20).unwrap();
    let r = f2.as_mut().poll(&mut ncx);                                        // producer 2 publishes: len_before(=1) < MAX_STREAMS(=1) is false -> no wake
    println!("C04: 2nd send completed ok={}, wakes caused by it: {}, pending_items_count={} -> {}",
             matches!(r, Poll::Ready(ref rr) if rr.is_ok()), cw.0.load(SeqCst) - before, channel.pending_items_count(),
             if cw.0.load(SeqCst) == before && channel.pending_items_count() > 0 { "LOST WAKE-UP: accepted event stuck with the consumer parked" } else { "ok" });
}

fn main() {
    let a = std::env::args().nth(1).unwrap_or_default();
    match a.as_str() { "c10" => c10_stale(), "c05" => c05_teardown(), "c20f" => c20_hang("fullsync"), "c20a" => c20_hang("atomic"), "c15" => c15_panic(), "c04" => c04_lost_wakeup(), _ => {} }
}
