use reactive_mutiny::prelude::advanced::*;
use futures::{Stream,StreamExt};
use std::sync::Arc;
use std::task::{Context, Poll, Wake};
use std::pin::Pin;
use std::future::Future;

struct NoopWaker; impl Wake for NoopWaker { fn wake(self: Arc<Self>) {} }

fn c10_stale() {
    // MAX_STREAMS = 1: the single stream id is recycled
    let channel = ChannelMultiArcAtomic::<u32, 8, 1>::new("c10");
    let (s_a, _) = channel.create_stream_for_new_events();
    let _ = channel.send(111);
    drop(s_a);                                   // dropped with an unconsumed event
    let (mut s_b, _) = channel.create_stream_for_new_events();
    let w = Arc::new(NoopWaker).into(); let mut cx = Context::from_waker(&w);
    match Pin::new(&mut s_b).poll_next(&mut cx) {
        Poll::Ready(Some(v)) => println!("C10: new listener yielded STALE event {v} sent before its creation"),
        other => println!("C10: ok: {:?}", other.map(|o| o.map(|a| *a))),
    }
}

fn c05_teardown() {
    let channel = ChannelMultiOgreArcAtomic::<String, 8, 2>::new("c05");
    let (s_a, _) = channel.create_stream_for_new_events();
    let _ = channel.send(String::from("payload still buffered at teardown"));
    drop(s_a);
    drop(channel);      // allocator field dropped before the per-listener queue that still holds an OgreArc into it
    println!("C05: teardown done");
}

fn c20_hang(which: &str) {
    let w = Arc::new(NoopWaker).into(); let mut cx = Context::from_waker(&w);
    if which == "fullsync" {
        let channel: &'static _ = Box::leak(Box::new(ChannelUniMoveFullSync::<u32, 8, 1>::new("c20")));
        let mut fut = Box::pin(channel.send_with_async(|slot| async move { futures::future::pending::<()>().await; slot }));
        assert!(fut.as_mut().poll(&mut cx).is_pending());
        println!("C20 fullsync: setter suspended; now a plain send from the same thread...");
        let r = channel.send(7); println!("C20 fullsync: send returned ok={}", r.is_ok());
    } else {
        let channel: &'static _ = Box::leak(Box::new(ChannelUniMoveAtomic::<u32, 8, 1>::new("c20")));
        let mut fut = Box::pin(channel.send_with_async(|slot| async move { futures::future::pending::<()>().await; slot }));
        assert!(fut.as_mut().poll(&mut cx).is_pending());
        println!("C20 atomic: setter suspended; now a plain send from the same thread...");
        let r = channel.send(7); println!("C20 atomic: send returned ok={}", r.is_ok());
    }
}

fn c15_panic() {
    // enqueuer_tail == 0 is also what the counter reads after exactly 2^32 reservations
    let channel = ChannelUniMoveAtomic::<u32, 4, 1>::new("c15");
    let slot = channel.reserve_slot().unwrap() as *mut u32;
    assert!(channel.try_cancel_slot_reserve(unsafe{&mut *slot}));
    let r = std::panic::catch_unwind(std::panic::AssertUnwindSafe(|| channel.try_cancel_slot_reserve(unsafe{&mut *slot})));
    println!("C15: second cancel with enqueuer_tail==0 -> {:?}", r.map_err(|_| "PANIC (attempt to subtract with overflow)"));
}

fn main() {
    let a = std::env::args().nth(1).unwrap_or_default();
    match a.as_str() { "c10" => c10_stale(), "c05" => c05_teardown(), "c20f" => c20_hang("fullsync"), "c20a" => c20_hang("atomic"), "c15" => c15_panic(), _ => {} }
}
