#![feature(rustc_private)]
extern crate rustc_driver;
extern crate rustc_interface;
extern crate rustc_middle;
extern crate rustc_hir;
extern crate rustc_span;

use rustc_driver::{Callbacks, Compilation};
use rustc_interface::interface::Compiler;
use rustc_middle::ty::TyCtxt;
use rustc_middle::mir::{TerminatorKind, AssertKind};
use std::io::Write;

struct Cb { out: String }
impl Callbacks for Cb {
    fn after_expansion<'tcx>(&mut self, _c: &Compiler, tcx: TyCtxt<'tcx>) -> Compilation {
        let crate_name = tcx.crate_name(rustc_hir::def_id::LOCAL_CRATE).to_string();
        if crate_name != "reactive_mutiny" { return Compilation::Continue; }
        let mut s = String::new();
        for def in tcx.hir_body_owners() {
            use rustc_hir::def::DefKind;
            match tcx.def_kind(def) { DefKind::Fn | DefKind::AssocFn | DefKind::Closure => {}, _ => continue }
            let path = tcx.def_path_str(def.to_def_id());
            let steal = tcx.mir_built(def);
            if steal.is_stolen() { s.push_str(&format!("STOLEN {}\n", path)); continue; }
            let body = steal.borrow();
            let mut calls = vec![]; let mut yields = 0; let mut ovf = 0;
            for (_bb, data) in body.basic_blocks.iter_enumerated() {
                if let Some(t) = &data.terminator {
                    match &t.kind {
                        TerminatorKind::Call { func, .. } => {
                            if let Some((did, _args)) = func.const_fn_def() { calls.push(tcx.def_path_str(did)); } else { calls.push(format!("<indirect {:?}>", func)); }
                        }
                        TerminatorKind::Yield { .. } => yields += 1,
                        TerminatorKind::Assert { msg, .. } => { if let AssertKind::Overflow(..) = **msg { ovf += 1; } }
                        _ => {}
                    }
                }
            }
            s.push_str(&format!("FN {} blocks={} yields={} ovf={} calls={:?}\n", path, body.basic_blocks.len(), yields, ovf, calls));
        }
        let p = std::env::var("DRV_OUT").unwrap_or("/root/spike/out.txt".into());
        std::fs::OpenOptions::new().create(true).append(true).open(p).unwrap().write_all(s.as_bytes()).unwrap();
        self.out = s;
        Compilation::Continue
    }
}
fn main() {
    let args: Vec<String> = std::env::args().collect();
    let mut a = vec!["rustc".to_string()]; a.extend(args.into_iter().skip(2));
    rustc_driver::run_compiler(&a, &mut Cb{out:String::new()});
}
