// D10 (C17): reproduces on the UNCHANGED tree -- multi::channels::arc::atomic::Atomic (and, with the type swapped, arc::crossbeam::Crossbeam) keep the
// queue handle of the listener they are blocked on across the queue-full retry: that listener is dropped (queue drained, list compacted), the retry
// publishes into the dead queue and the listener that slid into its position -- alive for the whole run -- misses the event ([4] instead of [3, 4]).
// Adapted from seeded/C17b-s1/seed_demo.rs (which targets arc::full_sync, where the handle is re-derived on every attempt).  Run as tests/seed_demo.rs.


//!



use reactive_mutiny::multi::channels::arc::atomic::Atomic;
use reactive_mutiny::types::{ChannelCommon, ChannelMulti, ChannelProducer};
use futures::Stream;
use std::{
    pin::Pin,
    sync::{Arc, Mutex, mpsc, atomic::{AtomicBool, Ordering::SeqCst}},
    task::{Context, Poll, Wake, Waker},
    time::Duration,
};

const BUFFER_SIZE: usize = 2;
const MAX_STREAMS: usize = 4;
type Channel = Atomic<'static, u32, BUFFER_SIZE, MAX_STREAMS>;

struct NoopWaker;
impl Wake for NoopWaker {
    fn wake(self: Arc<Self>) {}
    fn wake_by_ref(self: &Arc<Self>) {}
}

/// When armed, the first wake blocks until the helper thread reports that the listener was dropped
struct HandOverWaker {
    armed: AtomicBool,
    go:    Mutex<mpsc::Sender<()>>,
    done:  Mutex<mpsc::Receiver<()>>,
}
impl Wake for HandOverWaker {
    fn wake(self: Arc<Self>) { self.wake_by_ref() }
    fn wake_by_ref(self: &Arc<Self>) {
        if self.armed.swap(false, SeqCst) {
            self.go.lock().unwrap().send(()).expect("helper thread is gone");
            self.done.lock().unwrap().recv_timeout(Duration::from_secs(10)).expect("helper thread didn't drop the listener in time");
        }
    }
}

fn drain<S: Stream<Item=Arc<u32>> + Unpin>(stream: &mut S, waker: &Waker) -> Vec<u32> {
    let mut cx = Context::from_waker(waker);
    let mut yielded = vec![];
    loop {
        match Pin::new(&mut *stream).poll_next(&mut cx) {
            Poll::Ready(Some(item)) => yielded.push(*item),
            Poll::Ready(None)       => panic!("stream ended unexpectedly"),
            Poll::Pending           => break yielded,
        }
    }
}

#[test]
fn listener_dropped_while_the_producer_is_blocked_on_its_full_queue() {
    let channel: Arc<Channel> = Channel::new("seed_demo C17 #1");

    let (go_tx, go_rx)     = mpsc::channel::<()>();
    let (done_tx, done_rx) = mpsc::channel::<()>();
    let hand_over = Arc::new(HandOverWaker { armed: AtomicBool::new(false), go: Mutex::new(go_tx), done: Mutex::new(done_rx) });
    let waker_0 = Waker::from(Arc::clone(&hand_over));
    let noop    = Waker::from(Arc::new(NoopWaker));

    let (mut listener_0, id_0) = channel.create_stream_for_new_events();
    let (mut listener_1, id_1) = channel.create_stream_for_new_events();
    let (mut listener_2, id_2) = channel.create_stream_for_new_events();
    assert_eq!((id_0, id_1, id_2), (0, 1, 2), "sanity: unexpected stream ids");

    // every listener parks once, registering its waker
    assert!(drain(&mut listener_0, &waker_0).is_empty());
    assert!(drain(&mut listener_1, &noop).is_empty());
    assert!(drain(&mut listener_2, &noop).is_empty());

    // the helper thread drops listener #0 when told so
    let helper = std::thread::spawn(move || {
        go_rx.recv_timeout(Duration::from_secs(20)).expect("the producer never woke listener #0");
        drop(listener_0);
        done_tx.send(()).expect("the producer is gone");
    });

    // fill all queues; listeners #1 and #2 are quick, listener #0 is stuck
    assert!(channel.send(1).is_ok());
    assert!(channel.send(2).is_ok());
    assert_eq!(drain(&mut listener_1, &noop), vec![1, 2], "listener #1, before the churn");
    assert_eq!(drain(&mut listener_2, &noop), vec![1, 2], "listener #2, before the churn");

    // the producer finds listener #0's queue full, wakes it (=> it gets dropped by the helper thread), sleeps and retries
    hand_over.armed.store(true, SeqCst);
    assert!(channel.send(3).is_ok());
    helper.join().expect("helper thread panicked");
    assert_eq!(channel.running_streams_count(), 2, "sanity: listener #0 should be gone by now");
    assert!(!hand_over.armed.load(SeqCst), "sanity: the hand-over never took place");

    assert!(channel.send(4).is_ok());

    // the listeners that lived through the whole run must have got everything, exactly once and in order
    assert_eq!(drain(&mut listener_1, &noop), vec![3, 4], "listener #1 (alive during the whole run) missed or repeated events");
    assert_eq!(drain(&mut listener_2, &noop), vec![3, 4], "listener #2 (alive during the whole run) missed or repeated events");
}
