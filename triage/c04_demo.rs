//! Triage demo for C04 findings (not part of any check): single-threaded, deterministic, against the real code.
//! A stream is parked with a counting waker; one event is then accepted through `reserve_slot()` + `try_send_reserved()`.
//! A driven stream is re-polled only when its waker is invoked, so `wakes == 0` with the event pending is a lost wake-up.
//! Run: copy to <scratch worktree>/tests/c04_demo.rs ; cargo test --offline --test c04_demo -- --nocapture
use reactive_mutiny::prelude::advanced::{ChannelUniZeroCopyFullSync, ChannelUniMoveAtomic, ChannelMultiMmapLog, ChannelCommon, ChannelUni, ChannelMulti, ChannelProducer};
use std::{pin::Pin, sync::{Arc, atomic::{AtomicUsize, Ordering::SeqCst}}, task::{Context, Poll, Wake, Waker}};
use futures::Stream;

struct Counting(AtomicUsize);
impl Wake for Counting { fn wake(self: Arc<Self>) { self.0.fetch_add(1, SeqCst); } fn wake_by_ref(self: &Arc<Self>) { self.0.fetch_add(1, SeqCst); } }

#[test]
fn zero_copy_full_sync_try_send_reserved_wakes_a_stream_that_does_not_exist() {
    let channel = ChannelUniZeroCopyFullSync::<u64, 8, 2>::new("c04 zc fs");
    let (mut stream, id) = channel.create_stream();
    assert_eq!(id, 0);
    let counter = Arc::new(Counting(AtomicUsize::new(0)));
    let waker = Waker::from(counter.clone());
    let mut cx = Context::from_waker(&waker);
    assert!(matches!(Pin::new(&mut stream).poll_next(&mut cx), Poll::Pending));
    let before = counter.0.load(SeqCst);     // the registration self-wake
    let slot = channel.reserve_slot().expect("room");
    *slot = 42;
    assert!(channel.try_send_reserved(slot), "accepted");
    let wakes = counter.0.load(SeqCst) - before;
    println!("zero-copy full-sync, MAX_STREAMS=2, 1 stream: wakes caused by the accepted event: {wakes}; pending: {}", channel.pending_items_count());
    assert!(wakes >= 1, "LOST WAKE-UP: the event was accepted, the only stream is parked and nobody woke it");
}

#[test]
fn movable_atomic_try_send_reserved_wakes_a_stream_that_does_not_exist() {
    let channel = ChannelUniMoveAtomic::<u64, 8, 2>::new("c04 mv at");
    let (mut stream, _id) = channel.create_stream();
    let counter = Arc::new(Counting(AtomicUsize::new(0)));
    let waker = Waker::from(counter.clone());
    let mut cx = Context::from_waker(&waker);
    assert!(matches!(Pin::new(&mut stream).poll_next(&mut cx), Poll::Pending));
    let before = counter.0.load(SeqCst);
    let slot = channel.reserve_slot().expect("room");
    *slot = 42;
    assert!(channel.try_send_reserved(slot), "accepted");
    let wakes = counter.0.load(SeqCst) - before;
    println!("movable atomic, MAX_STREAMS=2, 1 stream: wakes caused by the accepted event: {wakes}; pending: {}", channel.pending_items_count());
    assert!(wakes >= 1, "LOST WAKE-UP");
}

#[test]
fn mmap_log_try_send_reserved_wakes_nobody() {
    let channel = ChannelMultiMmapLog::<u64, 2>::new("c04_mmap_demo");
    let (mut stream, _id) = channel.create_stream_for_new_events();
    let counter = Arc::new(Counting(AtomicUsize::new(0)));
    let waker = Waker::from(counter.clone());
    let mut cx = Context::from_waker(&waker);
    assert!(matches!(Pin::new(&mut stream).poll_next(&mut cx), Poll::Pending));
    let before = counter.0.load(SeqCst);
    let slot = channel.reserve_slot().expect("room");
    *slot = 42;
    assert!(channel.try_send_reserved(slot), "accepted");
    let wakes = counter.0.load(SeqCst) - before;
    println!("mmap log: wakes caused by the accepted event: {wakes}");
    assert!(wakes >= 1, "LOST WAKE-UP: try_send_reserved() publishes to the log and wakes no listener");
    assert!(matches!(Pin::new(&mut stream).poll_next(&mut cx), Poll::Ready(Some(&42))));
}
