#![feature(rustc_private)]
extern crate rustc_driver;
extern crate rustc_interface;
extern crate rustc_middle;
extern crate rustc_hir;
extern crate rustc_span;
extern crate rustc_session;
extern crate rustc_data_structures;

use rustc_driver::{Callbacks, Compilation};
use rustc_interface::interface::{Compiler, Config};
use rustc_middle::ty::{self, TyCtxt};
use rustc_middle::mir::{self, TerminatorKind, StatementKind, Rvalue, Operand, Place, ProjectionElem, Body};
use rustc_middle::util::Providers;
use rustc_span::def_id::LocalDefId;
use rustc_data_structures::steal::Steal;
use std::sync::Mutex;
use std::io::Write;

static OUT: Mutex<String> = Mutex::new(String::new());
static mut DEFAULT_MIR_BUILT: Option<for<'tcx> fn(TyCtxt<'tcx>, LocalDefId) -> &'tcx Steal<Body<'tcx>>> = None;

fn place_str<'tcx>(tcx: TyCtxt<'tcx>, body: &Body<'tcx>, p: &Place<'tcx>) -> String {
    let mut s = format!("_{}", p.local.as_u32());
    let mut pty = mir::PlaceTy::from_ty(body.local_decls[p.local].ty);
    for elem in p.projection.iter() {
        match elem {
            ProjectionElem::Deref => s = format!("(*{})", s),
            ProjectionElem::Field(f, _) => {
                let name = match pty.ty.kind() {
                    ty::Adt(adt, _) => {
                        let v = match pty.variant_index { Some(v) => adt.variant(v), None => if adt.is_enum() { adt.variant(0u32.into()) } else { adt.non_enum_variant() } };
                        v.fields[f].name.to_string()
                    }
                    _ => format!("{}", f.as_u32()),
                };
                s = format!("{}.{}", s, name);
            }
            ProjectionElem::Downcast(name, _) => s = format!("({} as {:?})", s, name),
            other => s = format!("{}[{:?}]", s, other),
        }
        pty = pty.projection_ty(tcx, elem);
    }
    s
}
fn op_str<'tcx>(tcx: TyCtxt<'tcx>, body: &Body<'tcx>, o: &Operand<'tcx>) -> String {
    match o { Operand::Copy(p) => format!("copy {}", place_str(tcx, body, p)), Operand::Move(p) => format!("move {}", place_str(tcx, body, p)), Operand::Constant(c) => format!("const {}", c.const_), _ => format!("{:?}", o) }
}

fn my_mir_built<'tcx>(tcx: TyCtxt<'tcx>, def: LocalDefId) -> &'tcx Steal<Body<'tcx>> {
    let res = unsafe { (DEFAULT_MIR_BUILT.unwrap())(tcx, def) };
    if tcx.crate_name(rustc_hir::def_id::LOCAL_CRATE).as_str() != "reactive_mutiny" { return res; }
    let body = res.borrow();
    let path = tcx.def_path_str(def.to_def_id());
    let want = std::env::var("DRV_FILTER").unwrap_or_default();
    let mut s = String::new();
    s.push_str(&format!("FN {} kind={:?} blocks={}\n", path, tcx.def_kind(def), body.basic_blocks.len()));
    if !want.is_empty() && path.contains(&want) {
        if tcx.is_closure_like(def.to_def_id()) {
            for cap in tcx.closure_captures(def) { s.push_str(&format!("  CAPTURE {} by_ref={}\n", cap.to_string(tcx), cap.is_by_ref())); }
        }
        for (bb, data) in body.basic_blocks.iter_enumerated() {
            for st in &data.statements {
                if let StatementKind::Assign(b) = &st.kind {
                    let (pl, rv) = &**b;
                    let r = match rv {
                        Rvalue::Use(o, ..) => format!("Use({})", op_str(tcx, &body, o)),
                        Rvalue::BinaryOp(op, ops) => format!("Bin({:?}, {}, {})", op, op_str(tcx, &body, &ops.0), op_str(tcx, &body, &ops.1)),
                        Rvalue::Cast(k, o, t) => format!("Cast({:?}, {}, {})", k, op_str(tcx, &body, o), t),
                        Rvalue::Ref(_, bk, p) => format!("Ref({:?}, {})", bk, place_str(tcx, &body, p)),
                        other => format!("{:?}", other),
                    };
                    s.push_str(&format!("  {:?}: {} = {}\n", bb, place_str(tcx, &body, pl), r));
                }
            }
            if let Some(t) = &data.terminator {
                match &t.kind {
                    TerminatorKind::Call { func, args, destination, target, .. } => {
                        let callee = if let Some((did, ga)) = func.const_fn_def() { format!("{} <{:?}>", tcx.def_path_str(did), ga) } else { format!("indirect {:?}", func) };
                        let a: Vec<String> = args.iter().map(|a| op_str(tcx, &body, &a.node)).collect();
                        s.push_str(&format!("  {:?}: CALL {} = {}({}) -> {:?} @{:?}\n", bb, place_str(tcx, &body, destination), callee, a.join(", "), target, { let lo = tcx.sess.source_map().lookup_char_pos(t.source_info.span.lo()); format!("{:?}:{}", lo.file.name.prefer_local_unconditionally().to_string(), lo.line) }));
                    }
                    TerminatorKind::SwitchInt { discr, targets } => { s.push_str(&format!("  {:?}: SWITCH {} -> {:?}\n", bb, op_str(tcx, &body, discr), targets)); }
                    TerminatorKind::Yield { resume, .. } => s.push_str(&format!("  {:?}: YIELD -> {:?}\n", bb, resume)),
                    TerminatorKind::Return => s.push_str(&format!("  {:?}: RETURN\n", bb)),
                    _ => {}
                }
            }
        }
    }
    OUT.lock().unwrap().push_str(&s);
    drop(body);
    res
}

struct Cb;
impl Callbacks for Cb {
    fn config(&mut self, config: &mut Config) {
        config.override_queries = Some(|_sess, providers: &mut Providers| {
            unsafe { DEFAULT_MIR_BUILT = Some(providers.queries.mir_built); }
            providers.queries.mir_built = my_mir_built;
        });
    }
    fn after_analysis<'tcx>(&mut self, _c: &Compiler, tcx: TyCtxt<'tcx>) -> Compilation {
        if tcx.crate_name(rustc_hir::def_id::LOCAL_CRATE).as_str() == "reactive_mutiny" {
            let p = std::env::var("DRV_OUT").unwrap_or("/root/spike/out.txt".into());
            std::fs::File::create(p).unwrap().write_all(OUT.lock().unwrap().as_bytes()).unwrap();
        }
        Compilation::Continue
    }
}
fn main() {
    let args: Vec<String> = std::env::args().collect();
    let mut a = vec!["rustc".to_string()]; a.extend(args.into_iter().skip(2));
    rustc_driver::run_compiler(&a, &mut Cb);
}
