//! Triage demo for the C17 known findings (not part of any check): reproduces, deterministically and on ONE thread, against the real code,
//!   (1) D5: a surviving listener misses an event when another listener is dropped in the middle of a send's fan-out (arc::atomic);
//!   (2) the ogre_arc reference leak: increment_references(n) pre-loads n references but fewer raw copies are made when a listener
//!       is dropped in the middle of the fan-out, so the payload is never released.
//! The "another thread drops a listener between two steps of the fan-out loop" schedule is produced through a listener's waker,
//! which the producer invokes from inside the loop (wake_stream after publishing to an empty queue).
//! Run: copy to <scratch worktree>/tests/c17_demo.rs ; cargo test --offline --test c17_demo -- --nocapture
use reactive_mutiny::prelude::advanced::{ChannelMultiArcAtomic, ChannelMultiOgreArcAtomic};
use reactive_mutiny::types::{ChannelCommon, ChannelMulti, ChannelProducer};
use futures::{FutureExt, Stream, StreamExt};
use std::{
    pin::Pin,
    sync::{Arc, Mutex, atomic::{AtomicBool, AtomicU32, Ordering::SeqCst}},
    task::{Context, Poll, Wake, Waker},
};

#[derive(Debug, Default)]
struct Event { seq: u32, released: Arc<AtomicU32> }
impl Drop for Event { fn drop(&mut self) { self.released.fetch_add(1, SeqCst); } }

struct HookWaker { armed: AtomicBool, action: Mutex<Option<Box<dyn FnOnce() + Send>>> }
impl Wake for HookWaker {
    fn wake(self: Arc<Self>) { self.wake_by_ref() }
    fn wake_by_ref(self: &Arc<Self>) {
        if self.armed.swap(false, SeqCst) {
            let action = self.action.lock().unwrap().take();
            if let Some(action) = action { action(); }
        }
    }
}

#[test]
fn d5_surviving_listener_misses_an_event() {
    let channel = ChannelMultiArcAtomic::<Event, 16, 4>::new("C17 D5");
    let released = Arc::new(AtomicU32::new(0));
    let (mut a, ida) = channel.create_stream_for_new_events();
    let (mut b, idb) = channel.create_stream_for_new_events();
    let (mut c, idc) = channel.create_stream_for_new_events();
    println!("ids: a={ida} b={idb} c={idc}");
    let hook = Arc::new(HookWaker { armed: AtomicBool::new(false), action: Mutex::new(None) });
    let hook_waker = Waker::from(hook.clone());
    let mut cx = Context::from_waker(&hook_waker);
    assert!(matches!(Pin::new(&mut a).poll_next(&mut cx), Poll::Pending));
    // when the producer wakes A (right after publishing to A's empty queue, before B and C are served), A is dropped
    *hook.action.lock().unwrap() = Some(Box::new(move || drop(a)));
    hook.armed.store(true, SeqCst);
    assert!(channel.send(Event { seq: 1, released: released.clone() }).is_ok());
    assert_eq!(channel.running_streams_count(), 2, "A is gone");
    let got_b: Vec<u32> = std::iter::from_fn(|| b.next().now_or_never().flatten().map(|e| e.seq)).collect();
    let got_c: Vec<u32> = std::iter::from_fn(|| c.next().now_or_never().flatten().map(|e| e.seq)).collect();
    println!("B (alive through the whole send) got {got_b:?}; C got {got_c:?}");
    assert_eq!(got_c, vec![1]);
    assert_eq!(got_b, vec![1], "D5: listener B existed before, during and after the send and yet missed event #1");
}

#[test]
fn ogre_arc_reference_leak_under_churn() {
    let channel = ChannelMultiOgreArcAtomic::<Event, 16, 4>::new("C17 leak");
    let released = Arc::new(AtomicU32::new(0));
    let (mut a, _) = channel.create_stream_for_new_events();
    let (mut b, _) = channel.create_stream_for_new_events();
    let (c, _)     = channel.create_stream_for_new_events();
    let hook = Arc::new(HookWaker { armed: AtomicBool::new(false), action: Mutex::new(Some(Box::new(move || drop(c)))) });
    let hook_waker = Waker::from(hook.clone());
    let mut cx = Context::from_waker(&hook_waker);
    assert!(matches!(Pin::new(&mut a).poll_next(&mut cx), Poll::Pending));
    hook.armed.store(true, SeqCst);
    assert!(channel.send(Event { seq: 1, released: released.clone() }).is_ok());
    assert_eq!(channel.running_streams_count(), 2, "C is gone");
    let got_a: Vec<u32> = std::iter::from_fn(|| a.next().now_or_never().flatten().map(|e| e.seq)).collect();
    let got_b: Vec<u32> = std::iter::from_fn(|| b.next().now_or_never().flatten().map(|e| e.seq)).collect();
    println!("A got {got_a:?}; B got {got_b:?}; payloads released: {}", released.load(SeqCst));
    assert_eq!((got_a, got_b), (vec![1], vec![1]));
    assert_eq!(released.load(SeqCst), 1, "every listener consumed and dropped event #1, yet its payload (and pool slot) was never released");
}
