"""Dimension analysis of free-running sequence counters (DESIGN 3.6).

Kinds:  Abs   free-running position (value of a counter role: atomic op on / read of head, tail, enqueuer_tail, dequeuer_head)
        Dist  wrapping difference of two Abs      DistB  a Dist that is bounded by a dominating guard (< N, or > 0 after the signed view)
        Idx   Abs % N          Lap  Abs / N        Base  Lap * N (lap-aligned position)
        N     ring-size generic const             K  literal constant          O  anything else
Interprocedural: parameter kinds are the join of the argument kinds at every resolved call site (fixpoint); return kinds
are computed from the callee's returned expression (tuples component-wise, Option/Result payload transparently)."""
import dag as D
from dag import strip_casts
from mir import Body, op_local

COUNTERS = {"head", "tail", "enqueuer_tail", "dequeuer_head"}
SIZES = {"BUFFER_SIZE", "POOL_SIZE"}
# role-derived kinds: index<->reference conversions yield values below N (R08.2 checks they are the inverse maps over the ring's own
# buffer); length queries are wrapping differences bounded by the ring invariant 0 <= tail - head <= N (R02.2 exact guards)
WIDE = {"usize", "u64", "i64", "isize", "u128", "i128"}
IDX_FNS = {"slot_index_from_slot_ref", "id_from_ref"}
LEN_FNS = {"available_elements_count"}
RANK = {"AbsBits": 7, "AbsW": 6, "DistW": 6, "O": 0, "K": 1, "N": 1, "Idx": 2, "Lap": 2, "DistB": 3, "Dist": 4, "Base": 5, "Abs": 6}


def join(a, b):
    if a is None: return b
    if b is None: return a
    if isinstance(a, tuple) and isinstance(b, tuple) and a[0] == "T" and b[0] == "T" and len(a[1]) == len(b[1]):
        return ("T", tuple(join(x, y) for x, y in zip(a[1], b[1])))
    if isinstance(a, tuple) or isinstance(b, tuple):
        return a if isinstance(a, tuple) else b
    if a == b: return a
    if {a, b} == {"Idx", "Abs"} or {a, b} == {"Idx", "Base"}: return "Abs"     # an index is the lap-0 position
    return a if RANK.get(a, 0) >= RANK.get(b, 0) else b


class Dims:
    def __init__(self, fx, scope_pred):
        self.fx = fx
        self.fns = [f for f in fx.fns if scope_pred(f)]
        self.bodies = {f["key"]: Body(f) for f in self.fns}
        self.dags = {k: D.Dag(b) for k, b in self.bodies.items()}
        self.param = {}      # (fn key, param idx) -> kind
        self.ret = {}        # fn key -> kind
        self._fix()

    # ------------------------------------------------------------------------------------------ interprocedural fixpoint
    def _targets(self, c):
        f = c.get("resolved") or c.get("f")
        if f in self.bodies: return [f]
        if c.get("trait") and c.get("fcrate") == self.fx.meta["crate"]:
            suffix = " as " + c["trait"] + "::" + c["fname"]
            return [k for k in self.bodies if k.endswith(suffix)]
        return []

    def _fix(self):
        for _ in range(8):
            changed = False
            for k, body in self.bodies.items():
                dg = self.dags[k]
                r = self._ret_kind(k, body, dg)
                if r != self.ret.get(k):
                    self.ret[k] = join(self.ret.get(k), r); changed = True
                for (b, c) in body.calls:
                    for t in self._targets(c):
                        for i, a in enumerate(c["args"]):
                            ka = self.kind(k, dg.expr(a))
                            if ka in ("O", None): continue
                            old = self.param.get((t, i + 1))
                            new = join(old, ka)
                            if new != old:
                                self.param[(t, i + 1)] = new; changed = True
            if not changed: break

    def _ret_kind(self, k, body, dg):
        r = self.kind(k, dg.local(0))
        if isinstance(r, tuple) and r[0] == "T" and "Dist" in r[1]:
            comps = list(r[1])
            for idx, ck in enumerate(comps):
                if ck != "Dist": continue
                ok = True; seen = False
                for blk in body.reachable:
                    for st in body.stmts(blk):
                        if st[0] == "A" and st[2][0] == "Agg" and st[2][1][0] == "Tuple" and len(st[2][2]) == len(comps):
                            e = dg.expr(st[2][2][idx])
                            if self.kind(k, e) in ("Dist",):
                                seen = True
                                if not self.bounded(k, blk, e): ok = False
                if seen and ok: comps[idx] = "DistB"
            r = ("T", tuple(comps))
        return r

    # ------------------------------------------------------------------------------------------ kinds of expression trees
    def kind(self, fk, e, depth=0):
        if depth > 30 or not isinstance(e, tuple): return "O"
        k = e[0]
        if k == "const": return "K" if isinstance(e[1], int) else "O"
        if k == "gconst": return "N" if str(e[1]).split("::")[-1] in SIZES else "K"
        if k == "cast":
            ki = self.kind(fk, e[2], depth + 1)
            if ki in ("Abs", "Base") and str(e[1]) in WIDE: return "AbsW"      # u32 position widened: no longer wraps at 2^32
            return ki
        if k == "pair": return self.kind(fk, e[1], depth + 1)
        if k == "atomic":
            return "Abs" if e[2] and e[2][-1] in COUNTERS else "O"
        if k == "mem":
            return "Abs" if e[1] and e[1][-1] in COUNTERS and self._ring_fn(fk) else "O"
        if k == "param":
            return self.param.get((fk, e[1]), "O")
        if k == "phi":
            alts = e[3] if len(e) > 3 else ()
            r = None
            for a in alts:
                if D._mentions(a, ("phi", e[1])) and strip_casts(a)[:2] == ("phi", e[1]): continue
                r = join(r, self.kind(fk, a, depth + 1))
            return r or "O"
        if k == "cycle": return "Abs?"      # loop-carried self reference inside its own definition: resolved by the enclosing phi
        if k == "variant": return self.kind(fk, e[2], depth + 1)
        if k == "adt":
            return self.kind(fk, e[2][0], depth + 1) if len(e[2]) == 1 else "O"
        if k == "tuple": return ("T", tuple(self.kind(fk, x, depth + 1) for x in e[1]))
        if k == "field":
            inner = e[2]
            ki = self.kind(fk, inner, depth + 1)
            if inner[0] == "variant" and not (isinstance(ki, tuple)):
                return ki                                   # payload of Some/Ok/Err
            if inner[0] == "variant":
                return ki                                   # payload is the tuple itself
            if isinstance(ki, tuple) and ki[0] == "T":
                try: return ki[1][int(e[1])]
                except Exception: return "O"
            return ki if ki in ("Abs",) and inner[0] in ("atomic",) else "O"
        if k == "deref": return self.kind(fk, e[1], depth + 1) if isinstance(e[1], tuple) else "O"
        if k == "call":
            name = e[1].split("::")[-1]
            args = [self.kind(fk, a, depth + 1) for a in e[2]]
            if name in IDX_FNS: return "Idx"
            if name in LEN_FNS: return "DistB"
            if name in ("max", "min") and len(args) == 2:
                return join(args[0], args[1])
            if name in ("new", "new_unchecked", "get") and "NonZero" in e[1] and args:
                return args[0]
            if name == "get" and len(args) == 1: return args[0]
            if e[1] in self.bodies: return self.ret.get(e[1], "O")
            ts = [t for t in self.bodies if t.endswith("::" + name) and (" as " in t) and e[1].endswith("::" + name) and t.split(" as ")[-1] == e[1]]
            r = None
            for t in ts: r = join(r, self.ret.get(t))
            return r or "O"
        if k == "bin":
            op = e[1].rstrip("!~")
            a = self.kind(fk, e[2], depth + 1); b = self.kind(fk, e[3], depth + 1)
            a = "Abs" if a == "Abs?" else a; b = "Abs" if b == "Abs?" else b
            if isinstance(a, tuple) or isinstance(b, tuple): return "O"
            if op in ("BitOr", "BitAnd", "BitXor", "Shl", "Shr") and ({"Abs", "Base", "AbsW", "AbsBits"} & {a, b}):
                # `pos & (N-1)` is the power-of-two spelling of `pos % N`
                if op == "BitAnd" and self._is_n_minus_1(fk, e[3] if a in ("Abs", "Base", "AbsW") else e[2]): return "Idx"
                return "AbsBits"
            if "AbsW" in (a, b):
                if op in ("Rem", "Div") and a == "AbsW" and b in ("N", "K"): return "Idx" if op == "Rem" else "Lap"
                if op in ("Sub", "Add"): return "DistW"
                return "O"
            if op == "Sub":
                if a in ("Abs", "Base") and b in ("Abs", "Base"): return "Dist"
                if a in ("Abs", "Base") and b in ("K",): return "Abs"
                if a in ("Dist", "DistB") and b == "K": return a
                if a in ("K", "N") and b in ("Dist", "DistB"): return "DistB" if b == "DistB" else "Dist"
                return "O"
            if op == "Add":
                if "Abs" in (a, b) and (a == "K" or b == "K"): return "Abs"
                if {a, b} == {"Idx", "Base"} or (a == "Abs" and b == "Base") or (a == "Base" and b == "Abs"): return "Abs"
                if a in ("Dist", "DistB") and b == "K": return a
                if b in ("Dist", "DistB") and a == "K": return b
                if "Abs" in (a, b) or "Base" in (a, b): return "Abs"
                return "O"
            if op == "Rem":
                return "Idx" if a in ("Abs", "Base", "Idx") and b in ("N", "K") else ("DistB" if a in ("Dist", "DistB") else "O")
            if op == "Div":
                return "Lap" if a in ("Abs", "Base") and b in ("N", "K") else "O"
            if op == "Mul":
                if (a == "Lap" and b in ("N", "K")) or (b == "Lap" and a in ("N", "K")): return "Base"
                if "Abs" in (a, b): return "Abs"
                return "O"
            return "O"
        return "O"

    def _is_n_minus_1(self, fk, e):
        e = strip_casts(e)
        return e[0] == "bin" and e[1].rstrip("!~") == "Sub" and self.kind(fk, e[2]) == "N" and strip_casts(e[3]) == ("const", 1)

    def _ring_fn(self, fk):
        f = self.fx.by_key[fk][0]
        s = f.get("impl_self") or ""
        return s.endswith("FullSyncMove") or s.endswith("AtomicMove") or "full_sync_move" in fk or "atomic_move" in fk

    # ------------------------------------------------------------------------------------------ bounded distances
    def bounded(self, fk, blk, e):
        """the Dist-valued expression e is bounded at block blk: a dominating guard `e < N|K` (true edge) or `0 < (e as iN)`"""
        body = self.bodies[fk]; dg = self.dags[fk]
        # a bounded distance plus / minus a literal is still a small number (`len_before + 1` handed on as the length after)
        while True:
            x = strip_casts(e)
            if x[0] == "pair": e = x[1]; continue
            if x[0] == "bin" and x[1].rstrip("!~") in ("Add", "Sub") and strip_casts(x[3])[0] == "const" and isinstance(strip_casts(x[3])[1], int) and abs(strip_casts(x[3])[1]) <= 2:
                e = x[2]; continue
            if x[0] == "bin" and x[1].rstrip("!~") == "Add" and strip_casts(x[2])[0] == "const" and isinstance(strip_casts(x[2])[1], int) and abs(strip_casts(x[2])[1]) <= 2:
                e = x[3]; continue
            break
        ne = D.norm(strip_casts(e))
        for b in body.reachable:
            c = D.cmp_of_switch(body, dg, b)
            if not c: continue
            # both polarities: `e < N` on its true edge, or `!(N <= e)` written as `if e >= N {reject} else {..}`
            forms = []
            op, x, y, tt, ft = c
            if op in ("Lt", "Le"): forms.append((x, y, tt))
            if op in ("Gt", "Ge"): forms.append((y, x, tt))
            if op == "Ge": forms.append((x, y, ft))          # !(x >= y)  ==  x < y
            if op == "Gt": forms.append((x, y, ft))          # !(x > y)   ==  x <= y
            if op == "Le": forms.append((y, x, ft))          # !(x <= y)  ==  y < x
            if op == "Lt": forms.append((y, x, ft))          # !(x < y)   ==  y <= x
            for (lo, hi, edge) in forms:
                if tt == ft: continue
                def guards_blk():
                    if body.dominates(edge, blk): return True
                    # flag-aware: the guard's block dominates blk and blk cannot be reached from the guard's OTHER edge without re-evaluating the guard
                    # (the accepted value travels through an Option built on this edge and matched later: the join block is not dominated by the edge)
                    other = ft if edge == tt else tt
                    import util
                    return body.dominates(b, blk) and blk not in util.flag_paths(body, dg, other, stop_blocks={b})
                if D.norm(strip_casts(lo)) == ne and self.kind(fk, hi) in ("N", "K") and guards_blk():
                    return True
                if D.norm(strip_casts(hi)) == ne and strip_casts(lo)[0] == "const" and hi[0] == "cast" and str(hi[1]).startswith("i") and guards_blk():
                    return True
        return False
