"""Rules about stream-id life cycle shared by C07, C10 and C17: drain-before-release in Multi channels' drop_resources, and the
id / count bookkeeping of StreamsManagerBase."""
import dag as D, util, ts, roles as R
from dag import strip_casts, show
from mir import Body, op_local, op_int

SM = R.SM
PER_LISTENER_QUEUES = ["multi.arc.atomic", "multi.arc.full_sync", "multi.arc.crossbeam", "multi.ogre_arc.atomic", "multi.ogre_arc.full_sync"]
DEQUEUE_NAMES = ("consume", "consume_movable", "try_recv", "dequeue")


def _param_like(e, idx):
    e = strip_casts(e)
    return e[0] == "param" and e[1] == idx


def drain_loops(body, dg):
    """natural loops of `body` that dequeue from the listener's own queue (stream id = parameter 2) and whose every exit lies on the
    'queue answered empty' edge.  Returns list of dicts {header, dq_block, exits_ok, why}"""
    out = []
    for h, blocks in body.loops.items():
        dq = None
        for b in sorted(blocks):
            t = body.term(b)
            if t[0] != "Call": continue
            c = t[1]
            if c.get("fname") not in DEQUEUE_NAMES: continue
            args = [dg.expr(a) for a in c["args"]]
            # consume(self, stream_id)  |  <queue>[stream_id].consume_movable()
            on_own = (len(args) >= 2 and _param_like(args[1], 2)) or _mentions_param(args[0], 2)
            if on_own:
                dq = (b, c); break
        if dq is None: continue
        b, c = dq
        res = c["dst"]["l"]
        exits = [(x, y) for (x, y) in body.loop_exits(h) if y in body.can_return]
        ok = bool(exits); why = []
        for (x, y) in exits:
            good = False
            t = body.term(x)
            if t[0] == "Switch":
                e = dg.expr(t[1])
                neg = False
                while e[0] == "un" and e[1] == "Not": e = e[2]; neg = not neg
                zero = [tg for (v, tg) in t[2] if v == 0]
                if e[0] == "call" and e[1].split("::")[-1] in ("is_some", "is_ok", "is_none", "is_err") and _refers_to(body, dg, e[2][0], res):
                    truthy_means_item = e[1].split("::")[-1] in ("is_some", "is_ok")
                    if neg: truthy_means_item = not truthy_means_item
                    # exit must be taken when there is NO item
                    if truthy_means_item: good = zero and y == zero[0] and y != t[3]
                    else: good = y == t[3] and (not zero or y != zero[0])
                elif e[0] == "discr":
                    ve = util.variant_edges(body, x)
                    if ve and (ve[0] == res or ve[0] in util.copies_of(body, res)):      # (the answer may have travelled through an inlined helper's return slot)
                        ty = body.locals[res]["ty"]
                        empty_variant = 0 if ty.startswith("std::option::Option") else 1
                        good = ve[1].get(empty_variant, ve[2]) == y
            if not good:
                ok = False; why.append(f"exit bb{x}->bb{y} is not the queue's 'empty' answer")
        out.append({"header": h, "dq_block": b, "exits_ok": ok, "why": "; ".join(why), "blocks": blocks})
    return out


def _mentions_param(e, idx, depth=0):
    if not isinstance(e, tuple) or depth > 12: return False
    if e[:2] == ("param", idx): return True
    return any(_mentions_param(x, idx, depth + 1) for x in e if isinstance(x, tuple))


def _refers_to(body, dg, e, local):
    """expression e is (a reference to) the call result stored in `local`"""
    d = body.single_def(local)
    if not d: return False
    want = dg.rvalue(d, 0)
    e = strip_casts(e)
    if e[0] == "ref?" and e[1] == f"_{local}": return True
    return e == want or (e[0] == "call" and want[0] == "call" and e[3] == want[3])


def check_drain_before_release(ctx, rule):
    """R10.1 / R17.3: drop_resources of every Multi channel with per-listener queues empties the dropped listener's queue on every path,
    strictly before the id is released, and releases exactly once with the same id"""
    fx = ctx.fx
    n = 0
    for name in PER_LISTENER_QUEUES:
        key = f"{R.CHANNELS[name]} as {R.T_CONS}::drop_resources"
        body = Body(fx.fn(key)); dg = D.Dag(body)
        site = f"{body.f['file']}:{body.f['line']}"
        loops = drain_loops(body, dg)
        rel = [(b, c) for (b, c) in body.calls if (c.get("resolved") or c.get("f")) == SM + "::report_stream_dropped"]
        n += 1
        if not loops:
            ctx.ob(rule, f"{key}|drains-leftovers", False, site, "no loop that empties the dropped listener's queue: the next stream reusing this id would yield events sent before its creation"); continue
        good = [l for l in loops if l["exits_ok"]]
        ctx.ob(rule, f"{key}|drain-exits-only-when-empty", bool(good), body.loc(loops[0]["dq_block"]),
               "the drain loop is left only on the queue's 'empty' answer" if good else loops[0]["why"])
        if not good: continue
        L = good[0]
        ctx.ob(rule, f"{key}|drain-on-every-path", body.postdominates(L["header"], 0), body.loc(L["dq_block"]),
               "the drain runs on every path through drop_resources (a drain skipped under some stream state leaves leftovers for the id's next owner)")
        for (b, c) in rel:
            ok = body.dominates(L["header"], b) and b not in L["blocks"]
            ctx.ob(rule, f"{key}|drain-before-release", ok, body.loc(b),
                   "the id is released (report_stream_dropped) only after the queue was emptied: once released, a new listener may own the id and the drain would eat its events")
        _release_once(ctx, rule, key, body, dg, rel, site)
    return n


def check_consume_asks_queue(ctx, rule):
    """every answer of a Multi channel's consume(stream_id) is produced after asking the listener's queue, once: a `None` answered without asking (stream already told to
    end, 'nothing to do' shortcut) is read as 'empty' by the poll protocol and by the drain-on-drop loop (`while self.consume(id).is_some() {}`), which then skip /
    leave behind queued events -- the id's next owner yields events sent before it was created"""
    fx = ctx.fx
    for name in PER_LISTENER_QUEUES:
        kc = f"{R.CHANNELS[name]} as {R.T_CONS}::consume"
        cb = Body(fx.fn(kc))
        dq = [(b, c) for (b, c) in cb.calls if c.get("fname") in ("consume_movable", "try_recv")]
        ok = len(dq) == 1 and util.on_every_return_path(cb, dq[0][0]) and not util.in_loop(cb, dq[0][0])
        ctx.ob(rule, f"{kc}|asks-its-queue-on-every-path", ok, cb.loc(dq[0][0]) if dq else f"{cb.f['file']}:{cb.f['line']}",
               f"{len(dq)} dequeue call(s); required: exactly one, on every path to an answer (a `None` produced without asking the queue is taken for 'empty' by poll_next and by the drain-on-drop loop)")


def _release_once(ctx, rule, key, body, dg, rel, site):
    is_rel = lambda b: any(b == x for (x, _) in rel)
    lo, hi, inloop = util.count_on_paths(body, is_rel)
    same = all(_param_like(dg.expr(c["args"][1]), 2) for (_, c) in rel)
    ctx.ob(rule, f"{key}|releases-id-once", (lo, hi) == (1, 1) and not inloop and same, site,
           f"report_stream_dropped is called between {lo} and {hi} times per path with {'its own' if same else 'ANOTHER'} stream id; required exactly once with the dropped stream's id")


def check_release_all_channels(ctx, rule):
    """every ChannelConsumer::drop_resources returns its id exactly once (the 6 channels without per-listener queues)"""
    fx = ctx.fx
    for name, path in R.CHANNELS.items():
        if name in PER_LISTENER_QUEUES: continue
        key = f"{path} as {R.T_CONS}::drop_resources"
        body = Body(fx.fn(key)); dg = D.Dag(body)
        rel = [(b, c) for (b, c) in body.calls if (c.get("resolved") or c.get("f")) == SM + "::report_stream_dropped"]
        _release_once(ctx, rule, key, body, dg, rel, f"{body.f['file']}:{body.f['line']}")


def fanout_iteration_source(body, dg):
    """for a sender body: how the listener list is read.  Returns list of (block, kind, detail) with kind in
    'live' (entries read through the reference returned by used_streams()), 'snapshot' (a by-value copy of the array is iterated)"""
    out = []
    for b in sorted(body.reachable):
        for i, st in enumerate(body.stmts(b)):
            if st[0] != "A" or st[1]["p"]: continue
            rv = st[2]
            ty = body.locals[st[1]["l"]]["ty"]
            if rv[0] == "Use" and ty.startswith("[u32;") and rv[1][0] in ("c", "m") and "*" in rv[1][1]["p"]:
                src = dg.local(rv[1][1]["l"])
                if "used_streams" in show(src):
                    out.append((b, "snapshot", f"`{body.lname(st[1]['l'])}` = by-value copy of the live listener list ({show(src)})"))
    for (b, c) in body.calls:
        if c.get("fname") in ("clone", "to_owned", "to_vec", "into", "from", "try_into") and c["args"] and not c["dst"]["p"]:
            ty = body.locals[c["dst"]["l"]]["ty"]
            if (ty.startswith("[u32;") or "Vec<u32" in ty or "Box<[u32" in ty) and "used_streams" in show(dg.expr(c["args"][0])):
                out.append((b, "snapshot", f"`{c['fname']}()` of the live listener list ({show(dg.expr(c['args'][0]))})"))
    for (b, c) in body.calls:
        if (c.get("resolved") or c.get("f")) == SM + "::used_streams":
            out.append((b, "live", "reads through the reference returned by used_streams()"))
    # the list's own cell borrowed in place (an inlined helper of the streams manager): `&*self.used_streams.get()`
    for b in sorted(body.reachable):
        for i, st in enumerate(body.stmts(b)):
            if st[0] == "A" and st[2][0] in ("Ref", "RawPtr") and any(e != "*" and e[0] == "f" and e[1] == "used_streams" and e[3] == SM for e in st[2][2]["p"]):
                out.append((b, "live", "borrows the list's cell in place")); break
    return out


# ---------------------------------------------------------------------------------------------- wait loops of flush / end_* (C06, C07)
def timeout_nonzero_edges(body, dg):
    """true-edge targets of `timeout != Duration::ZERO` tests (PartialEq::ne on the captured timeout)"""
    out = []
    for b in sorted(body.reachable):
        t = body.term(b)
        if t[0] != "Switch" or t[5] != "bool": continue
        e = strip_casts(dg.expr(t[1]))
        if e[0] == "call" and e[1].endswith("PartialEq::ne") and "timeout" in show(e[2][0]):
            zero = [tg for (v, tg) in t[2] if v == 0]
            if not zero or zero[0] != t[3]: out.append(t[3])
        if e[0] == "call" and e[1].endswith("PartialEq::eq") and "timeout" in show(e[2][0]):
            zero = [tg for (v, tg) in t[2] if v == 0]
            if zero and zero[0] != t[3]: out.append(zero[0])
    return out


def ret_assignments(body):
    """blocks that define the return place _0 (statement or call destination)"""
    out = []
    for b in sorted(body.reachable):
        for st in body.stmts(b):
            if st[0] == "A" and not st[1]["p"] and st[1]["l"] == 0: out.append((b, st[2]))
        t = body.term(b)
        if t[0] == "Call" and not t[1]["dst"]["p"] and t[1]["dst"]["l"] == 0: out.append((b, ["CallRes", t[1]]))
    return out


def wait_loop_of(body, pred):
    """the largest natural loop containing a call satisfying pred"""
    cands = [h for h, blocks in body.loops.items() if any(b in blocks and pred(c) for (b, c) in body.calls)]
    return max(cands, key=lambda h: len(body.loops[h])) if cands else None


def classify_exits(body, dg, h, is_success_edge):
    """exits of loop h that can reach a return: list of (x, y, kind) with kind 'success' | 'timeout' | 'other'"""
    nz = timeout_nonzero_edges(body, dg)
    out = []
    for (x, y) in body.loop_exits(h):
        if y not in body.can_return: continue
        if is_success_edge(x, y): out.append((x, y, "success"))
        elif any(body.dominates(t, x) or t == y for t in nz): out.append((x, y, "timeout"))
        else: out.append((x, y, "other"))
    return out


def check_cancel_not_repeated(ctx, rule):
    """end_stream tells its target to end BEFORE it waits, never from inside the wait loop: the loop runs until the target's id is vacant again -- but a vacant id
    may be handed to a new stream at once (small MAX_STREAMS), and a cancel repeated by the loop would then end a stream nobody asked to end"""
    fx = ctx.fx
    k = SM + "::end_stream::{closure#0}"
    body = Body(fx.fn(k))
    cs = [(b, c) for (b, c) in body.calls if (c.get("resolved") or c.get("f")) == SM + "::cancel_stream"]
    for (b, c) in cs:
        inl = util.in_loop(body, b)
        ctx.ob(rule, f"{k}|cancel-not-repeated-by-the-wait-loop", not inl, body.loc(b),
               "the cancel is issued once, before the wait loop" if not inl else
               "cancel_stream is called from inside the loop that waits for the id to become vacant: once the target was dropped its id can be re-issued, and the next "
               "iteration cancels the NEW stream that got the id")
    if not cs:
        ctx.ob(rule, f"{k}|cancel-not-repeated-by-the-wait-loop", False, f"{body.f['file']}:{body.f['line']}", "end_stream never cancels its target")


# ---------------------------------------------------------------------------------------------------------------------------------------------------------
def _root_with_offset(body, o, depth=0):
    """follows an operand back through copies, integer casts and +-literal (checked, wrapping or plain) to the first multiply-defined local:
    returns (local, offset, (block, stmt index) where that local is read) or None"""
    from mir import op_local, op_int
    if depth > 12 or o[0] not in ("c", "m"): return None
    p = o[1]
    extra = 0
    fld0 = bool(p["p"]) and len(p["p"]) == 1 and isinstance(p["p"][0], list) and p["p"][0][0] == "f" and p["p"][0][2] == 0
    if p["p"] and not fld0: return None
    l = p["l"]
    ds = [d for d in body.defs.get(l, []) if d[0] in body.reachable]
    if len(ds) != 1 or body.partial_writes(l): return ("L", l)
    b, i, rv = ds[0]
    def here(r):
        if r is not None and len(r) == 2 and r[0] == "L": return (r[1], 0, (b, i))
        return r
    if fld0:
        if rv[0] == "Bin" and rv[1] in ("AddWithOverflow", "SubWithOverflow"):
            k = op_int(rv[3])
            if k is None: return None
            r = here(_root_with_offset(body, rv[2], depth + 1))
            return None if r is None else (r[0], r[1] + (k if rv[1].startswith("Add") else -k), r[2])
        return None
    if rv[0] == "Use": return here(_root_with_offset(body, rv[1], depth + 1))
    if rv[0] == "Cast": return here(_root_with_offset(body, rv[2], depth + 1))
    if rv[0] == "Bin" and rv[1] in ("Add", "Sub", "AddUnchecked", "SubUnchecked"):
        k = op_int(rv[3])
        if k is None: return None
        r = here(_root_with_offset(body, rv[2], depth + 1))
        return None if r is None else (r[0], r[1] + (k if rv[1].startswith("Add") else -k), r[2])
    if rv[0] == "CallRes" and rv[1].get("fname") in ("wrapping_add", "wrapping_sub") and len(rv[1]["args"]) == 2:
        k = op_int(rv[1]["args"][1])
        if k is None: return None
        r = here(_root_with_offset(body, rv[1]["args"][0], depth + 1))
        return None if r is None else (r[0], r[1] + (k if "add" in rv[1]["fname"] else -k), r[2])
    return None


def _innermost_loop(body, b):
    best = None
    for h, blocks in body.loops.items():
        if b in blocks and (best is None or len(blocks) < len(body.loops[best])): best = h
    return best


def check_rebuild_cursor(ctx, rule):
    """The rebuild of the live-listener list writes its entries through a running cursor and pads the rest with the end-of-list sentinel.  Whatever the spelling
    (cursor starting at -1 and bumped before each store, or at 0 and bumped after it), three facts must agree: the first entry lands on index 0, every store is paired
    with exactly one bump, and the padding starts at the first index no entry was written to -- `cursor + 1` in the first spelling, `cursor` in the second.  A padding
    that starts one slot late leaves a stale id behind the last live entry after a listener was removed: fan-outs that walk to the sentinel feed a dead listener's queue
    (the id's next owner yields events sent before it existed) or feed a live listener twice; one slot early drops the last live listener from every fan-out."""
    fx = ctx.fx
    key = SM + "::sync_vacant_and_used_streams"
    f = fx.fn_opt(key)
    if f is None: return
    body = Body(f); dg = D.Dag(body)
    site = f"{f['file']}:{f['line']}"
    stores = []
    for b in sorted(body.reachable):
        for si, st in enumerate(body.stmts(b)):
            if st[0] != "A" or st[1]["p"] != ["*"]: continue
            d = body.single_def(st[1]["l"])
            if d is None or d[2][0] != "CallRes": continue
            c = d[2][1]
            if c.get("fname") not in ("get_unchecked_mut", "index_mut") or len(c["args"]) < 2: continue
            if "used_streams" not in D.show(dg.expr(c["args"][0])): continue
            val = strip_casts(dg.expr(st[2][1])) if st[2][0] == "Use" else None
            sentinel = val is not None and ((val[0] == "gconst" and str(val[1]).endswith("u32::MAX")) or (val[0] == "const" and val[1] == 0xFFFFFFFF))
            stores.append({"b": d[0], "idx": c["args"][1], "sentinel": sentinel})
    live = [s for s in stores if not s["sentinel"]]; pad = [s for s in stores if s["sentinel"]]
    def und(why_):
        ctx.undecided(rule, f"{key}|first-entry-lands-on-index-0", site, why_)
        ctx.undecided(rule, f"{key}|padding-starts-after-the-last-entry", site, why_)
    if not live or not pad:
        und(f"{len(live)} entry store(s), {len(pad)} sentinel store(s) recognised: the rebuild is not the cursor-and-padding loop"); return
    ds = set(); cursors = set(); why = None
    for s in live:
        r = _root_with_offset(body, s["idx"])
        if r is None or len(r) != 3: why = "an entry store's index is not a running cursor"; break
        L, off, (rb, ri) = r
        cursors.add(L)
        incs = []
        for (b_, i_, rv_) in body.defs.get(L, []):
            if b_ not in body.reachable: continue
            if rv_[0] == "Use" and rv_[1][0] == "k": continue              # initial value
            rr = _root_with_offset(body, rv_[1]) if rv_[0] == "Use" else None
            if rv_[0] == "Bin" and rv_[1] in ("Add", "AddUnchecked") and op_int(rv_[3]) is not None:      # overflow checks off: `cursor = cursor + 1` is one statement
                r0 = _root_with_offset(body, rv_[2])
                if r0 is not None and len(r0) == 2 and r0[0] == "L": r0 = (r0[1], 0, (b_, i_))
                rr = None if r0 is None or len(r0) != 3 else (r0[0], r0[1] + op_int(rv_[3]), r0[2])
            if rr is not None and len(rr) == 3 and rr[0] == L and rr[1] == 1: incs.append((b_, i_))
            else: why = "the cursor is updated by something else than `+ 1`"
        lp = _innermost_loop(body, rb)
        before = [(b_, i_) for (b_, i_) in incs if _innermost_loop(body, b_) == lp and ((b_ == rb and i_ < ri) or (b_ != rb and body.dominates(b_, rb)))]
        after = [(b_, i_) for (b_, i_) in incs if _innermost_loop(body, b_) == lp and ((b_ == rb and i_ > ri) or (b_ != rb and body.dominates(rb, b_)))]
        if len(before) + len(after) != 1: why = f"an entry store is paired with {len(before) + len(after)} cursor bumps in its loop iteration (exactly one expected)"; break
        ds.add((1 if before else 0) + off)
    if why or len(cursors) != 1 or len(ds) != 1:
        und(why or "entry stores do not share one cursor / one store-to-bump order"); return
    L = cursors.pop(); d = ds.pop()
    inits = [rv_[1][1].get("int") for (b_, i_, rv_) in body.defs.get(L, []) if b_ in body.reachable and rv_[0] == "Use" and rv_[1][0] == "k"]
    ok0 = len(inits) == 1 and inits[0] is not None and inits[0] + d == 0
    ctx.ob(rule, f"{key}|first-entry-lands-on-index-0", ok0, site, f"cursor starts at {inits}, entries are stored at cursor{'+1' if d else ''} (bump {'before' if d else 'after'} the store); required: start + {d} == 0")
    # padding start
    ps = set(); whyp = None
    for s in pad:
        e = strip_casts(dg.expr(s["idx"]))
        # `for i in START..MAX_STREAMS`: the index is the item of a Range whose start is cursor + p
        rng = None
        for b in sorted(body.reachable):
            for st in body.stmts(b):
                if st[0] == "A" and st[2][0] == "Agg" and st[2][1][0] == "Adt" and "ops::Range" in st[2][1][1] and len(st[2][2]) == 2 and body.dominates(b, s["b"]):
                    r = _root_with_offset(body, st[2][2][0])
                    if r is not None and len(r) == 3 and r[0] == L: rng = r
        if rng is not None and "next" in D.show(e):
            ps.add(rng[1]); continue
        r = _root_with_offset(body, s["idx"])
        if r is not None and len(r) == 3 and r[0] == L:
            # the padding loop carries on with the same cursor: same store-to-bump order required
            rb, ri = r[2]
            lp = _innermost_loop(body, rb)
            incs = [(b_, i_) for (b_, i_, rv_) in body.defs.get(L, []) if b_ in body.reachable and _innermost_loop(body, b_) == lp and rv_[0] == "Use" and rv_[1][0] != "k"]
            before = [x for x in incs if (x[0] == rb and x[1] < ri) or (x[0] != rb and body.dominates(x[0], rb))]
            ps.add((1 if before else 0) + r[1]); continue
        whyp = "the padding's start is not derived from the entry cursor"
    if whyp or len(ps) != 1:
        ctx.undecided(rule, f"{key}|padding-starts-after-the-last-entry", site, whyp or "several padding loops"); return
    p = ps.pop()
    # ... and reaches the end of the list: the padding loop runs to MAX_STREAMS itself; a single sentinel right after the last entry (readers stop at the first one) is
    # written whenever that index exists (`idx < MAX_STREAMS`, not `< MAX_STREAMS - 1`: after a removal from a FULL list the last slot still holds a stale id)
    full_ok = True; full_why = "the padding runs up to MAX_STREAMS"
    for s_ in pad:
        in_loop = util.in_loop(body, s_["b"])
        if in_loop:
            ends = []
            for b in sorted(body.reachable):
                for st in body.stmts(b):
                    if st[0] == "A" and st[2][0] == "Agg" and st[2][1][0] == "Adt" and "ops::Range" in st[2][1][1] and len(st[2][2]) == 2 and body.dominates(b, s_["b"]):
                        r0 = _root_with_offset(body, st[2][2][0])
                        if r0 is not None and len(r0) == 3 and r0[0] == L: ends.append(strip_casts(dg.expr(st[2][2][1])))
            if ends and not all(e_[0] == "gconst" and str(e_[1]).split("::")[-1] == "MAX_STREAMS" for e_ in ends):
                full_ok = False; full_why = f"the padding range ends at `{show(ends[0])[:60]}`, not at MAX_STREAMS"
        else:
            guards_ = []
            for x in sorted(body.dom[s_["b"]]):
                c_ = D.cmp_of_switch(body, dg, x)
                cb_ = D.canon_branch(c_) if c_ else None
                if cb_ and cb_[0] == "lt" and body.dominates(cb_[3], s_["b"]) and "MAX_STREAMS" in show(cb_[2]): guards_.append(strip_casts(cb_[2]))
            if guards_ and not all(g_[0] == "gconst" and str(g_[1]).split("::")[-1] == "MAX_STREAMS" for g_ in guards_):
                full_ok = False; full_why = f"the single sentinel is written only when its index is below `{show(guards_[0])[:60]}`: the last slot of a formerly full list keeps a stale id"
    ctx.ob(rule, f"{key}|padding-reaches-the-end-of-the-list", full_ok, site, full_why)
    ctx.ob(rule, f"{key}|padding-starts-after-the-last-entry", p == d, site,
           f"the sentinel padding starts at cursor{'%+d' % p if p else ''}; with the bump {'before' if d else 'after'} each entry store the first unwritten index is cursor{'+1' if d else ''}" +
           ("" if p == d else (": one slot LATE -- a stale id stays behind the last live entry (a dropped listener's queue keeps being fed, or a live one is fed twice)" if p > d else
                               ": one slot EARLY -- the last live listener is overwritten by the sentinel and dropped from every fan-out")))
