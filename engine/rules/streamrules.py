"""Rules about stream-id life cycle shared by C07, C10 and C17: drain-before-release in Multi channels' drop_resources, and the
id / count bookkeeping of StreamsManagerBase."""
import dag as D, util, ts, roles as R
from dag import strip_casts, show
from mir import Body, op_local

SM = R.SM
PER_LISTENER_QUEUES = ["multi.arc.atomic", "multi.arc.full_sync", "multi.arc.crossbeam", "multi.ogre_arc.atomic", "multi.ogre_arc.full_sync"]
DEQUEUE_NAMES = ("consume", "consume_movable", "try_recv", "dequeue")


def _param_like(e, idx):
    e = strip_casts(e)
    return e[0] == "param" and e[1] == idx


def drain_loops(body, dg):
    """natural loops of `body` that dequeue from the listener's own queue (stream id = parameter 2) and whose every exit lies on the
    'queue answered empty' edge.  Returns list of dicts {header, dq_block, exits_ok, why}"""
    out = []
    for h, blocks in body.loops.items():
        dq = None
        for b in sorted(blocks):
            t = body.term(b)
            if t[0] != "Call": continue
            c = t[1]
            if c.get("fname") not in DEQUEUE_NAMES: continue
            args = [dg.expr(a) for a in c["args"]]
            # consume(self, stream_id)  |  <queue>[stream_id].consume_movable()
            on_own = (len(args) >= 2 and _param_like(args[1], 2)) or _mentions_param(args[0], 2)
            if on_own:
                dq = (b, c); break
        if dq is None: continue
        b, c = dq
        res = c["dst"]["l"]
        exits = [(x, y) for (x, y) in body.loop_exits(h) if y in body.can_return]
        ok = bool(exits); why = []
        for (x, y) in exits:
            good = False
            t = body.term(x)
            if t[0] == "Switch":
                e = dg.expr(t[1])
                neg = False
                while e[0] == "un" and e[1] == "Not": e = e[2]; neg = not neg
                zero = [tg for (v, tg) in t[2] if v == 0]
                if e[0] == "call" and e[1].split("::")[-1] in ("is_some", "is_ok", "is_none", "is_err") and _refers_to(body, dg, e[2][0], res):
                    truthy_means_item = e[1].split("::")[-1] in ("is_some", "is_ok")
                    if neg: truthy_means_item = not truthy_means_item
                    # exit must be taken when there is NO item
                    if truthy_means_item: good = zero and y == zero[0] and y != t[3]
                    else: good = y == t[3] and (not zero or y != zero[0])
                elif e[0] == "discr":
                    ve = util.variant_edges(body, x)
                    if ve and ve[0] == res:
                        ty = body.locals[res]["ty"]
                        empty_variant = 0 if ty.startswith("std::option::Option") else 1
                        good = ve[1].get(empty_variant, ve[2]) == y
            if not good:
                ok = False; why.append(f"exit bb{x}->bb{y} is not the queue's 'empty' answer")
        out.append({"header": h, "dq_block": b, "exits_ok": ok, "why": "; ".join(why), "blocks": blocks})
    return out


def _mentions_param(e, idx, depth=0):
    if not isinstance(e, tuple) or depth > 12: return False
    if e[:2] == ("param", idx): return True
    return any(_mentions_param(x, idx, depth + 1) for x in e if isinstance(x, tuple))


def _refers_to(body, dg, e, local):
    """expression e is (a reference to) the call result stored in `local`"""
    d = body.single_def(local)
    if not d: return False
    want = dg.rvalue(d, 0)
    e = strip_casts(e)
    if e[0] == "ref?" and e[1] == f"_{local}": return True
    return e == want or (e[0] == "call" and want[0] == "call" and e[3] == want[3])


def check_drain_before_release(ctx, rule):
    """R10.1 / R17.3: drop_resources of every Multi channel with per-listener queues empties the dropped listener's queue on every path,
    strictly before the id is released, and releases exactly once with the same id"""
    fx = ctx.fx
    n = 0
    for name in PER_LISTENER_QUEUES:
        key = f"{R.CHANNELS[name]} as {R.T_CONS}::drop_resources"
        body = Body(fx.fn(key)); dg = D.Dag(body)
        site = f"{body.f['file']}:{body.f['line']}"
        loops = drain_loops(body, dg)
        rel = [(b, c) for (b, c) in body.calls if (c.get("resolved") or c.get("f")) == SM + "::report_stream_dropped"]
        n += 1
        if not loops:
            ctx.ob(rule, f"{key}|drains-leftovers", False, site, "no loop that empties the dropped listener's queue: the next stream reusing this id would yield events sent before its creation"); continue
        good = [l for l in loops if l["exits_ok"]]
        ctx.ob(rule, f"{key}|drain-exits-only-when-empty", bool(good), body.loc(loops[0]["dq_block"]),
               "the drain loop is left only on the queue's 'empty' answer" if good else loops[0]["why"])
        if not good: continue
        L = good[0]
        ctx.ob(rule, f"{key}|drain-on-every-path", body.postdominates(L["header"], 0), body.loc(L["dq_block"]),
               "the drain runs on every path through drop_resources (a drain skipped under some stream state leaves leftovers for the id's next owner)")
        for (b, c) in rel:
            ok = body.dominates(L["header"], b) and b not in L["blocks"]
            ctx.ob(rule, f"{key}|drain-before-release", ok, body.loc(b),
                   "the id is released (report_stream_dropped) only after the queue was emptied: once released, a new listener may own the id and the drain would eat its events")
        _release_once(ctx, rule, key, body, dg, rel, site)
    return n


def _release_once(ctx, rule, key, body, dg, rel, site):
    is_rel = lambda b: any(b == x for (x, _) in rel)
    lo, hi, inloop = util.count_on_paths(body, is_rel)
    same = all(_param_like(dg.expr(c["args"][1]), 2) for (_, c) in rel)
    ctx.ob(rule, f"{key}|releases-id-once", (lo, hi) == (1, 1) and not inloop and same, site,
           f"report_stream_dropped is called between {lo} and {hi} times per path with {'its own' if same else 'ANOTHER'} stream id; required exactly once with the dropped stream's id")


def check_release_all_channels(ctx, rule):
    """every ChannelConsumer::drop_resources returns its id exactly once (the 6 channels without per-listener queues)"""
    fx = ctx.fx
    for name, path in R.CHANNELS.items():
        if name in PER_LISTENER_QUEUES: continue
        key = f"{path} as {R.T_CONS}::drop_resources"
        body = Body(fx.fn(key)); dg = D.Dag(body)
        rel = [(b, c) for (b, c) in body.calls if (c.get("resolved") or c.get("f")) == SM + "::report_stream_dropped"]
        _release_once(ctx, rule, key, body, dg, rel, f"{body.f['file']}:{body.f['line']}")


def fanout_iteration_source(body, dg):
    """for a sender body: how the listener list is read.  Returns list of (block, kind, detail) with kind in
    'live' (entries read through the reference returned by used_streams()), 'snapshot' (a by-value copy of the array is iterated)"""
    out = []
    for b in sorted(body.reachable):
        for i, st in enumerate(body.stmts(b)):
            if st[0] != "A" or st[1]["p"]: continue
            rv = st[2]
            ty = body.locals[st[1]["l"]]["ty"]
            if rv[0] == "Use" and ty.startswith("[u32;") and rv[1][0] in ("c", "m") and "*" in rv[1][1]["p"]:
                src = dg.local(rv[1][1]["l"])
                if "used_streams" in show(src):
                    out.append((b, "snapshot", f"`{body.lname(st[1]['l'])}` = by-value copy of the live listener list ({show(src)})"))
    for (b, c) in body.calls:
        if c.get("fname") in ("clone", "to_owned", "to_vec", "into", "from", "try_into") and c["args"] and not c["dst"]["p"]:
            ty = body.locals[c["dst"]["l"]]["ty"]
            if (ty.startswith("[u32;") or "Vec<u32" in ty or "Box<[u32" in ty) and "used_streams" in show(dg.expr(c["args"][0])):
                out.append((b, "snapshot", f"`{c['fname']}()` of the live listener list ({show(dg.expr(c['args'][0]))})"))
    for (b, c) in body.calls:
        if (c.get("resolved") or c.get("f")) == SM + "::used_streams":
            out.append((b, "live", "reads through the reference returned by used_streams()"))
    # the list's own cell borrowed in place (an inlined helper of the streams manager): `&*self.used_streams.get()`
    for b in sorted(body.reachable):
        for i, st in enumerate(body.stmts(b)):
            if st[0] == "A" and st[2][0] in ("Ref", "RawPtr") and any(e != "*" and e[0] == "f" and e[1] == "used_streams" and e[3] == SM for e in st[2][2]["p"]):
                out.append((b, "live", "borrows the list's cell in place")); break
    return out


# ---------------------------------------------------------------------------------------------- wait loops of flush / end_* (C06, C07)
def timeout_nonzero_edges(body, dg):
    """true-edge targets of `timeout != Duration::ZERO` tests (PartialEq::ne on the captured timeout)"""
    out = []
    for b in sorted(body.reachable):
        t = body.term(b)
        if t[0] != "Switch" or t[5] != "bool": continue
        e = strip_casts(dg.expr(t[1]))
        if e[0] == "call" and e[1].endswith("PartialEq::ne") and "timeout" in show(e[2][0]):
            zero = [tg for (v, tg) in t[2] if v == 0]
            if not zero or zero[0] != t[3]: out.append(t[3])
        if e[0] == "call" and e[1].endswith("PartialEq::eq") and "timeout" in show(e[2][0]):
            zero = [tg for (v, tg) in t[2] if v == 0]
            if zero and zero[0] != t[3]: out.append(zero[0])
    return out


def ret_assignments(body):
    """blocks that define the return place _0 (statement or call destination)"""
    out = []
    for b in sorted(body.reachable):
        for st in body.stmts(b):
            if st[0] == "A" and not st[1]["p"] and st[1]["l"] == 0: out.append((b, st[2]))
        t = body.term(b)
        if t[0] == "Call" and not t[1]["dst"]["p"] and t[1]["dst"]["l"] == 0: out.append((b, ["CallRes", t[1]]))
    return out


def wait_loop_of(body, pred):
    """the largest natural loop containing a call satisfying pred"""
    cands = [h for h, blocks in body.loops.items() if any(b in blocks and pred(c) for (b, c) in body.calls)]
    return max(cands, key=lambda h: len(body.loops[h])) if cands else None


def classify_exits(body, dg, h, is_success_edge):
    """exits of loop h that can reach a return: list of (x, y, kind) with kind 'success' | 'timeout' | 'other'"""
    nz = timeout_nonzero_edges(body, dg)
    out = []
    for (x, y) in body.loop_exits(h):
        if y not in body.can_return: continue
        if is_success_edge(x, y): out.append((x, y, "success"))
        elif any(body.dominates(t, x) or t == y for t in nz): out.append((x, y, "timeout"))
        else: out.append((x, y, "other"))
    return out


def check_cancel_not_repeated(ctx, rule):
    """end_stream tells its target to end BEFORE it waits, never from inside the wait loop: the loop runs until the target's id is vacant again -- but a vacant id
    may be handed to a new stream at once (small MAX_STREAMS), and a cancel repeated by the loop would then end a stream nobody asked to end"""
    fx = ctx.fx
    k = SM + "::end_stream::{closure#0}"
    body = Body(fx.fn(k))
    cs = [(b, c) for (b, c) in body.calls if (c.get("resolved") or c.get("f")) == SM + "::cancel_stream"]
    for (b, c) in cs:
        inl = util.in_loop(body, b)
        ctx.ob(rule, f"{k}|cancel-not-repeated-by-the-wait-loop", not inl, body.loc(b),
               "the cancel is issued once, before the wait loop" if not inl else
               "cancel_stream is called from inside the loop that waits for the id to become vacant: once the target was dropped its id can be re-issued, and the next "
               "iteration cancels the NEW stream that got the id")
    if not cs:
        ctx.ob(rule, f"{k}|cancel-not-repeated-by-the-wait-loop", False, f"{body.f['file']}:{body.f['line']}", "end_stream never cancels its target")
