"""Fact-level normalisation of element access: built-in indexing of arrays / slices (`buf[i]`, a place projection guarded by a bounds-check Assert) is rewritten
into the call form the unchecked accessors have (`<[T]>::get_unchecked(_mut)(&buf, i)` returning a reference, then a deref of it).  The rules identify element
accesses by that call shape (which slot of which buffer, which listener's queue, which waker); after this pass `&mut buf[i]` and `buf.get_unchecked_mut(i)` are one
shape, so replacing `unsafe { x.get_unchecked(i) }` by `&x[i]` -- or the other way round -- changes no verdict.  The bounds-check Assert stays where it was.
Constant indices of array patterns (`[a, b] = pair`) are left alone."""
import copy


def _has_index(place):
    return isinstance(place, dict) and any(isinstance(e, list) and e and e[0] == "i" for e in place.get("p", []))


def _places_of_stmt(st):
    """list of (container, key) pairs locating place dicts inside an assignment statement"""
    out = []
    if st[0] != "A": return out
    out.append((st, 1))
    rv = st[2]
    k = rv[0]
    def ops(lst, idxs):
        for i in idxs:
            o = lst[i]
            if isinstance(o, list) and o and o[0] in ("c", "m"): out.append((o, 1))
    if k == "Use": ops(rv, [1])
    elif k == "Bin": ops(rv, [2, 3])
    elif k in ("Un", "Cast"): ops(rv, [2])
    elif k == "Repeat": ops(rv, [1])
    elif k == "Agg": ops(rv[2], range(len(rv[2])))
    elif k in ("Ref", "RawPtr"): out.append((rv, 2))
    elif k == "Discr": out.append((rv, 1))
    return out


def index_to_calls(d):
    n_total = 0
    for f in d["fns"]:
        blocks = f["blocks"]
        bi = 0
        while bi < len(blocks):
            blk = blocks[bi]
            hit = None
            for si, st in enumerate(blk["stmts"]):
                for (cont, key) in _places_of_stmt(st):
                    if _has_index(cont[key]):
                        hit = (si, st, cont, key); break
                if hit: break
            if hit is None:
                # operands of the terminator
                t = blk["term"]
                tp = []
                if t[0] == "Call":
                    for a in t[1]["args"]:
                        if isinstance(a, list) and a and a[0] in ("c", "m"): tp.append((a, 1))
                    tp.append((t[1], "dst"))
                elif t[0] in ("Switch", "Yield", "Assert") and isinstance(t[1], list) and t[1] and t[1][0] in ("c", "m"): tp.append((t[1], 1))
                elif t[0] == "Drop": tp.append((t, 1))
                for (cont, key) in tp:
                    if _has_index(cont[key]):
                        hit = (len(blk["stmts"]), None, cont, key); break
                if hit is None:
                    bi += 1; continue
            si, st, cont, key = hit
            place = cont[key]
            j = next(i for i, e in enumerate(place["p"]) if isinstance(e, list) and e and e[0] == "i")
            idx_local = place["p"][j][1]
            prefix = {"l": place["l"], "p": copy.deepcopy(place["p"][:j])}
            rest = copy.deepcopy(place["p"][j + 1:])
            if st is None:
                mut = key == "dst" or blk["term"][0] == "Drop"
                line = blk["term"][1].get("line") if blk["term"][0] == "Call" else None
            else:
                is_dst = (cont is st and key == 1)
                mut = is_dst or (cont is st[2] and st[2][0] in ("Ref", "RawPtr") and "Mut" in str(st[2][1]))
                line = st[3] if len(st) > 3 else None
            lb = len(f["locals"]); f["locals"].append({"ty": "&mut [_]" if mut else "&[_]", "head": "&", "name": None})
            lt = len(f["locals"]); f["locals"].append({"ty": "&mut _" if mut else "&_", "head": "&", "name": None})
            nb = len(blocks)
            name = "get_unchecked_mut" if mut else "get_unchecked"
            call = {"f": "[T]::" + name, "fpath": "[T]::" + name, "fname": name, "fcrate": "core", "gargs": [], "args": [["m", {"l": lb, "p": []}], ["c", {"l": idx_local, "p": []}]],
                    "dst": {"l": lt, "p": []}, "t": nb, "uw": None, "line": line, "exp": False, "synthetic_index": True}
            # the statement, now reading / writing through the returned reference
            cont[key] = {"l": lt, "p": ["*"] + rest}
            tail_stmts = blk["stmts"][si:]
            new_block = {"cleanup": blk["cleanup"], "stmts": tail_stmts, "term": blk["term"]}
            blk["stmts"] = blk["stmts"][:si] + [["A", {"l": lb, "p": []}, ["Ref", "Mut" if mut else "Shared", prefix], line]]
            blk["term"] = ["Call", call]
            blocks.append(new_block)
            n_total += 1
            # the rest of this block moved to new_block (appended): it will be visited when bi reaches it
            bi += 1
    return n_total


# ---------------------------------------------------------------------------------------------------------------------------------------------------------
# Equivalent spellings of one atomic read-modify-write.  The rules identify counter protocols by the primitive (`fetch_add(1)` on the reservation counter,
# `fetch_sub(1)` on a reference count, `store(false)` on a lock flag); these are rewritten to that canonical primitive when -- and only when -- the other
# spelling is the same single RMW with the same effect:
#   fetch_add(2^n - k) / fetch_sub(2^n - k)          ==  fetch_sub(k) / fetch_add(k)            (wrapping arithmetic of the atomics)
#   fetch_update(set, fetch, |v| Some(v.wrapping_add(K)))   ==  fetch_add(K, set)  answering Ok(previous)   (std's own CAS loop; the closure cannot decline)
#   swap(c, o) whose answer nobody reads              ==  store(c, o)
# Anything else (a closure that can answer None, a checked `v + K`, a swap whose answer is used) is left alone and judged by the rules as written.
_INT_BITS = {"u8": 8, "u16": 16, "u32": 32, "u64": 64, "usize": 64, "i8": 8, "i16": 16, "i32": 32, "i64": 64, "isize": 64}
_ATOMIC = "std::sync::atomic::Atomic::"


def _const_int(k):
    if "int" in k and isinstance(k["int"], int): return k["int"]
    s = k.get("uneval_path") or k.get("s") or ""
    if s.endswith("::MAX") and k.get("ty") in _INT_BITS and k["ty"].startswith("u"): return (1 << _INT_BITS[k["ty"]]) - 1
    return None


def _rename_call(c, old, new):
    for key in ("f", "fpath", "fname"):
        if isinstance(c.get(key), str): c[key] = c[key].replace(old, new)


def _local_is_read(f, l, skip_call=None, drops_count=True):
    def in_place(p): return isinstance(p, dict) and (p.get("l") == l or any(isinstance(e, list) and e and e[0] == "i" and e[1] == l for e in p.get("p", [])))
    def in_op(o): return isinstance(o, list) and o and o[0] in ("c", "m") and in_place(o[1])
    for blk in f["blocks"]:
        for st in blk["stmts"]:
            if st[0] != "A": continue
            rv = st[2]
            if in_place(st[1]) and st[1].get("p"): return True
            for x in rv[1:]:
                if in_op(x) or in_place(x): return True
                if isinstance(x, list):
                    for y in x:
                        if in_op(y): return True
        t = blk["term"]
        if t[0] == "Call":
            if t[1] is skip_call: continue
            if any(in_op(a) for a in t[1]["args"]): return True
        elif t[0] in ("Switch", "Yield", "Assert") and in_op(t[1]): return True
        elif t[0] == "Drop" and in_place(t[1]) and drops_count: return True
    return l == 0


def _closure_pure_add(cf):
    """closure body is `|v| Some(v.wrapping_add(K))` (or overflowing_add(..).0 / wrapping_sub): returns (op, K) with K = ("k", const) | ("cap", index) or None"""
    env = {2: ("param",)}
    def ev_place(p):
        if not p["p"]:
            return env.get(p["l"])
        if p["l"] == 1:
            fl = [e for e in p["p"] if isinstance(e, list) and e and e[0] == "f"]
            if len(fl) == 1: return ("cap", fl[0][2])
        base = env.get(p["l"])
        if base and base[0] == "pair" and p["p"] == [["f", "0", 0, None]] or (base and base[0] == "pair" and len(p["p"]) == 1 and isinstance(p["p"][0], list) and p["p"][0][0] == "f" and p["p"][0][2] == 0):
            return base[1]
        return None
    def ev_op(o):
        if o[0] == "k": return ("k", o[1])
        return ev_place(o[1])
    b = 0; seen = set(); res = None
    while b not in seen:
        seen.add(b)
        blk = cf["blocks"][b]
        for st in blk["stmts"]:
            if st[0] != "A": continue
            if st[1]["p"]: return None
            rv = st[2]
            if rv[0] == "Use": env[st[1]["l"]] = ev_op(rv[1])
            elif rv[0] == "Agg" and rv[1][0] == "Adt" and rv[1][1] == "std::option::Option" and rv[1][2] == "Some" and st[1]["l"] == 0:
                res = ev_op(rv[2][0])
            elif rv[0] == "Cast": env[st[1]["l"]] = None
            else: env[st[1]["l"]] = None
        t = blk["term"]
        if t[0] == "Return": break
        if t[0] == "Goto": b = t[1]; continue
        if t[0] == "Call":
            c = t[1]; nm = c.get("fname")
            if nm in ("wrapping_add", "wrapping_sub", "overflowing_add", "overflowing_sub") and len(c["args"]) == 2 and not c["dst"]["p"]:
                a, k = ev_op(c["args"][0]), ev_op(c["args"][1])
                e = None
                if a == ("param",) and k and k[0] in ("k", "cap"): e = ("add" if "add" in nm else "sub", k)
                elif k == ("param",) and a and a[0] in ("k", "cap") and "add" in nm: e = ("add", a)
                env[c["dst"]["l"]] = ("pair", e) if nm.startswith("overflowing") else e
                if c["t"] is None: return None
                b = c["t"]; continue
            return None
        return None
    if res and res[0] in ("add", "sub"): return res
    return None


def atomic_equivalents(d):
    by_key = {}
    for f in d["fns"]: by_key.setdefault(f["key"], f)
    notes = []
    for f in d["fns"]:
        blocks = f["blocks"]
        for bi in range(len(blocks)):
            blk = blocks[bi]
            t = blk["term"]
            if t[0] != "Call": continue
            c = t[1]
            if not (c.get("f") or "").startswith(_ATOMIC): continue
            meth = c.get("fname")
            if meth in ("fetch_add", "fetch_sub") and len(c["args"]) == 3 and c["args"][1][0] == "k":
                k = c["args"][1][1]; v = _const_int(k); bits = _INT_BITS.get(k.get("ty"))
                if v is not None and bits and v >= (1 << (bits - 1)):
                    nv = (1 << bits) - v
                    other = "fetch_sub" if meth == "fetch_add" else "fetch_add"
                    _rename_call(c, meth, other)
                    c["args"][1] = ["k", {"ty": k["ty"], "s": f"{nv}_{k['ty']}", "int": nv}]
                    notes.append(f"{f['key']}: {meth}({k.get('uneval') or k.get('s')}) read as {other}({nv})")
            elif meth == "swap" and len(c["args"]) == 3 and c["args"][1][0] == "k" and not c["dst"]["p"] and not _local_is_read(f, c["dst"]["l"], c):
                _rename_call(c, "swap", "store")
                notes.append(f"{f['key']}: swap(..) with an unused answer read as store(..)")
            elif meth == "fetch_update" and len(c["args"]) == 4 and c["args"][3][0] in ("m", "c") and not c["args"][3][1]["p"] and not c["dst"]["p"]:
                cl = c["args"][3][1]["l"]
                agg = None
                for b2 in blocks:
                    for st in b2["stmts"]:
                        if st[0] == "A" and st[1] == {"l": cl, "p": []} and st[2][0] == "Agg" and st[2][1][0] == "Closure": agg = st[2]
                if not agg: continue
                cf = by_key.get(agg[1][1])
                if not cf: continue
                r = _closure_pure_add(cf)
                if not r: continue
                op, k = r
                if k[0] == "k": kop = ["k", k[1]]; ity = k[1].get("ty")
                else:
                    caps = cf.get("captures") or []
                    if k[1] >= len(agg[2]): continue
                    o = agg[2][k[1]]
                    by_ref = caps[k[1]][1] if k[1] < len(caps) else False
                    if by_ref:
                        # the owner passed `&place`: read the place itself
                        if o[0] not in ("m", "c") or o[1]["p"]: continue
                        rdef = None
                        for b2 in blocks:
                            for st in b2["stmts"]:
                                if st[0] == "A" and st[1] == {"l": o[1]["l"], "p": []} and st[2][0] == "Ref": rdef = st[2]
                        if not rdef: continue
                        kop = ["c", copy.deepcopy(rdef[2])]
                    else:
                        kop = ["c", copy.deepcopy(o[1])] if o[0] in ("m", "c") else o
                    ity = None
                new = "fetch_add" if op == "add" else "fetch_sub"
                old_dst = c["dst"]["l"]
                rty = f["locals"][old_dst]["ty"]       # Result<T, T>
                ity = ity or (rty[rty.index("<") + 1:].split(",")[0].strip() if "<" in rty else "u32")
                tmp = len(f["locals"]); f["locals"].append({"ty": ity, "head": ity, "name": None})
                old_t = c["t"]
                nb = len(blocks)
                blocks.append({"cleanup": blk["cleanup"], "stmts": [["A", {"l": old_dst, "p": []}, ["Agg", ["Adt", "std::result::Result", "Ok", 0, ["0"]], [["c", {"l": tmp, "p": []}]]], c.get("line")]],
                               "term": ["Goto", old_t]})
                _rename_call(c, "fetch_update", new)
                if isinstance(c.get("fpath"), str) and "::<{closure" in c["fpath"]: c["fpath"] = c["fpath"].split("::<{closure")[0]
                c["gargs"] = []
                c["args"] = [c["args"][0], kop, c["args"][1]]
                c["dst"] = {"l": tmp, "p": []}
                c["t"] = nb
                c["from_fetch_update"] = True
                # `.unwrap()` / `.expect(..)` of the answer is the previous value itself
                for b2 in blocks:
                    t2 = b2["term"]
                    if t2[0] == "Call" and (t2[1].get("f") or "") in ("std::result::Result::unwrap", "std::result::Result::expect", "std::result::Result::unwrap_unchecked",
                                                                       "std::result::Result::unwrap_or", "std::result::Result::unwrap_or_default", "std::result::Result::unwrap_or_else") \
                            and t2[1]["args"] and t2[1]["args"][0][0] in ("m", "c") and t2[1]["args"][0][1] == {"l": old_dst, "p": []} and t2[1]["t"] is not None:
                        b2["stmts"].append(["A", t2[1]["dst"], ["Use", ["c", {"l": tmp, "p": []}]], t2[1].get("line")])
                        b2["term"] = ["Goto", t2[1]["t"]]
                notes.append(f"{f['key']}: fetch_update(|v| Some(v {'+' if op == 'add' else '-'} K)) read as {new}(K)")
    return notes
