"""Fact-level normalisation of element access: built-in indexing of arrays / slices (`buf[i]`, a place projection guarded by a bounds-check Assert) is rewritten
into the call form the unchecked accessors have (`<[T]>::get_unchecked(_mut)(&buf, i)` returning a reference, then a deref of it).  The rules identify element
accesses by that call shape (which slot of which buffer, which listener's queue, which waker); after this pass `&mut buf[i]` and `buf.get_unchecked_mut(i)` are one
shape, so replacing `unsafe { x.get_unchecked(i) }` by `&x[i]` -- or the other way round -- changes no verdict.  The bounds-check Assert stays where it was.
Constant indices of array patterns (`[a, b] = pair`) are left alone."""
import copy


def _has_index(place):
    return isinstance(place, dict) and any(isinstance(e, list) and e and e[0] == "i" for e in place.get("p", []))


def _places_of_stmt(st):
    """list of (container, key) pairs locating place dicts inside an assignment statement"""
    out = []
    if st[0] != "A": return out
    out.append((st, 1))
    rv = st[2]
    k = rv[0]
    def ops(lst, idxs):
        for i in idxs:
            o = lst[i]
            if isinstance(o, list) and o and o[0] in ("c", "m"): out.append((o, 1))
    if k == "Use": ops(rv, [1])
    elif k == "Bin": ops(rv, [2, 3])
    elif k in ("Un", "Cast"): ops(rv, [2])
    elif k == "Repeat": ops(rv, [1])
    elif k == "Agg": ops(rv[2], range(len(rv[2])))
    elif k in ("Ref", "RawPtr"): out.append((rv, 2))
    elif k == "Discr": out.append((rv, 1))
    return out


def index_to_calls(d):
    n_total = 0
    for f in d["fns"]:
        blocks = f["blocks"]
        bi = 0
        while bi < len(blocks):
            blk = blocks[bi]
            hit = None
            for si, st in enumerate(blk["stmts"]):
                for (cont, key) in _places_of_stmt(st):
                    if _has_index(cont[key]):
                        hit = (si, st, cont, key); break
                if hit: break
            if hit is None:
                # operands of the terminator
                t = blk["term"]
                tp = []
                if t[0] == "Call":
                    for a in t[1]["args"]:
                        if isinstance(a, list) and a and a[0] in ("c", "m"): tp.append((a, 1))
                    tp.append((t[1], "dst"))
                elif t[0] in ("Switch", "Yield", "Assert") and isinstance(t[1], list) and t[1] and t[1][0] in ("c", "m"): tp.append((t[1], 1))
                elif t[0] == "Drop": tp.append((t, 1))
                for (cont, key) in tp:
                    if _has_index(cont[key]):
                        hit = (len(blk["stmts"]), None, cont, key); break
                if hit is None:
                    bi += 1; continue
            si, st, cont, key = hit
            place = cont[key]
            j = next(i for i, e in enumerate(place["p"]) if isinstance(e, list) and e and e[0] == "i")
            idx_local = place["p"][j][1]
            prefix = {"l": place["l"], "p": copy.deepcopy(place["p"][:j])}
            rest = copy.deepcopy(place["p"][j + 1:])
            if st is None:
                mut = key == "dst" or blk["term"][0] == "Drop"
                line = blk["term"][1].get("line") if blk["term"][0] == "Call" else None
            else:
                is_dst = (cont is st and key == 1)
                mut = is_dst or (cont is st[2] and st[2][0] in ("Ref", "RawPtr") and "Mut" in str(st[2][1]))
                line = st[3] if len(st) > 3 else None
            lb = len(f["locals"]); f["locals"].append({"ty": "&mut [_]" if mut else "&[_]", "head": "&", "name": None})
            lt = len(f["locals"]); f["locals"].append({"ty": "&mut _" if mut else "&_", "head": "&", "name": None})
            nb = len(blocks)
            name = "get_unchecked_mut" if mut else "get_unchecked"
            call = {"f": "[T]::" + name, "fpath": "[T]::" + name, "fname": name, "fcrate": "core", "gargs": [], "args": [["m", {"l": lb, "p": []}], ["c", {"l": idx_local, "p": []}]],
                    "dst": {"l": lt, "p": []}, "t": nb, "uw": None, "line": line, "exp": False, "synthetic_index": True}
            # the statement, now reading / writing through the returned reference
            cont[key] = {"l": lt, "p": ["*"] + rest}
            tail_stmts = blk["stmts"][si:]
            new_block = {"cleanup": blk["cleanup"], "stmts": tail_stmts, "term": blk["term"]}
            blk["stmts"] = blk["stmts"][:si] + [["A", {"l": lb, "p": []}, ["Ref", "Mut" if mut else "Shared", prefix], line]]
            blk["term"] = ["Call", call]
            blocks.append(new_block)
            n_total += 1
            # the rest of this block moved to new_block (appended): it will be visited when bi reaches it
            bi += 1
    return n_total
