"""Helper inlining at the fact level.  The rules were written against a known set of functions (anchors.json).  A function that is NOT in that set is, from
the rules' point of view, a piece of some known function that was moved out (`extract method`) -- or new code called from one.  Either way its statements
belong to the paths of its callers, so before the rules run every call of such a function from inside the crate is replaced by a copy of its body
(classic MIR inlining on the JSON form: locals and blocks renumbered, arguments assigned to the parameter locals, `Return` turned into an assignment of the
destination and a jump to the call's target).  On the tree the rules were confirmed on this is the identity.

Limits (left alone, the rules then see a call as before): recursive helpers, helpers called through a trait (no single resolved body), coroutines / closures,
bodies over MAX_BLOCKS blocks, more than ROUNDS levels of nesting."""
import copy

MAX_BLOCKS = 120
ROUNDS = 4


def _remap(x, lo, bo):
    """deep copy of a statement / terminator / operand with locals shifted by lo (block ids are handled by the caller)"""
    if isinstance(x, dict):
        y = {}
        for k, v in x.items():
            y[k] = _remap(v, lo, bo)
        if "l" in y and "p" in y and isinstance(y["l"], int):
            y["l"] = x["l"] + lo
        return y
    if isinstance(x, list):
        if len(x) == 2 and x[0] == "i" and isinstance(x[1], int):
            return ["i", x[1] + lo]
        if len(x) == 2 and x[0] in ("Live", "Dead") and isinstance(x[1], int):
            return [x[0], x[1] + lo]
        return [_remap(v, lo, bo) for v in x]
    return x


def _remap_term(t, lo, bo):
    k = t[0]
    t = _remap(t, lo, bo)
    def B(v): return v + bo if isinstance(v, int) else v
    if k == "Goto": t[1] = B(t[1])
    elif k == "Switch":
        t[2] = [[a[0], B(a[1])] for a in t[2]]; t[3] = B(t[3])
    elif k == "Call":
        t[1]["t"] = B(t[1]["t"]); t[1]["uw"] = B(t[1]["uw"])
    elif k == "Drop":
        t[2] = B(t[2]); t[3] = B(t[3])
    elif k == "Assert": t[4] = B(t[4])
    elif k == "Yield":
        t[2] = B(t[2]); t[4] = B(t[4])
    elif k == "FalseEdge":
        t[1] = B(t[1]); t[2] = B(t[2])
    elif k == "FalseUnwind":
        t[1] = B(t[1]); t[2] = B(t[2])
    return t


def _calls(f, key):
    return [i for i, blk in enumerate(f["blocks"]) if blk["term"][0] == "Call" and (blk["term"][1].get("resolved") or blk["term"][1].get("f")) == key]


def _is_search_predicate(f):
    if f["locals"][0]["ty"] != "bool": return False
    import mir
    try:
        return bool(mir.Body(f).loops)
    except Exception:
        return False


def _inline_one(caller, bi, callee):
    blk = caller["blocks"][bi]
    c = blk["term"][1]
    lo = len(caller["locals"]); bo = len(caller["blocks"])
    line = c.get("line")
    for l in callee["locals"]:
        caller["locals"].append(copy.deepcopy(l))
    # arguments -> parameter locals
    for i, a in enumerate(c["args"]):
        blk["stmts"].append(["A", {"l": lo + 1 + i, "p": []}, ["Use", a], line])
    target = c.get("t")
    dst = c["dst"]
    for cb in callee["blocks"]:
        nb = {"cleanup": cb["cleanup"], "stmts": [_remap(s, lo, bo) for s in cb["stmts"]]}
        t = cb["term"]
        if t[0] == "Return":
            nb["stmts"].append(["A", copy.deepcopy(dst), ["Use", ["m", {"l": lo, "p": []}]], line])
            nb["term"] = ["Goto", target] if target is not None else ["Unreachable"]
        else:
            nb["term"] = _remap_term(copy.deepcopy(t), lo, bo)
        caller["blocks"].append(nb)
    blk["term"] = ["Goto", bo]


def inline_new_helpers(d, ref):
    """d: raw fact dict (after anchor recovery); ref: anchors.json.  Returns notes."""
    if ref is None:
        return []
    notes = []
    known = set(ref["fns"])
    for _round in range(ROUNDS):
        by_key = {}
        for f in d["fns"]:
            by_key.setdefault(f["key"], []).append(f)
        helpers = []
        for f in d["fns"]:
            k = f["key"]
            if k in known or "::{closure#" in k or f.get("kind") not in ("Fn", "AssocFn") or f.get("is_coroutine"): continue
            if f.get("impl_trait"): continue                       # a new trait impl method is reached by dispatch, not by a resolved call
            if len(by_key[k]) != 1 or len(f["blocks"]) > MAX_BLOCKS: continue
            if _calls(f, k): continue                              # directly recursive
            if _is_search_predicate(f): continue                   # a loop that answers a bool: kept as an opaque predicate (rules look at what its body reads)
            # wrappers returning a coroutine / closure literal keep their identity (async fn)
            if any(st[0] == "A" and st[2][0] == "Agg" and st[2][1][0] in ("Coroutine", "CoroutineClosure") for blk in f["blocks"] for st in blk["stmts"]): continue
            helpers.append(f)
        # leaves first: a helper that still calls another new helper waits for the next round
        hk = {h["key"] for h in helpers}
        leaves = [h for h in helpers if not any(blk["term"][0] == "Call" and (blk["term"][1].get("resolved") or blk["term"][1].get("f")) in hk - {h["key"]} for blk in h["blocks"])]
        done_any = False
        for h in leaves:
            k = h["key"]
            n = 0
            for f in d["fns"]:
                if f is h: continue
                sites = _calls(f, k)
                for bi in sites:
                    _inline_one(f, bi, h); n += 1
            if n:
                done_any = True
                notes.append(f"inlined new helper {k} into {n} call site(s) (not part of the function set the rules were confirmed on)")
                # closures defined inside the helper now belong to its callers' families: keep them, owned by the helper's first caller family is not
                # knowable per copy -- leave owner_fn as is
                d["fns"] = [f for f in d["fns"] if f is not h]
        if not done_any:
            break
    return notes
