"""Helper inlining at the fact level.  The rules were written against a known set of functions (anchors.json).  A function that is NOT in that set is, from
the rules' point of view, a piece of some known function that was moved out (`extract method`) -- or new code called from one.  Either way its statements
belong to the paths of its callers, so before the rules run every call of such a function from inside the crate is replaced by a copy of its body
(classic MIR inlining on the JSON form: locals and blocks renumbered, arguments assigned to the parameter locals, `Return` turned into an assignment of the
destination and a jump to the call's target).  On the tree the rules were confirmed on this is the identity.

Limits (left alone, the rules then see a call as before): recursive helpers, helpers called through a trait (no single resolved body), coroutines / closures,
bodies over MAX_BLOCKS blocks, more than ROUNDS levels of nesting."""
import copy

MAX_BLOCKS = 120
ROUNDS = 4


def _remap(x, lo, bo):
    """deep copy of a statement / terminator / operand with locals shifted by lo (block ids are handled by the caller)"""
    if isinstance(x, dict):
        y = {}
        for k, v in x.items():
            y[k] = _remap(v, lo, bo)
        if "l" in y and "p" in y and isinstance(y["l"], int):
            y["l"] = x["l"] + lo
        return y
    if isinstance(x, list):
        if len(x) == 2 and x[0] == "i" and isinstance(x[1], int):
            return ["i", x[1] + lo]
        if len(x) == 2 and x[0] in ("Live", "Dead") and isinstance(x[1], int):
            return [x[0], x[1] + lo]
        return [_remap(v, lo, bo) for v in x]
    return x


def _remap_term(t, lo, bo):
    k = t[0]
    t = _remap(t, lo, bo)
    def B(v): return v + bo if isinstance(v, int) else v
    if k == "Goto": t[1] = B(t[1])
    elif k == "Switch":
        t[2] = [[a[0], B(a[1])] for a in t[2]]; t[3] = B(t[3])
    elif k == "Call":
        t[1]["t"] = B(t[1]["t"]); t[1]["uw"] = B(t[1]["uw"])
    elif k == "Drop":
        t[2] = B(t[2]); t[3] = B(t[3])
    elif k == "Assert": t[4] = B(t[4])
    elif k == "Yield":
        t[2] = B(t[2]); t[4] = B(t[4])
    elif k == "FalseEdge":
        t[1] = B(t[1]); t[2] = B(t[2])
    elif k == "FalseUnwind":
        t[1] = B(t[1]); t[2] = B(t[2])
    return t


def _calls(f, key):
    return [i for i, blk in enumerate(f["blocks"]) if blk["term"][0] == "Call" and (blk["term"][1].get("resolved") or blk["term"][1].get("f")) == key]


def _is_search_predicate(f):
    if f["locals"][0]["ty"] != "bool": return False
    import mir
    try:
        return bool(mir.Body(f).loops)
    except Exception:
        return False


def _inline_one(caller, bi, callee):
    blk = caller["blocks"][bi]
    c = blk["term"][1]
    lo = len(caller["locals"]); bo = len(caller["blocks"])
    line = c.get("line")
    for l in callee["locals"]:
        caller["locals"].append(copy.deepcopy(l))
    # arguments -> parameter locals
    for i, a in enumerate(c["args"]):
        blk["stmts"].append(["A", {"l": lo + 1 + i, "p": []}, ["Use", a], line])
    target = c.get("t")
    dst = c["dst"]
    for cb in callee["blocks"]:
        nb = {"cleanup": cb["cleanup"], "stmts": [_remap(s, lo, bo) for s in cb["stmts"]]}
        t = cb["term"]
        if t[0] == "Return":
            nb["stmts"].append(["A", copy.deepcopy(dst), ["Use", ["m", {"l": lo, "p": []}]], line])
            nb["term"] = ["Goto", target] if target is not None else ["Unreachable"]
        else:
            nb["term"] = _remap_term(copy.deepcopy(t), lo, bo)
        caller["blocks"].append(nb)
    blk["term"] = ["Goto", bo]


# ------------------------------------------------------------------------------------------------ closures handed to Option / Result combinators
COMBINATORS = {"std::option::Option::map": ("Option", "map"), "std::option::Option::and_then": ("Option", "and_then"),
               "std::result::Result::map": ("Result", "map"), "std::result::Result::and_then": ("Result", "and_then")}


def _subst_captures(x, env_local, caps):
    """places rooted at the closure environment (`(_1.i)` / `((*_1).i)`) -> the captured operand's own place"""
    if isinstance(x, dict):
        if "l" in x and "p" in x and isinstance(x["l"], int) and x["l"] == env_local:
            p = list(x["p"])
            j = 1 if p and p[0] == "*" else 0
            if j < len(p) and isinstance(p[j], list) and p[j][0] == "f" and p[j][3] == "{closure}":
                cap = caps[p[j][2]]
                if cap[0] in ("c", "m"):
                    return {"l": cap[1]["l"], "p": list(cap[1]["p"]) + [_subst_captures(e, env_local, caps) for e in p[j + 1:]]}
        return {k: _subst_captures(v, env_local, caps) for k, v in x.items()}
    if isinstance(x, list):
        return [_subst_captures(v, env_local, caps) for v in x]
    return x


def _closure_literal(caller, operand):
    """(closure key, capture operands) when the operand is a closure literal built in this body (through plain moves)"""
    import mir
    l = mir.op_local(operand)
    for _ in range(6):
        if l is None: return None
        defs = [(bi, i, st) for bi, blk in enumerate(caller["blocks"]) for i, st in enumerate(blk["stmts"]) if st[0] == "A" and not st[1]["p"] and st[1]["l"] == l]
        if len(defs) != 1: return None
        rv = defs[0][2][2]
        if rv[0] == "Agg" and rv[1][0] == "Closure": return rv[1][1], rv[2]
        if rv[0] == "Use" and rv[1][0] in ("c", "m") and not rv[1][1]["p"]: l = rv[1][1]["l"]; continue
        if rv[0] == "Ref" and (not rv[2]["p"] or rv[2]["p"] == ["*"]): l = rv[2]["l"]; continue
        return None
    return None


FN_CALLS = ("std::ops::FnOnce::call_once", "std::ops::FnMut::call_mut", "std::ops::Fn::call")

def _inline_closure_call(caller, bi, closure_fn, caps):
    """`dst = Fn*::call*(closure, (a, b))` on a closure literal of this body -> the closure body in place"""
    blk = caller["blocks"][bi]
    c = blk["term"][1]
    target, dst, line = c.get("t"), c["dst"], c.get("line")
    if target is None or len(c["args"]) != 2 or c["args"][1][0] not in ("c", "m") or c["args"][1][1]["p"]: return False
    if any(cap[0] not in ("c", "m") for cap in caps): return False
    tl = c["args"][1][1]["l"]
    lo = len(caller["locals"]); bo = len(caller["blocks"])
    for l in closure_fn["locals"]:
        caller["locals"].append(copy.deepcopy(l))
    for i in range(closure_fn.get("argc", 1) - 1):
        blk["stmts"].append(["A", {"l": lo + 2 + i, "p": []}, ["Use", ["m", {"l": tl, "p": [["f", str(i), i, "(tuple)"]]}]], line])
    for cb in closure_fn["blocks"]:
        nb = {"cleanup": cb["cleanup"], "stmts": [_subst_captures(_remap(s_, lo, bo), lo + 1, caps) for s_ in cb["stmts"]]}
        t = cb["term"]
        if t[0] == "Return":
            nb["stmts"].append(["A", copy.deepcopy(dst), ["Use", ["m", {"l": lo, "p": []}]], line])
            nb["term"] = ["Goto", target]
        else:
            nb["term"] = _subst_captures(_remap_term(copy.deepcopy(t), lo, bo), lo + 1, caps)
        caller["blocks"].append(nb)
    blk["term"] = ["Goto", bo]
    return True


def _inline_combinator(caller, bi, kind, closure_fn, caps):
    """`dst = opt.map(closure)`  ->  switch discriminant(opt) { none/err: dst = None / Err(e) ; some/ok: dst = Some(<closure body>(payload)) }"""
    blk = caller["blocks"][bi]
    c = blk["term"][1]
    fam, how = kind
    target, dst, line = c.get("t"), c["dst"], c.get("line")
    subject = c["args"][0]
    if subject[0] not in ("c", "m") or subject[1]["p"] or target is None: return False
    if any(cap[0] not in ("c", "m") for cap in caps): return False
    if closure_fn.get("argc") != 2: return False
    sl = subject[1]["l"]
    lo = len(caller["locals"]); bo = len(caller["blocks"])
    for l in closure_fn["locals"]:
        caller["locals"].append(copy.deepcopy(l))
    dl = len(caller["locals"]); caller["locals"].append({"ty": "isize", "head": "isize", "name": None})
    val_variant, val_idx = ("Some", 1) if fam == "Option" else ("Ok", 0)
    adt = "std::option::Option" if fam == "Option" else "std::result::Result"
    some_b, none_b, join_b = bo + len(closure_fn["blocks"]), bo + len(closure_fn["blocks"]) + 1, bo + len(closure_fn["blocks"]) + 2
    # closure body, environment places rewritten to the captured operands, its parameter fed from the payload
    for cb in closure_fn["blocks"]:
        nb = {"cleanup": cb["cleanup"], "stmts": [_subst_captures(_remap(s_, lo, bo), lo + 1, caps) for s_ in cb["stmts"]]}
        t = cb["term"]
        if t[0] == "Return":
            nb["term"] = ["Goto", join_b]
        else:
            nb["term"] = _subst_captures(_remap_term(copy.deepcopy(t), lo, bo), lo + 1, caps)
        caller["blocks"].append(nb)
    payload = {"l": sl, "p": [["d", val_variant, val_idx], ["f", "0", 0, adt]]}
    caller["blocks"].append({"cleanup": False, "stmts": [["A", {"l": lo + 2, "p": []}, ["Use", ["m", payload]], line]], "term": ["Goto", bo]})          # some_b
    if fam == "Option":
        none_stmts = [["A", copy.deepcopy(dst), ["Agg", ["Adt", adt, "None", 0], []], line]]
    else:
        errp = {"l": sl, "p": [["d", "Err", 1], ["f", "0", 0, adt]]}
        none_stmts = [["A", copy.deepcopy(dst), ["Agg", ["Adt", adt, "Err", 1], [["m", errp]]], line]]
    caller["blocks"].append({"cleanup": False, "stmts": none_stmts, "term": ["Goto", target]})                                                              # none_b
    if how == "map":
        join_stmts = [["A", copy.deepcopy(dst), ["Agg", ["Adt", adt, val_variant, val_idx], [["m", {"l": lo, "p": []}]]], line]]
    else:
        join_stmts = [["A", copy.deepcopy(dst), ["Use", ["m", {"l": lo, "p": []}]], line]]
    caller["blocks"].append({"cleanup": False, "stmts": join_stmts, "term": ["Goto", target]})                                                              # join_b
    blk["stmts"].append(["A", {"l": dl, "p": []}, ["Discr", {"l": sl, "p": []}], line])
    arms = [[1 - val_idx, none_b]]
    blk["term"] = ["Switch", ["m", {"l": dl, "p": []}], arms, some_b, line, "isize"]
    return True


def _inline_two_arms(caller, bi, fam, value_cl, other_cl):
    """`dst = res.map_or_else(other, value)`  ->  switch discriminant(res) { Ok/Some(x): dst = value(x) ; Err(e)/None: dst = other(e) / other() }.
    value_cl / other_cl: (closure fn, capture operands)"""
    blk = caller["blocks"][bi]
    c = blk["term"][1]
    target, dst, line = c.get("t"), c["dst"], c.get("line")
    subject = c["args"][0]
    if subject[0] not in ("c", "m") or subject[1]["p"] or target is None: return False
    for (cf, caps) in (value_cl, other_cl):
        if any(cap[0] not in ("c", "m") for cap in caps): return False
    sl = subject[1]["l"]
    adt = "std::option::Option" if fam == "Option" else "std::result::Result"
    val_variant, val_idx = ("Some", 1) if fam == "Option" else ("Ok", 0)
    dl = len(caller["locals"]); caller["locals"].append({"ty": "isize", "head": "isize", "name": None})
    entries = []
    for which, (cf, caps) in (("value", value_cl), ("other", other_cl)):
        lo = len(caller["locals"]); bo = len(caller["blocks"])
        for l in cf["locals"]:
            caller["locals"].append(copy.deepcopy(l))
        n_cl = len(cf["blocks"])
        entry_b, join_b = bo + n_cl, bo + n_cl + 1
        for cb in cf["blocks"]:
            nb = {"cleanup": cb["cleanup"], "stmts": [_subst_captures(_remap(s_, lo, bo), lo + 1, caps) for s_ in cb["stmts"]]}
            t = cb["term"]
            nb["term"] = ["Goto", join_b] if t[0] == "Return" else _subst_captures(_remap_term(copy.deepcopy(t), lo, bo), lo + 1, caps)
            caller["blocks"].append(nb)
        pre = []
        if cf.get("argc", 1) >= 2:
            if which == "value": payload = {"l": sl, "p": [["d", val_variant, val_idx], ["f", "0", 0, adt]]}
            else: payload = {"l": sl, "p": [["d", "Err", 1], ["f", "0", 0, adt]]}
            pre.append(["A", {"l": lo + 2, "p": []}, ["Use", ["m", payload]], line])
        caller["blocks"].append({"cleanup": False, "stmts": pre, "term": ["Goto", bo]})                                                                      # entry_b
        caller["blocks"].append({"cleanup": False, "stmts": [["A", copy.deepcopy(dst), ["Use", ["m", {"l": lo, "p": []}]], line]], "term": ["Goto", target]})  # join_b
        entries.append(entry_b)
    blk["stmts"].append(["A", {"l": dl, "p": []}, ["Discr", {"l": sl, "p": []}], line])
    blk["term"] = ["Switch", ["m", {"l": dl, "p": []}], [[1 - val_idx, entries[1]]], entries[0], line, "isize"]
    return True


TWO_ARMS = {"std::result::Result::map_or_else": "Result", "std::option::Option::map_or_else": "Option"}


def _inline_for_each(caller, bi, closure_fn, caps):
    """`dst = iter.for_each(closure)`  ->  `loop { match Iterator::next(&mut iter) { Some(x) => <closure body>(x), None => break } }`"""
    blk = caller["blocks"][bi]
    c = blk["term"][1]
    target, dst, line = c.get("t"), c["dst"], c.get("line")
    it = c["args"][0]
    if target is None or it[0] not in ("c", "m") or it[1]["p"]: return False
    if any(cap[0] not in ("c", "m") for cap in caps) or closure_fn.get("argc") != 2: return False
    il = it[1]["l"]
    lo = len(caller["locals"]); bo = len(caller["blocks"])
    for l in closure_fn["locals"]:
        caller["locals"].append(copy.deepcopy(l))
    n_cl = len(closure_fn["blocks"])
    l_ref = len(caller["locals"]); caller["locals"].append({"ty": "&mut " + caller["locals"][il]["ty"], "head": "&", "name": None})
    l_opt = len(caller["locals"]); caller["locals"].append({"ty": "std::option::Option<" + closure_fn["locals"][2]["ty"] + ">", "head": "std::option::Option", "name": None})
    l_dis = len(caller["locals"]); caller["locals"].append({"ty": "isize", "head": "isize", "name": None})
    head_b, test_b, some_b, exit_b = bo + n_cl, bo + n_cl + 1, bo + n_cl + 2, bo + n_cl + 3
    for cb in closure_fn["blocks"]:
        nb = {"cleanup": cb["cleanup"], "stmts": [_subst_captures(_remap(s_, lo, bo), lo + 1, caps) for s_ in cb["stmts"]]}
        t = cb["term"]
        nb["term"] = ["Goto", head_b] if t[0] == "Return" else _subst_captures(_remap_term(copy.deepcopy(t), lo, bo), lo + 1, caps)
        caller["blocks"].append(nb)
    nxt = {"f": "std::iter::Iterator::next", "fpath": "std::iter::Iterator::next", "fname": "next", "fcrate": "core", "trait": "std::iter::Iterator", "gargs": [],
           "args": [["m", {"l": l_ref, "p": []}]], "dst": {"l": l_opt, "p": []}, "t": test_b, "uw": None, "line": line, "exp": False, "synthetic_loop": True}
    caller["blocks"].append({"cleanup": False, "stmts": [["A", {"l": l_ref, "p": []}, ["Ref", "Mut", {"l": il, "p": []}], line]], "term": ["Call", nxt]})                     # head_b
    caller["blocks"].append({"cleanup": False, "stmts": [["A", {"l": l_dis, "p": []}, ["Discr", {"l": l_opt, "p": []}], line]],
                             "term": ["Switch", ["m", {"l": l_dis, "p": []}], [[0, exit_b]], some_b, line, "isize"]})                                                         # test_b
    payload = {"l": l_opt, "p": [["d", "Some", 1], ["f", "0", 0, "std::option::Option"]]}
    caller["blocks"].append({"cleanup": False, "stmts": [["A", {"l": lo + 2, "p": []}, ["Use", ["m", payload]], line]], "term": ["Goto", bo]})                              # some_b
    caller["blocks"].append({"cleanup": False, "stmts": [["A", copy.deepcopy(dst), ["Agg", ["Tuple"], []], line]], "term": ["Goto", target]})                               # exit_b
    blk["term"] = ["Goto", head_b]
    return True


def inline_new_closures(d, ref):
    """closures that did not exist on the confirmed tree and are handed straight to Option / Result `map` / `and_then` are expanded in place (the match the
    combinator stands for, with the closure body in its value arm): `opt.map(|x| ..)` written instead of `if let Some(x) = opt {..}` keeps one shape."""
    if ref is None or "closures" not in ref:
        return []
    notes = []
    known = set(ref["closures"])
    count_ref = {}
    for k in known:
        count_ref[k.rsplit("::{closure#", 1)[0]] = count_ref.get(k.rsplit("::{closure#", 1)[0], 0) + 1
    by_key = {}
    for f in d["fns"]: by_key.setdefault(f["key"], []).append(f)
    count_now = {}
    for f in d["fns"]:
        if "::{closure#" in f["key"] and f.get("kind") == "Closure":
            o = f["key"].rsplit("::{closure#", 1)[0]; count_now[o] = count_now.get(o, 0) + 1
    expanded = set()
    def fresh(ck):
        owner = ck.rsplit("::{closure#", 1)[0]
        return not (ck in known and count_now.get(owner, 0) == count_ref.get(owner, 0))
    for f in list(d["fns"]):
        for bi in range(len(f["blocks"])):
            t = f["blocks"][bi]["term"]
            if t[0] == "Call" and (t[1].get("f") or "") in TWO_ARMS and len(t[1]["args"]) == 3:
                lo_ = _closure_literal(f, t[1]["args"][1]); lv_ = _closure_literal(f, t[1]["args"][2])
                if lo_ and lv_ and (fresh(lo_[0]) or fresh(lv_[0])):
                    co_, cv_ = by_key.get(lo_[0]), by_key.get(lv_[0])
                    if co_ and cv_ and len(co_) == 1 and len(cv_) == 1 and not co_[0].get("is_coroutine") and not cv_[0].get("is_coroutine"):
                        if _inline_two_arms(f, bi, TWO_ARMS[t[1]["f"]], (cv_[0], lv_[1]), (co_[0], lo_[1])):
                            expanded.update((lo_[0], lv_[0]))
                            notes.append(f"expanded {t[1]['f'].split('::')[-1]}(..) in place (closures not part of the function set the rules were confirmed on)")
                continue
            if t[0] != "Call" or len(t[1]["args"]) != 2: continue
            direct = (t[1].get("f") or "") in FN_CALLS
            foreach = (t[1].get("f") or "") == "std::iter::Iterator::for_each" or (t[1].get("fname") == "for_each" and (t[1].get("trait") or "").endswith("Iterator"))
            if not direct and not foreach and (t[1].get("f") or "") not in COMBINATORS: continue
            lit = _closure_literal(f, t[1]["args"][0 if direct else 1])
            if lit is None: continue
            ck, caps = lit
            owner = ck.rsplit("::{closure#", 1)[0]
            if ck in known and count_now.get(owner, 0) == count_ref.get(owner, 0): continue          # a closure the rules already know
            cf = by_key.get(ck)
            if not cf or len(cf) != 1 or cf[0].get("is_coroutine") or len(cf[0]["blocks"]) > MAX_BLOCKS: continue
            if foreach:
                if _inline_for_each(f, bi, cf[0], caps):
                    expanded.add(ck)
                    notes.append(f"expanded for_each({ck.split('::', 1)[-1][-60:]}) into the loop it stands for (closure not part of the function set the rules were confirmed on)")
                continue
            if direct:
                if _inline_closure_call(f, bi, cf[0], caps):
                    expanded.add(ck)
                    notes.append(f"expanded the call of closure {ck.split('::', 1)[-1][-60:]} in place (closure not part of the function set the rules were confirmed on)")
                continue
            if _inline_combinator(f, bi, COMBINATORS[t[1]["f"]], cf[0], caps):
                expanded.add(ck)
                notes.append(f"expanded {t[1]['f'].split('::')[-1]}({ck.split('::', 1)[-1][-60:]}) in place (closure not part of the function set the rules were confirmed on)")
    if expanded:
        # the expanded closure bodies now live in their callers; the closure functions themselves are no longer called from anywhere
        d["fns"] = [f for f in d["fns"] if f["key"] not in expanded]
    return notes


def inline_new_helpers(d, ref):
    """d: raw fact dict (after anchor recovery); ref: anchors.json.  Returns notes."""
    if ref is None:
        return []
    notes = []
    known = set(ref["fns"])
    for _round in range(ROUNDS):
        by_key = {}
        for f in d["fns"]:
            by_key.setdefault(f["key"], []).append(f)
        helpers = []
        for f in d["fns"]:
            k = f["key"]
            if k in known or "::{closure#" in k or f.get("kind") not in ("Fn", "AssocFn") or f.get("is_coroutine"): continue
            if f.get("impl_trait"): continue                       # a new trait impl method is reached by dispatch, not by a resolved call
            if len(by_key[k]) != 1 or len(f["blocks"]) > MAX_BLOCKS: continue
            if _calls(f, k): continue                              # directly recursive
            if _is_search_predicate(f): continue                   # a loop that answers a bool: kept as an opaque predicate (rules look at what its body reads)
            # wrappers returning a coroutine / closure literal keep their identity (async fn)
            if any(st[0] == "A" and st[2][0] == "Agg" and st[2][1][0] in ("Coroutine", "CoroutineClosure") for blk in f["blocks"] for st in blk["stmts"]): continue
            helpers.append(f)
        # leaves first: a helper that still calls another new helper waits for the next round
        hk = {h["key"] for h in helpers}
        leaves = [h for h in helpers if not any(blk["term"][0] == "Call" and (blk["term"][1].get("resolved") or blk["term"][1].get("f")) in hk - {h["key"]} for blk in h["blocks"])]
        done_any = False
        for h in leaves:
            k = h["key"]
            n = 0
            for f in d["fns"]:
                if f is h: continue
                sites = _calls(f, k)
                for bi in sites:
                    _inline_one(f, bi, h); n += 1
            if n:
                done_any = True
                notes.append(f"inlined new helper {k} into {n} call site(s) (not part of the function set the rules were confirmed on)")
                # closures defined inside the helper now belong to its callers' families: keep them, owned by the helper's first caller family is not
                # knowable per copy -- leave owner_fn as is
                d["fns"] = [f for f in d["fns"] if f is not h]
        if not done_any:
            break
    return notes
