"""Expression DAG: resolves an operand backwards through its unique reaching definitions to a tree over symbols
(parameters, constants, generic consts, memory paths, atomic operations identified by call site)."""
import ts
from mir import op_place, op_local, op_const, place_str

ATOMIC = "std::sync::atomic::Atomic::"
DEPTH = 160        # copy chains grow when helper bodies are inlined into their callers (inline.py)
import sys
sys.setrecursionlimit(max(sys.getrecursionlimit(), 6000))
WRAP = {"overflowing_add": "Add", "overflowing_sub": "Sub", "overflowing_mul": "Mul"}
WRAPPING = {"wrapping_add": "Add", "wrapping_sub": "Sub", "wrapping_mul": "Mul"}
CHECKED = {"AddWithOverflow": "Add", "SubWithOverflow": "Sub", "MulWithOverflow": "Mul"}


CONST_BODIES = {}       # key -> body facts of generic constants (set by facts.Facts); `const INDEX_MASK: usize = BUFFER_SIZE - 1` reads as its defining expression
_CONST_EXPR = {}

def _pure_arith(e, depth=0):
    if not isinstance(e, tuple) or depth > 8: return False
    if e[0] in ("const", "gconst"): return True
    if e[0] == "cast": return _pure_arith(e[2], depth + 1)
    if e[0] == "bin": return _pure_arith(e[2], depth + 1) and _pure_arith(e[3], depth + 1)
    if e[0] == "un": return _pure_arith(e[2], depth + 1)
    return False

def const_expr(key):
    """a generic constant whose initialiser is plain arithmetic over generic parameters and literals (on its only non-diverging path) is replaced by that
    expression; anything else stays the opaque symbol ('gconst', key)"""
    if key in _CONST_EXPR: return _CONST_EXPR[key]
    _CONST_EXPR[key] = ("gconst", key)            # recursion guard
    f = CONST_BODIES.get(key)
    if f is not None:
        try:
            from mir import Body
            e = Dag(Body(f)).local(0)
            if _pure_arith(e) and e[0] != "gconst": _CONST_EXPR[key] = e
        except Exception:
            pass
    return _CONST_EXPR[key]


class Dag:
    def __init__(self, body):
        self.body = body
        self.memo = {}
        self._open = {}

    def expr(self, o, depth=0):
        """operand -> tree"""
        if o[0] == "k":
            k = o[1]
            if "int" in k and "param" not in k:
                return ("const", k["int"])
            if k.get("param"):
                return ("gconst", k["param"])
            if k.get("uneval"):
                return const_expr(k["uneval"])
            if k.get("fn"):
                return ("fn", k["fn"])
            return ("const", k["s"])
        if o[0] not in ("c", "m"):
            return ("other", str(o))
        return self.place(o[1], depth)

    def place(self, p, depth=0):
        if depth > DEPTH:
            return ("deep",)
        base = self.local(p["l"], depth + 1)
        proj = p["p"]
        if not proj:
            return base
        # memory path?
        path = ts.place_path(self.body, p)
        if "*" in proj and path is not None and not any(str(x).startswith("<arg") for x in path):
            return ("mem", ts.strip_env(path))
        # projections into a value
        e = base
        for el in proj:
            if el == "*":
                e = ("deref", e)
            elif el[0] == "f":
                e = self._field(e, el)
            elif el[0] == "d":
                e = ("variant", el[1], e)
            elif el[0] == "i":
                e = ("index", e, self.local(el[1], depth + 1))
            else:
                e = ("proj", str(el), e)
        return e

    def _field(self, e, el):
        idx = el[2]
        # .0 of a with-overflow / overflowing_* pair is the arithmetic result
        if e[0] == "pair":
            return e[1] if idx == 0 else ("ovf", e[1])
        if e[0] == "tuple" and idx < len(e[1]):
            return e[1][idx]
        if e[0] == "variant" and e[1] == "Continue" and e[2][0] == "call" and e[2][1].endswith("Try::branch") and len(e[2][2]) == 1:
            # `x?`: the Continue payload of Try::branch(x) is the payload of x's value-carrying variant (Some / Ok)
            x = e[2][2][0]
            for vname in ("Some", "Ok"):
                r = self._field(("variant", vname, x), el)
                if not (r[0] == "field" and r[2] == ("variant", vname, x)):
                    return r
            return ("field", el[1], ("variant", "Some", x))
        if e[0] == "adt" and idx < len(e[2]):
            # field of a just-built struct value (`let p = Pair { a, b }; p.a`): the operand it was built from
            return e[2][idx]
        if e[0] == "variant" and e[2][0] == "phi" and len(e[2]) > 3 and e[2][3] and all(a[0] == "adt" for a in e[2][3]):
            # payload of `Some` read from a value that is `Some(x)` on one path and `None` on the others (an Option answered by an extracted helper and
            # matched right away): only the path that built this variant can reach the read
            same = [a for a in e[2][3] if a[1] == e[1]]
            if len(same) == 1 and idx < len(same[0][2]):
                return same[0][2][idx]
        if e[0] == "variant" and e[2][0] == "adt" and e[2][1] == e[1]:
            # field of a just-built enum variant, e.g. (Some(x) as Some).0
            if idx < len(e[2][2]):
                return e[2][2][idx]
        return ("field", el[1], e)

    def local(self, l, depth=0):
        if l in self.memo:
            return self.memo[l]
        if depth > DEPTH:
            return ("deep",)
        body = self.body
        if 1 <= l <= body.f["argc"]:
            # parameters may still be reassigned, ignore
            self.memo[l] = ("param", l, body.lname(l))
            return self.memo[l]
        ds = [d for d in body.defs.get(l, []) if d[0] in body.reachable]
        pw = [w for w in body.partial_writes(l) if w[0] in body.reachable]
        if len(ds) == 0 and not pw:
            r = ("undef", l)
        elif len(ds) == 1 and not pw:
            # no cycle marker for a single-definition local: every data cycle of a valid body runs through a multiply-defined (loop-carried) local, which
            # is cut by its phi marker below; cutting here instead would leave ('cycle', l) inside the memoised alternatives of that phi whenever the
            # walk happened to enter the cycle at a named temporary (`let lap = x / N;` used twice).  The depth bound stays as the safety net.
            n_open = self._open.get(l, 0)
            if n_open >= 2:
                return ("cycle", l)
            self._open[l] = n_open + 1
            try:
                r = self.rvalue(ds[0], depth + 1)
            finally:
                self._open[l] = n_open
        else:
            self.memo[l] = ("phi", l, body.lname(l))
            alts = []
            for d in ds:
                a = self.rvalue(d, depth + 1)
                if a not in alts:
                    alts.append(a)
            if len(alts) == 1 and not pw and not _mentions(alts[0], ("phi", l)):
                r = alts[0]
            else:
                r = ("phi", l, body.lname(l), tuple(alts))
        self.memo[l] = r
        return r

    def rvalue(self, d, depth):
        b, i, rv = d
        k = rv[0]
        if k == "Use":
            return self.expr(rv[1], depth)
        if k == "Cast":
            return ("cast", rv[3], self.expr(rv[2], depth))
        if k == "Bin":
            op = rv[1]
            a, c = self.expr(rv[2], depth), self.expr(rv[3], depth)
            if op in CHECKED:
                return ("pair", ("bin", CHECKED[op] + "!", a, c))
            return ("bin", op, a, c)
        if k == "Un":
            return ("un", rv[1], self.expr(rv[2], depth))
        if k in ("Ref", "RawPtr"):
            pl = rv[2]
            if pl["p"] == ["*"]:
                inner = self.local(pl["l"], depth + 1)      # plain re-borrow `&*x`
                if inner[0] in ("call", "param", "phi", "variant", "field"):
                    return inner
            path = ts.place_path(self.body, rv[2])
            if path is not None:
                return ("ref", ts.strip_env(path))
            # no access path relative to self (e.g. an element of a slice a call returned): keep the place as an expression too, so that rules can see
            # what it is derived from (`&used_streams()[i]`)
            try:
                return ("ref?", place_str(rv[2]), self.place(rv[2], depth + 1))
            except RecursionError:
                return ("ref?", place_str(rv[2]))
        if k == "Discr":
            return ("discr", self.place(rv[1], depth))
        if k == "Agg":
            kind = rv[1]
            ops = tuple(self.expr(o, depth) for o in rv[2])
            if kind[0] == "Tuple":
                return ("tuple", ops)
            if kind[0] == "Adt":
                return ("adt", kind[2], ops, kind[1])
            if kind[0] in ("Closure", "Coroutine", "CoroutineClosure"):
                return ("closure", kind[1])
            return ("agg", kind[0], ops)
        if k == "CallRes":
            c = rv[1]
            f = c.get("resolved") or c.get("f") or "?"
            name = c.get("fname")
            args = [self.expr(a, depth) for a in c["args"]]
            if f.startswith(ATOMIC) and f != ATOMIC + "new":
                meth = f[len(ATOMIC):]
                path = ts.access_path(self.body, c["args"][0]) if c["args"] else None
                path = ts.strip_env(path) if path is not None else ("?",)
                return ("atomic", meth, tuple(path), b, tuple(args[1:]))
            if name in WRAP and len(args) == 2:
                return ("pair", ("bin", WRAP[name] + "~", args[0], args[1]))
            if name in WRAPPING and len(args) == 2:
                return ("bin", WRAPPING[name] + "~", args[0], args[1])
            if name in ("get", "deref", "deref_mut", "as_ref", "as_mut", "borrow", "clone") and len(args) == 1 and args[0][0] in ("ref", "mem"):
                return args[0]
            if name == "from" and len(args) == 1:
                return ("cast", "from", args[0])
            return ("call", f, tuple(args), b)
        if k == "YieldRes":
            return ("resume", b)
        return ("other", str(rv)[:60])


def _mentions(e, what):
    if e[:len(what)] == what:
        return True
    return any(isinstance(x, tuple) and _mentions(x, what) for x in e)


def norm(e):
    """structural identity with loop-carried values compared by their local (phi alternatives dropped)"""
    if not isinstance(e, tuple):
        return e
    if e and e[0] == "phi":
        return ("phi", e[1])
    return tuple(norm(x) for x in e)


def strip_casts(e):
    while isinstance(e, tuple) and e and e[0] == "cast":
        e = e[2]
    return e


def show(e, depth=0):
    if not isinstance(e, tuple) or depth > 12:
        return str(e)
    k = e[0]
    if k == "const": return str(e[1])
    if k == "gconst": return str(e[1]).split("::")[-1]
    if k == "param": return e[2]
    if k == "phi": return f"phi({e[2]})" if len(e) > 2 else f"phi(_{e[1]})"
    if k == "mem": return "self." + ".".join(e[1])
    if k == "ref": return "&self." + ".".join(e[1])
    if k == "cast": return f"({show(e[2], depth+1)} as {e[1]})"
    if k == "bin": return f"({show(e[2], depth+1)} {e[1]} {show(e[3], depth+1)})"
    if k == "un": return f"{e[1]}({show(e[2], depth+1)})"
    if k == "atomic": return f"{'.'.join(e[2])}.{e[1]}@bb{e[3]}({', '.join(show(x, depth+1) for x in e[4])})"
    if k == "call": return f"{e[1].split('::')[-1]}@bb{e[3]}({', '.join(show(x, depth+1) for x in e[2])})"
    if k == "field": return f"{show(e[2], depth+1)}.{e[1]}"
    if k == "variant": return f"({show(e[2], depth+1)} as {e[1]})"
    if k == "pair": return f"pair[{show(e[1], depth+1)}]"
    if k == "tuple": return "(" + ", ".join(show(x, depth+1) for x in e[1]) + ")"
    if k == "adt": return f"{e[1]}{{{', '.join(show(x, depth+1) for x in e[2])}}}"
    if k == "discr": return f"discr({show(e[1], depth+1)})"
    return str(e)[:80]


# ------------------------------------------------------------------------------------------------ comparisons
def cmp_of_switch(body, dag, b):
    """for a `switchInt` on a comparison result: (op, lhs, rhs, true_target, false_target) with op in Lt Le Gt Ge Eq Ne;
    None if the discriminant is not a comparison.  Handles Not(..)."""
    t = body.term(b)
    if t[0] != "Switch" or t[5] != "bool":
        return None
    e = dag.expr(t[1])
    neg = False
    while e[0] == "un" and e[1] == "Not":
        e = e[2]; neg = not neg
    if e[0] != "bin" or e[1] not in ("Lt", "Le", "Gt", "Ge", "Eq", "Ne"):
        return None
    # switch [0: F, otherwise: T]
    tt, ft = t[3], None
    for (v, tg) in t[2]:
        if v == 0: ft = tg
    if ft is None:
        return None
    if neg:
        tt, ft = ft, tt
    return (e[1], e[2], e[3], tt, ft)


def canon_cmp(op, a, b):
    """canonical strict/non-strict forms: returns (op', a', b') with op' in ('lt','le','eq','ne') (gt/ge swapped)"""
    if op == "Gt": op, a, b = "Lt", b, a
    elif op == "Ge": op, a, b = "Le", b, a
    if op == "Le":
        # over the integers `c <= x` is `c-1 < x` and `x <= c` is `x < c+1`: one canonical (strict) form when a literal is involved
        ca, cb = strip_casts(a), strip_casts(b)
        if ca[0] == "const" and isinstance(ca[1], int): return ("lt", ("const", ca[1] - 1), b)
        if cb[0] == "const" and isinstance(cb[1], int): return ("lt", a, ("const", cb[1] + 1))
    return (op.lower(), a, b)


def canon_branch(c):
    """polarity-aware canonical form of a comparison branch (op, a, b, true_target, false_target):
    returns (kind, x, y, T, F) with kind 'lt' (T is taken iff x < y) or 'eq' (T is taken iff x == y).
    `a >= b` is `!(a < b)`, `a <= b` is `!(b < a)`, `a != b` is `!(a == b)`: the negation swaps the targets, so `if full {reject} else {accept}` and
    `if !full {accept} else {reject}` have one form.  With an integer literal on one side the literal goes left: `x < c` is `!(c-1 < x)`."""
    op, a, b, tt, ft = c
    if op == "Lt": k, x, y, T, Fl = "lt", a, b, tt, ft
    elif op == "Gt": k, x, y, T, Fl = "lt", b, a, tt, ft
    elif op == "Ge": k, x, y, T, Fl = "lt", a, b, ft, tt
    elif op == "Le": k, x, y, T, Fl = "lt", b, a, ft, tt
    elif op == "Eq": k, x, y, T, Fl = "eq", a, b, tt, ft
    elif op == "Ne": k, x, y, T, Fl = "eq", a, b, ft, tt
    else: return None
    if k == "lt":
        cy = strip_casts(y); cx = strip_casts(x)
        if cy[0] == "const" and isinstance(cy[1], int) and not (cx[0] == "const" and isinstance(cx[1], int)):
            x, y, T, Fl = ("const", cy[1] - 1), x, Fl, T
    else:
        cx = strip_casts(x)
        if not (cx[0] == "const") and strip_casts(y)[0] == "const":
            x, y = y, x
    return (k, x, y, T, Fl)
