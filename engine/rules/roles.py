"""Role table: which definitions / fields play which protocol role.  Rules match roles, never text or positions.
Every binding is shape-checked on each run by selfcheck() (fail closed, exit 2, naming the role)."""
from mir import op_local, op_place, op_const, op_int

# ---- functions ------------------------------------------------------------------------------------------------------
SPIN_LOCK = "ogre_std::ogre_sync::lock"
SPIN_UNLOCK = "ogre_std::ogre_sync::unlock"

AM = "ogre_std::ogre_queues::atomic::atomic_move::AtomicMove"
FSM = "ogre_std::ogre_queues::full_sync::full_sync_move::FullSyncMove"
AZC = "ogre_std::ogre_queues::atomic::atomic_zero_copy::AtomicZeroCopy"
FZC = "ogre_std::ogre_queues::full_sync::full_sync_zero_copy::FullSyncZeroCopy"
POOL = "ogre_std::ogre_alloc::ogre_array_pool_allocator::OgreArrayPoolAllocator"
ARC = "ogre_std::ogre_alloc::ogre_arc::OgreArc"
INNER_ARC = "ogre_std::ogre_alloc::ogre_arc::InnerOgreArc"
UNIQUE = "ogre_std::ogre_alloc::ogre_unique::OgreUnique"
SM = "streams_manager::StreamsManagerBase"
STREAM = "mutiny_stream::MutinyStream"
MMAP = "ogre_std::ogre_queues::log_topics::mmap_meta::MMapMeta"
METRIC = "incremental_averages::AtomicIncrementalAverage64"
EXECUTOR = "stream_executor::StreamExecutor"
T_PUB = "ogre_std::ogre_queues::meta_publisher::MovePublisher"
T_SUB = "ogre_std::ogre_queues::meta_subscriber::MoveSubscriber"
T_CONT = "ogre_std::ogre_queues::meta_container::MoveContainer"
T_ALLOC = "ogre_std::ogre_alloc::types::BoundedOgreAllocator"
T_PROD = "types::ChannelProducer"
T_CONS = "types::ChannelConsumer"
T_COMMON = "types::ChannelCommon"
T_UNI = "types::ChannelUni"
T_MULTI = "types::ChannelMulti"

UNI_CHANNELS = {
    "uni.movable.atomic": "uni::channels::movable::atomic::Atomic",
    "uni.movable.full_sync": "uni::channels::movable::full_sync::FullSync",
    "uni.movable.crossbeam": "uni::channels::movable::crossbeam::Crossbeam",
    "uni.zero_copy.atomic": "uni::channels::zero_copy::atomic::Atomic",
    "uni.zero_copy.full_sync": "uni::channels::zero_copy::full_sync::FullSync",
}
MULTI_CHANNELS = {
    "multi.arc.atomic": "multi::channels::arc::atomic::Atomic",
    "multi.arc.full_sync": "multi::channels::arc::full_sync::FullSync",
    "multi.arc.crossbeam": "multi::channels::arc::crossbeam::Crossbeam",
    "multi.ogre_arc.atomic": "multi::channels::ogre_arc::atomic::Atomic",
    "multi.ogre_arc.full_sync": "multi::channels::ogre_arc::full_sync::FullSync",
    "multi.mmap_log": "multi::channels::reference::mmap_log::MmapLog",
}
CHANNELS = dict(UNI_CHANNELS, **MULTI_CHANNELS)

# lock objects: fields of type AtomicBool / RawMutex used as mutual-exclusion flags
LOCK_FIELDS = {"concurrency_guard", "streams_lock", "wakers_lock", "flag"}

# ring reservation counters of AtomicMove: counter field -> (resource kind, role)
RING_COUNTERS = {
    "enqueuer_tail": ("ring.w", "reserve"),
    "tail": ("ring.w", "commit"),
    "dequeuer_head": ("ring.r", "reserve"),
    "head": ("ring.r", "commit"),
}
# log header counters of the mmap log
LOG_COUNTERS = {
    "publisher_tail": ("log.w", "reserve"),
    "consumer_tail": ("log.w", "commit"),
}

ATOMIC = "std::sync::atomic::Atomic::"


def _ref_field(body, o, depth=0):
    """(owner ADT path, field name) of the object an atomic-method receiver refers to, following `&x.f`, Deref::deref"""
    l = op_local(o)
    if l is None or depth > 8:
        return None
    d = body.single_def(l)
    if d is None:
        return None
    rv = d[2]
    if rv[0] in ("Ref", "RawPtr"):
        p = rv[2]
        fs = [e for e in p["p"] if e != "*" and e[0] == "f"]
        if fs:
            return (fs[-1][3], fs[-1][1])
        return _ref_field(body, ["c", {"l": p["l"], "p": []}], depth + 1)
    if rv[0] == "Use":
        p = op_place(rv[1])
        if p is not None:
            fs = [e for e in p["p"] if e != "*" and e[0] == "f"]
            if fs:
                return (fs[-1][3], fs[-1][1])
            return _ref_field(body, rv[1], depth + 1)
    if rv[0] == "CallRes" and rv[1].get("fname") in ("deref", "deref_mut", "as_ref", "borrow") and rv[1]["args"]:
        return _ref_field(body, rv[1]["args"][0], depth + 1)
    return None


def atomic_target(body, c):
    """for a call to an std atomic method: (owner, field, method) of the receiver"""
    f = c.get("f") or ""
    if not f.startswith(ATOMIC):
        return None
    if not c["args"]:
        return None
    rf = _ref_field(body, c["args"][0])
    if rf is None:
        return None
    return (rf[0], rf[1], f[len(ATOMIC):])


def primitive(body, c):
    """typestate primitive for a call: list of (ret fact, {(sign, (kind, index of the argument naming the object))}) or None"""
    f = c.get("resolved") or c.get("f")
    if f == SPIN_LOCK:
        return [(None, {("+", ("lock", 0))})]
    if f == SPIN_UNLOCK:
        return [(None, {("-", ("lock", 0))})]
    if f and f.endswith("lock_api::RawMutex::lock"):
        return [(None, {("+", ("lock", 0))})]
    if f and f.endswith("lock_api::RawMutex::unlock"):
        return [(None, {("-", ("lock", 0))})]
    if f and f.endswith("lock_api::RawMutex::try_lock"):
        return [(("bool", 1), {("+", ("lock", 0))}), (("bool", 0), set())]
    at = atomic_target(body, c)
    if at is None:
        return None
    owner, field, meth = at
    if field in LOCK_FIELDS:
        if meth == "swap" and op_int(c["args"][1]) == 1:
            return [(("bool", 0), {("+", ("lock", 0))}), (("bool", 1), set())]
        if meth in ("store", "swap") and op_int(c["args"][1]) == 0:
            # `swap(false, o)` with the answer ignored is a release too (the previous value is `true` for the holder)
            return [(None, {("-", ("lock", 0))})]
        if meth in ("compare_exchange", "compare_exchange_weak") and op_int(c["args"][1]) == 0 and op_int(c["args"][2]) == 1:
            return [(("variant", 0), {("+", ("lock", 0))}), (("variant", 1), set())]
        return None
    ctr = None
    if owner == AM and field in RING_COUNTERS:
        ctr = RING_COUNTERS[field]
    if owner.endswith("MMapContents") and field in LOG_COUNTERS:
        ctr = LOG_COUNTERS[field]
    if ctr:
        kind, role = ctr
        # the resource is the ring / log object that owns the counter: argument 0 minus its last field (-1)
        if role == "reserve" and meth == "fetch_add":
            return [(None, {("+", (kind, -1))})]
        if meth in ("compare_exchange", "compare_exchange_weak"):
            # successful CAS on the reserve counter = un-reserve ; on the commit counter = publish / release
            return [(("variant", 0), {("-", (kind, -1))}), (("variant", 1), set())]
    return None


def result_helper(c):
    """`Result::is_ok` & friends: (variant index tested, truth value when equal)"""
    f = c.get("f") or ""
    return {
        "std::result::Result::is_ok": (0, True), "std::result::Result::is_err": (1, True),
        "std::option::Option::is_some": (1, True), "std::option::Option::is_none": (0, True),
    }.get(f)


def selfcheck(fx):
    """shape self-checks of the bindings; returns list of problems (strings)"""
    import mir
    probs = []
    def need(key):
        if fx.fn_opt(key) is None:
            probs.append(f"role function missing: {key}")
            return None
        return mir.Body(fx.fn(key))
    b = need(SPIN_LOCK)
    if b:
        cas = [c for (_, c) in b.calls if (c.get("f") or "").startswith(ATOMIC + "compare_exchange")]
        ok = cas and all(op_int(c["args"][1]) == 0 and op_int(c["args"][2]) == 1 for c in cas)
        if not ok: probs.append("spin.acquire: ogre_sync::lock is not a CAS false->true")
    b = need(SPIN_UNLOCK)
    if b:
        st = [c for (_, c) in b.calls if c.get("f") in (ATOMIC + "store", ATOMIC + "swap")]
        if not (len(st) == 1 and op_int(st[0]["args"][1]) == 0): probs.append("spin.release: ogre_sync::unlock is not store(false) / swap(false)")
    for adt, fields in ((AM, list(RING_COUNTERS)), (FSM, ["head", "tail", "concurrency_guard", "buffer"]),
                        (SM, ["vacant_streams", "used_streams", "used_streams_count", "streams_lock", "wakers_lock", "wakers", "keep_streams_running"]),
                        (INNER_ARC, ["allocator", "data_id", "references_count"])):
        a = fx.adts.get(adt)
        if not a:
            probs.append(f"role type missing: {adt}"); continue
        have = {f["name"] for f in a["variants"][0]["fields"]}
        for f in fields:
            if f not in have: probs.append(f"role field missing: {adt}.{f}")
    for name, path in CHANNELS.items():
        if path not in fx.adts: probs.append(f"channel type missing: {name} = {path}")
    return probs
