"""Field access points of a body: direct place mentions of `owner.field`, plus accesses through pointers derived from a
reference to the field (UnsafeCell::get -> deref).  Used by the lock-discipline / lockset rules."""
from mir import op_place, op_local, place_str

PASS = ("get", "deref", "deref_mut", "as_ref", "as_mut", "as_ptr", "as_mut_ptr", "get_mut", "get_ref", "borrow", "borrow_mut",
        "new_unchecked", "into_inner", "get_unchecked_mut", "get_unchecked", "index", "index_mut", "as_slice", "as_mut_slice", "iter", "get_unchecked_mut_pin")


def _mentions(p, owner, fields):
    """fields of `owner` named in place p: list of (position, field)"""
    out = []
    for i, e in enumerate(p["p"]):
        if e != "*" and e[0] == "f" and e[3] == owner and (fields is None or e[1] in fields):
            out.append((i, e[1]))
    return out


def _ops_of_rvalue(rv):
    k = rv[0]
    if k in ("Use",): return [rv[1]]
    if k == "Bin": return [rv[2], rv[3]]
    if k == "Un": return [rv[2]]
    if k == "Cast": return [rv[2]]
    if k == "Repeat": return [rv[1]]
    if k == "Agg": return list(rv[2])
    return []


def accesses(body, owner, fields=None):
    """list of dicts {b, i, field, kind: 'r'|'w', how: 'direct'|'deref'|'call', site}"""
    out = []
    # 1. taint: locals holding a pointer/reference derived from &owner.field
    taint = {}   # local -> field
    changed = True
    def place_taint(p):
        m = _mentions(p, owner, fields)
        if m:
            return m[-1][1]
        if p["l"] in taint:
            return taint[p["l"]]
        return None
    while changed:
        changed = False
        for b in body.reachable:
            for st in body.stmts(b):
                if st[0] != "A" or st[1]["p"]:
                    continue
                l = st[1]["l"]
                rv = st[2]
                f = None
                if rv[0] in ("Ref", "RawPtr"):
                    f = place_taint(rv[2])
                elif rv[0] in ("Use", "Cast"):
                    o = rv[1] if rv[0] == "Use" else rv[2]
                    p = op_place(o)
                    # only pointer-typed copies carry the taint (a copied-out integer does not)
                    if p is not None and _is_ptr(body, l):
                        f = place_taint(p)
                if f and taint.get(l) != f:
                    taint[l] = f; changed = True
            t = body.term(b)
            if t[0] == "Call":
                c = t[1]
                if c.get("fname") in PASS and c["args"] and not c["dst"]["p"] and _is_ptr(body, c["dst"]["l"]):
                    p = op_place(c["args"][0])
                    f = place_taint(p) if p is not None else None
                    if f and taint.get(c["dst"]["l"]) != f:
                        taint[c["dst"]["l"]] = f; changed = True
    # 2. access points
    def rd(p, b, i, how=None):
        m = _mentions(p, owner, fields)
        if m:
            out.append({"b": b, "i": i, "field": m[-1][1], "kind": "r", "how": "direct", "site": body.loc(b, i if i != "T" else None), "place": place_str(p)})
        elif p["l"] in taint and "*" in p["p"]:
            out.append({"b": b, "i": i, "field": taint[p["l"]], "kind": "r", "how": "deref", "site": body.loc(b, i if i != "T" else None), "place": place_str(p)})
    def wr(p, b, i):
        m = _mentions(p, owner, fields)
        if m:
            out.append({"b": b, "i": i, "field": m[-1][1], "kind": "w", "how": "direct", "site": body.loc(b, i if i != "T" else None), "place": place_str(p)})
        elif p["l"] in taint and "*" in p["p"]:
            out.append({"b": b, "i": i, "field": taint[p["l"]], "kind": "w", "how": "deref", "site": body.loc(b, i if i != "T" else None), "place": place_str(p)})
    for b in sorted(body.reachable):
        for i, st in enumerate(body.stmts(b)):
            if st[0] != "A":
                continue
            dst, rv = st[1], st[2]
            if dst["p"]:
                wr(dst, b, i)
            if rv[0] in ("Ref", "RawPtr"):
                continue   # taking a reference is not an access
            if rv[0] == "Discr":
                rd(rv[1], b, i); continue
            for o in _ops_of_rvalue(rv):
                p = op_place(o)
                if p is not None and (p["p"]):
                    rd(p, b, i)
        t = body.term(b)
        if t[0] == "Call":
            c = t[1]
            for a in c["args"]:
                p = op_place(a)
                if p is None:
                    continue
                if p["p"]:
                    rd(p, b, "T")
                elif p["l"] in taint and c.get("fname") not in PASS and not c.get("exp"):
                    # a derived pointer handed to some other function: counts as an access (read or write unknown)
                    kind = "w" if c.get("fname") in ("write", "write_bytes", "copy", "copy_nonoverlapping", "replace", "swap") else "r"
                    out.append({"b": b, "i": "T", "field": taint[p["l"]], "kind": kind, "how": "call:" + str(c.get("fname")),
                                "site": body.loc(b), "place": place_str(p)})
            if c["dst"]["p"]:
                wr(c["dst"], b, "T")
        elif t[0] == "Switch":
            p = op_place(t[1])
            if p is not None and p["p"]:
                rd(p, b, "T")
    return out


def _is_ptr(body, l):
    ty = body.locals[l]["ty"]
    return ty.startswith("&") or ty.startswith("*") or "Pin<" in ty or "Box<" in ty or "NonNull" in ty


def const_param_guard_blocks(body, name):
    """blocks control-dependent on `if <const generic name>` being true (e.g. `if DEBUG {..}`)"""
    out = set()
    for b in body.reachable:
        t = body.term(b)
        if t[0] != "Switch":
            continue
        l = op_local(t[1])
        if l is None:
            continue
        d = body.single_def(l)
        if not d or d[2][0] != "Use" or d[2][1][0] != "k":
            continue
        k = d[2][1][1]
        if k.get("param") != name and k.get("s") != name:
            continue
        # true edge = otherwise (switch [0: else, otherwise: then])
        then = t[3]
        els = [a[1] for a in t[2]]
        # blocks reachable from `then` before merging with else-branch: dominated by `then`
        for x in body.reachable:
            if body.dominates(then, x) and then not in els:
                out.add(x)
    return out
