"""Facts loading: runs the rustc_private driver on /repo's *current working tree* (cached by content hash) and
indexes the fact file.  Nothing here executes code of the analysed crate."""
import fcntl, hashlib, json, os, subprocess, sys, time

VERIF = os.path.dirname(os.path.dirname(os.path.dirname(os.path.abspath(__file__))))
REPO = os.environ.get("RM_REPO", "/repo")
CACHE = os.path.join(VERIF, ".cache")
DRIVER_DIR = os.path.join(VERIF, "engine", "driver")
DRIVER_BIN = os.path.join(DRIVER_DIR, "target", "debug", "rm-facts-driver")

CONFIGS = {
    # name: (cargo args, extra rustflags)
    "lib": (["--lib"], ""),
    "lib-nochecks": (["--lib"], " -C debug-assertions=off -C overflow-checks=off"),
}

class InfraError(Exception):
    pass

def _sh(cmd, **kw):
    return subprocess.run(cmd, stdout=subprocess.PIPE, stderr=subprocess.STDOUT, text=True, **kw)

def nightly_sysroot():
    r = _sh(["rustc", "+nightly", "--print", "sysroot"])
    if r.returncode != 0:
        raise InfraError("no nightly toolchain: " + r.stdout)
    return r.stdout.strip().splitlines()[-1]

def ensure_driver():
    src = [os.path.join(DRIVER_DIR, "src", "main.rs"), os.path.join(DRIVER_DIR, "Cargo.toml")]
    newest = max(os.path.getmtime(p) for p in src)
    if os.path.exists(DRIVER_BIN) and os.path.getmtime(DRIVER_BIN) >= newest:
        return
    env = dict(os.environ, CARGO_NET_OFFLINE="true")
    r = _sh(["cargo", "build", "--offline"], cwd=DRIVER_DIR, env=env)
    if r.returncode != 0 or not os.path.exists(DRIVER_BIN):
        raise InfraError("driver build failed:\n" + r.stdout[-4000:])

def _input_files():
    files = []
    for root in ("src",):
        for dp, dn, fn in os.walk(os.path.join(REPO, root)):
            dn.sort()
            for f in sorted(fn):
                files.append(os.path.join(dp, f))
    for f in ("Cargo.toml", "Cargo.lock", "README.md", "build.rs"):
        p = os.path.join(REPO, f)
        if os.path.exists(p):
            files.append(p)
    return files

def inputs_hash(config):
    h = hashlib.sha256()
    h.update(config.encode())
    h.update(repr(CONFIGS[config]).encode())
    for p in _input_files():
        h.update(os.path.relpath(p, REPO).encode() + b"\0")
        with open(p, "rb") as fh:
            h.update(hashlib.sha256(fh.read()).digest())
    with open(DRIVER_BIN, "rb") as fh:
        h.update(hashlib.sha256(fh.read()).digest())
    return h.hexdigest()[:32]

def run_driver(config="lib", verbose=True):
    """Returns (path of the fact file for REPO's current tree, was_cached, seconds)."""
    os.makedirs(CACHE, exist_ok=True)
    ensure_driver()
    t0 = time.time()
    H = inputs_hash(config)
    out = os.path.join(CACHE, f"facts-{config}-{H}.json")
    if os.path.exists(out):
        try: os.utime(out)
        except OSError: pass
        return out, True, time.time() - t0
    lock = open(os.path.join(CACHE, "lock"), "w")
    fcntl.flock(lock, fcntl.LOCK_EX)
    try:
        if os.path.exists(out):
            return out, True, time.time() - t0
        # drop stale fact files of this config (keep disk small) -- but never one a concurrent check of another tree may be about to read:
        # the newest KEEP files and everything younger than 15 minutes stay
        KEEP = 400      # ~7 MB each: the thorough tier's self-tests re-analyse the same ~500 scratch trees for every property
        old = sorted((os.path.getmtime(os.path.join(CACHE, f)), f) for f in os.listdir(CACHE)
                     if f.startswith(f"facts-{config}-") and f.endswith(".json"))
        for mt, f in old[:-KEEP] if len(old) > KEEP else []:
            if time.time() - mt > 900:
                try: os.remove(os.path.join(CACHE, f))
                except OSError: pass
        for f in os.listdir(CACHE):
            if ".json.tmp." in f and time.time() - os.path.getmtime(os.path.join(CACHE, f)) > 900:
                try: os.remove(os.path.join(CACHE, f))
                except OSError: pass
        target = os.path.join(CACHE, "target-" + config)
        tmp_out = out + ".tmp.%d" % os.getpid()
        cargo_args, extra = CONFIGS[config]
        env = dict(os.environ)
        env.update({
            "CARGO_NET_OFFLINE": "true", "CARGO_INCREMENTAL": "0", "RUSTC_ICE": "0",
            "LD_LIBRARY_PATH": nightly_sysroot() + "/lib",
            "RUSTFLAGS": "-Zmir-opt-level=0 -Awarnings" + extra,
            "RUSTC_WORKSPACE_WRAPPER": DRIVER_BIN, "CARGO_TARGET_DIR": target,
            "RMF_OUT": tmp_out, "RMF_NONCE": H,
        })
        env.pop("RUSTC_WRAPPER", None)
        # force the member crate to be re-analysed (cargo's freshness cache would otherwise skip the wrapper)
        _sh(["cargo", "+nightly", "clean", "-p", "reactive-mutiny", "--offline", "--target-dir", target], cwd=REPO, env=env)
        r = _sh(["cargo", "+nightly", "check", "--offline"] + cargo_args, cwd=REPO, env=env)
        if r.returncode != 0:
            raise InfraError("cargo check under the facts driver failed (does /repo compile?):\n" + r.stdout[-6000:])
        if os.path.exists(tmp_out):
            os.replace(tmp_out, out)      # readers outside the lock never see a partially written file
        if not os.path.exists(out):
            raise InfraError("driver produced no fact file (freshness cache skipped it?)\n" + r.stdout[-2000:])
    finally:
        fcntl.flock(lock, fcntl.LOCK_UN)
        lock.close()
    return out, False, time.time() - t0


TOUCHED = set()          # keys of the bodies whose blocks a rule actually read (RM_COVERAGE=<file>: dumped at exit)

class _TrackedFn(dict):
    __slots__ = ()
    def __getitem__(self, k):
        if k == "blocks":
            TOUCHED.add(dict.__getitem__(self, "key"))
        return dict.__getitem__(self, k)

BODIES = set()           # keys of the bodies a rule built a CFG for (targeted analysis, as opposed to a crate-wide scan)

def _dump_coverage(path, fns):
    try:
        with open(path, "w") as fh:
            json.dump({"touched": sorted(TOUCHED), "bodies": sorted(BODIES), "all": sorted({f["key"] for f in fns})}, fh)
    except OSError:
        pass

class Facts:
    def __init__(self, path, H=None):
        with open(path) as fh:
            d = json.load(fh)
        self.path = path
        # bodies of generic constants are not functions: kept aside for the expression DAG (dag.const_expr)
        self.const_bodies = {f["key"]: f for f in d["fns"] if f["kind"].startswith(("AssocConst", "Const"))}
        d["fns"] = [f for f in d["fns"] if f["key"] not in self.const_bodies or not f["kind"].startswith(("AssocConst", "Const"))]
        import dag as _dag
        _dag.CONST_BODIES = self.const_bodies; _dag._CONST_EXPR.clear()
        import anchors
        self.anchor_notes = anchors.recover(d) if not os.environ.get("RM_NO_ANCHOR_RECOVERY") else []
        if not os.environ.get("RM_NO_ANCHOR_RECOVERY") and not os.environ.get("RM_NO_INLINE"):
            import inline
            self.anchor_notes += inline.inline_new_helpers(d, anchors._load())
            self.anchor_notes += inline.inline_new_closures(d, anchors._load())
        if not os.environ.get("RM_NO_NORMALIZE"):
            import normalize
            self.anchor_notes += normalize.atomic_equivalents(d)
            self.n_index_calls = normalize.index_to_calls(d)
        self.meta = d["meta"]
        if H is not None and self.meta.get("nonce") != H:
            raise InfraError("fact file nonce mismatch")
        self.fns = d["fns"]
        if os.environ.get("RM_COVERAGE"):
            import atexit
            self.fns = d["fns"] = [_TrackedFn(f) for f in d["fns"]]
            TOUCHED.clear()
            atexit.register(_dump_coverage, os.environ["RM_COVERAGE"], self.fns)
        self.adts = {a["path"]: a for a in d["adts"]}
        self.impls = [i for i in d["impls"] if "self" in i]
        self.traits = {i["trait_def"]: i for i in d["impls"] if "trait_def" in i}
        self.aliases = {a["path"]: a for a in d["aliases"]}
        self.consts = d["consts"]
        self.by_key = {}
        for f in self.fns:
            self.by_key.setdefault(f["key"], []).append(f)
        # closures by owner
        self.children = {}
        for f in self.fns:
            k = f["key"]
            if "::{closure#" in k:
                parent = k.rsplit("::{closure#", 1)[0]
                self.children.setdefault(parent, []).append(f)

    def fn(self, key):
        l = self.by_key.get(key)
        if not l:
            raise InfraError(f"anchor missing: no body with key {key!r} (renamed? update roles)")
        if len(l) > 1:
            raise InfraError(f"ambiguous key {key!r}: {len(l)} bodies")
        return l[0]

    def fn_opt(self, key):
        l = self.by_key.get(key)
        return l[0] if l else None

    def find(self, pred):
        return [f for f in self.fns if pred(f)]

    def impls_of(self, trait):
        return [i for i in self.impls if i.get("trait") == trait]


def load(config="lib"):
    path, cached, secs = run_driver(config)
    H = os.path.basename(path).split("-")[-1][:-5]
    global CURRENT
    CURRENT = Facts(path, H)
    return CURRENT, cached, secs


CURRENT = None      # the fact base of the tree under analysis (for helpers that need a callee's body but are not handed the context)
