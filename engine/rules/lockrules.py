"""Lock-discipline rule shared by C02 (full-sync ring), C18 (stacks), C17 (streams manager lists):
every access to a guarded field lies inside the critical section of its lock; every exit leaves the lock free;
one release per acquisition."""
import ts, guards
from mir import op_local

ORD_OK_ACQ = ("Acquire", "AcqRel", "SeqCst")
ORD_OK_REL = ("Release", "AcqRel", "SeqCst")


def ordering_of(body, o):
    """name of the `Ordering` variant an operand evaluates to"""
    l = op_local(o)
    if l is None:
        k = o[1] if o[0] == "k" else None
        return k.get("s", "").split("::")[-1] if k else None
    d = body.single_def(l)
    if d and d[2][0] == "Agg" and d[2][1][0] == "Adt":
        return d[2][1][2]
    if d and d[2][0] == "Use":
        return ordering_of(body, d[2][1])
    return None


def check_critical_sections(ctx, eng, rule, fn_keys, owner, lock_pred, guarded=None, exempt_fn=None, exempt_blocks=None,
                            requires_held=(), tag=""):
    """For each function: accesses to guarded fields of `owner` happen with the lock held (must, on all path states).
    requires_held: functions documented (by computed summary) to be called with the lock held: their accesses are checked
    against 'no release has happened yet', and their call sites against must-hold."""
    fx = ctx.fx
    n_acc = 0
    for key in fn_keys:
        body = eng.body(key)
        if body is None:
            continue
        an = eng.analyse(key)
        acc = guards.accesses(body, owner, guarded)
        ex_blocks = exempt_blocks(body) if exempt_blocks else set()
        short = key.split("::")[-1]
        if an.undecided:
            ctx.ob(rule, f"{key}|analysis", False, f"{body.f['file']}:{body.f['line']}", "typestate analysis did not converge: " + an.undecided)
            continue
        bad = {}
        for a in acc:
            n_acc += 1
            b = a["b"]
            if b in ex_blocks:
                continue
            if exempt_fn and exempt_fn(key, a):
                continue
            if key in requires_held:
                # caller holds the lock; here: the access must come before this function releases it
                released = any(any(s == "-" and lock_pred(r) for (s, r) in h) for h in an.held_at(b))
                ok = not released
            else:
                ok = an.must_hold(b, lock_pred)
            if not ok:
                bad.setdefault((a["field"], a["kind"]), a)
        for (field, kind), a in bad.items():
            ctx.ob(rule, f"{key}|{field}|{'write' if kind == 'w' else 'read'}-outside-lock{tag}", False, a["site"],
                   f"{'write to' if kind == 'w' else 'read of'} guarded field `{field}` ({a['place']}, {a['how']}) is not inside the critical section of its lock on every path")
        if not bad:
            ctx.ob(rule, f"{key}|accesses-inside-lock{tag}", True, f"{body.f['file']}:{body.f['line']}",
                   f"{len(acc)} access point(s) to guarded fields, all inside the critical section", nontrivial=len(acc) > 0)
        # exits: no '+' token may survive a return unless the function is a conditional-acquire role (handled by caller)
        for e in an.events:
            if e[0] in ("double-acquire", "double-release"):
                ctx.ob(rule, f"{key}|{e[0]}{tag}", False, body.loc(e[1]), f"{e[0]} of {e[2]}")
    return n_acc


def check_spin_lock_primitive(ctx, rule):
    """the role `spin.acquire` / `spin.release` really is a lock: ogre_sync::lock returns ONLY on the success edge of a CAS(false -> true, >= Acquire) on its
    flag (from the entry, with every CAS-success edge removed, no return is reachable); ogre_sync::unlock stores false with >= Release on every path."""
    import roles as R, dag as D, util
    from mir import Body
    fx = ctx.fx
    body = Body(fx.fn(R.SPIN_LOCK)); dg = D.Dag(body)
    site = f"{body.f['file']}:{body.f['line']}"
    cas = [(b, c) for (b, c) in body.calls if (c.get("f") or "").startswith(R.ATOMIC + "compare_exchange")]
    ok_args = bool(cas)
    for (b, c) in cas:
        a = [D.strip_casts(dg.expr(x)) for x in c["args"]]
        if not (a[0][0] in ("param",) and a[1] == ("const", 0) and a[2] == ("const", 1) and ordering_of(body, c["args"][3]) in ORD_OK_ACQ): ok_args = False
    ctx.ob(rule, f"{R.SPIN_LOCK}|cas-false-to-true-acquire", ok_args, site, f"{len(cas)} CAS(false -> true) on the flag parameter with success ordering >= Acquire")
    removed = set()
    for (b, c) in cas:
        for (tb, has_t, empty_t) in util.option_test_edges(body, dg, c["dst"]["l"]):
            removed.add((tb, has_t))        # Result: "has value" = Ok = acquired
    # `swap(true, >= Acquire)` answering false is an acquisition too (same primitive the flag-based stack uses)
    for (b, c) in body.calls:
        if c.get("f") == R.ATOMIC + "swap" and D.strip_casts(dg.expr(c["args"][1])) == ("const", 1) and D.strip_casts(dg.expr(c["args"][0]))[0] == "param" \
                and ordering_of(body, c["args"][2]) in ORD_OK_ACQ:
            for (tb, true_t, false_t) in util.bool_test_edges(body, dg, c["dst"]["l"], b):
                removed.add((tb, false_t))
    seen = {0}; st = [0]
    while st:
        x = st.pop()
        for s in body.succ(x):
            if (x, s) in removed or s in seen: continue
            seen.add(s); st.append(s)
    escapes = [r for r in body.returns if r in seen]
    ctx.ob(rule, f"{R.SPIN_LOCK}|returns-only-after-acquiring", bool(removed) and not escapes, body.loc(escapes[0]) if escapes else site,
           "lock() returns only through the success edge of one of its CAS attempts" if not escapes else
           "lock() can return on a path where no CAS(false -> true) succeeded: the caller enters the critical section without owning the lock, and its unlock() releases the real owner's")
    ub = Body(fx.fn(R.SPIN_UNLOCK)); ud = D.Dag(ub)
    st_ = [(b, c) for (b, c) in ub.calls if c.get("f") in (R.ATOMIC + "store", R.ATOMIC + "swap")]
    ok = len(st_) == 1 and D.strip_casts(ud.expr(st_[0][1]["args"][1])) == ("const", 0) and ordering_of(ub, st_[0][1]["args"][2]) in ORD_OK_REL and util.on_every_return_path(ub, st_[0][0])
    ctx.ob(rule, f"{R.SPIN_UNLOCK}|store-false-release", ok, f"{ub.f['file']}:{ub.f['line']}", "unlock() stores false with >= Release on every path")
