"""Lock-discipline rule shared by C02 (full-sync ring), C18 (stacks), C17 (streams manager lists):
every access to a guarded field lies inside the critical section of its lock; every exit leaves the lock free;
one release per acquisition."""
import ts, guards
from mir import op_local

ORD_OK_ACQ = ("Acquire", "AcqRel", "SeqCst")
ORD_OK_REL = ("Release", "AcqRel", "SeqCst")


def ordering_of(body, o):
    """name of the `Ordering` variant an operand evaluates to"""
    l = op_local(o)
    if l is None:
        k = o[1] if o[0] == "k" else None
        return k.get("s", "").split("::")[-1] if k else None
    d = body.single_def(l)
    if d and d[2][0] == "Agg" and d[2][1][0] == "Adt":
        return d[2][1][2]
    if d and d[2][0] == "Use":
        return ordering_of(body, d[2][1])
    return None


def check_critical_sections(ctx, eng, rule, fn_keys, owner, lock_pred, guarded=None, exempt_fn=None, exempt_blocks=None,
                            requires_held=(), tag=""):
    """For each function: accesses to guarded fields of `owner` happen with the lock held (must, on all path states).
    requires_held: functions documented (by computed summary) to be called with the lock held: their accesses are checked
    against 'no release has happened yet', and their call sites against must-hold."""
    fx = ctx.fx
    n_acc = 0
    for key in fn_keys:
        body = eng.body(key)
        if body is None:
            continue
        an = eng.analyse(key)
        acc = guards.accesses(body, owner, guarded)
        ex_blocks = exempt_blocks(body) if exempt_blocks else set()
        short = key.split("::")[-1]
        if an.undecided:
            ctx.ob(rule, f"{key}|analysis", False, f"{body.f['file']}:{body.f['line']}", "typestate analysis did not converge: " + an.undecided)
            continue
        bad = {}
        for a in acc:
            n_acc += 1
            b = a["b"]
            if b in ex_blocks:
                continue
            if exempt_fn and exempt_fn(key, a):
                continue
            if key in requires_held:
                # caller holds the lock; here: the access must come before this function releases it
                released = any(any(s == "-" and lock_pred(r) for (s, r) in h) for h in an.held_at(b))
                ok = not released
            else:
                ok = an.must_hold(b, lock_pred)
            if not ok:
                bad.setdefault((a["field"], a["kind"]), a)
        for (field, kind), a in bad.items():
            ctx.ob(rule, f"{key}|{field}|{'write' if kind == 'w' else 'read'}-outside-lock{tag}", False, a["site"],
                   f"{'write to' if kind == 'w' else 'read of'} guarded field `{field}` ({a['place']}, {a['how']}) is not inside the critical section of its lock on every path")
        if not bad:
            ctx.ob(rule, f"{key}|accesses-inside-lock{tag}", True, f"{body.f['file']}:{body.f['line']}",
                   f"{len(acc)} access point(s) to guarded fields, all inside the critical section", nontrivial=len(acc) > 0)
        # exits: no '+' token may survive a return unless the function is a conditional-acquire role (handled by caller)
        for e in an.events:
            if e[0] in ("double-acquire", "double-release"):
                ctx.ob(rule, f"{key}|{e[0]}{tag}", False, body.loc(e[1]), f"{e[0]} of {e[2]}")
    return n_acc
