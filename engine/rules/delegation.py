"""Thin forwarding wrappers: `fn x(&self, a, b) -> R { self.inner.x(a, b) }`.  The API layers (Uni / Multi / GenericUni, the channels' ChannelCommon / ChannelConsumer
plumbing over StreamsManagerBase) are such wrappers; a rule about the mechanism underneath only speaks for the API if the wrapper hands arguments and answer through
unchanged.  One obligation per wrapper: exactly one call of the named callee on every path (not in a loop), its arguments are this function's own parameters in
order, and -- unless the wrapper answers () -- what it returns is that call's result."""
import dag as D, util
from dag import strip_casts, show
from mir import Body


def thin(ctx, rule, key, callee, why, allow_missing=False):
    fx = ctx.fx
    f = fx.fn_opt(key)
    if f is None:
        if not allow_missing:
            ctx.ob(rule, f"{key}|forwards-to|{callee}", False, "", "wrapper not found")
        return False
    body = Body(f); dg = D.Dag(body)
    site = f"{f['file']}:{f['line']}"
    calls = [(b, c) for (b, c) in body.calls if c.get("fname") == callee and (c.get("resolved") or c.get("f")) != key]
    if len(calls) != 1:
        return ctx.ob(rule, f"{key}|forwards-to|{callee}", False, site, f"{len(calls)} calls of `{callee}`; required: exactly one ({why})")
    cb, c = calls[0]
    once = not util.in_loop(body, cb) and util.on_every_return_path(body, cb)
    args = [strip_casts(dg.expr(a)) for a in c["args"][1:]]
    own = all(a[0] == "param" and a[1] == 2 + j for j, a in enumerate(args)) and len(args) == f["argc"] - 1
    unit = body.locals[0]["ty"] == "()"
    r0 = strip_casts(dg.local(0))
    ret = unit or (r0[0] == "call" and len(r0) > 3 and r0[3] == cb) or (r0[0] == "atomic" and len(r0) > 3 and r0[3] == cb)
    ok = once and own and ret
    detail = f"`{callee}({', '.join(show(a)[:30] for a in args)})` -> `{show(r0)[:60]}`"
    return ctx.ob(rule, f"{key}|forwards-to|{callee}", ok, body.loc(cb),
                  (f"forwards unchanged: {detail}" if ok else f"{detail}: the wrapper must call `{callee}` exactly once on every path with its own parameters in order and answer that call's result") + f" ({why})")
