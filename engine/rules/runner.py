"""Check runner: loads facts for /repo's current tree, evaluates one property's rules, matches failures against
known_findings.json (exact key), writes evidence/<id>.json, prints KNOWN-FINDING / VIOLATION lines, sets the exit code.
exit 0: all obligations discharged or only listed findings; exit 1: unlisted violation; exit 2: infrastructure / anchor problem."""
import importlib, json, os, sys, time, traceback
import facts as F
import mir

VERIF = F.VERIF
EVID = os.environ.get("RM_EVID") or os.path.join(VERIF, "evidence")
PROPS = ["C%02d" % i for i in range(1, 21)]


class Ctx:
    def __init__(self, pid, fx, tier, config):
        self.pid = pid; self.fx = fx; self.tier = tier; self.config = config
        self.obs = []          # obligations
        self.counts = {}       # rule -> instances
        self.notes = []
        self.floors = []
        self.assumptions = []
        self._bodies = {}

    def body(self, key):
        if key not in self._bodies:
            self._bodies[key] = mir.Body(self.fx.fn(key))
        return self._bodies[key]

    def body_of(self, f):
        return self.body(f["key"]) if len(self.fx.by_key.get(f["key"], [])) == 1 else mir.Body(f)

    def ob(self, rule, key, ok, site="", detail="", nontrivial=True, undecided=False):
        """records one obligation.  key: stable identity (no line numbers).  ok: True/False."""
        self.obs.append({"rule": rule, "key": f"{rule}|{key}", "ok": bool(ok), "site": site, "detail": detail,
                         "nontrivial": nontrivial, "undecided": undecided, "config": self.config})
        self.counts[rule] = self.counts.get(rule, 0) + 1
        return ok

    def undecided(self, rule, key, site="", detail=""):
        self.obs.append({"rule": rule, "key": f"{rule}|{key}", "ok": True, "site": site, "detail": "UNDECIDED: " + detail,
                         "nontrivial": False, "undecided": True, "config": self.config})
        self.counts[rule] = self.counts.get(rule, 0) + 1      # the anchor was found (the floor guards against vanished anchors); it could not be interpreted

    def floor(self, rule, minimum):
        """fail closed when a rule matched fewer instances than were confirmed by hand"""
        self.floors.append((rule, minimum))

    def defer_infra(self, msg):
        """an imported property's rules could not run (anchor / role problem): fail closed at the end -- unless this property's own rules already report a violation,
        which takes precedence (the construct that broke the anchor usually IS the violation)"""
        self.deferred_infra = getattr(self, "deferred_infra", []) + [msg]

    def check_floors(self):
        """deferred: a reported violation takes precedence over a missing-instance alarm"""
        if any(not o["ok"] for o in self.obs):
            return
        if getattr(self, "deferred_infra", None):
            raise F.InfraError(self.deferred_infra[0])
        for rule, minimum in self.floors:
            n = self.counts.get(rule, 0)
            if n < minimum:
                raise F.InfraError(f"rule {rule}: only {n} instances matched, floor is {minimum} (anchor drift? a rule that matches nothing passes vacuously)")

    def note(self, s):
        self.notes.append(s)

    def assume(self, s):
        if s not in self.assumptions: self.assumptions.append(s)


def load_known():
    p = os.path.join(VERIF, "known_findings.json")
    if not os.path.exists(p):
        return {"findings": [], "fixed": []}
    with open(p) as fh:
        return json.load(fh)


def run_property(pid, tier, seed):
    t0 = time.time()
    mod = importlib.import_module("props." + pid)
    configs = ["lib"]
    if tier == "thorough":
        configs += list(getattr(mod, "THOROUGH_CONFIGS", ["lib-nochecks"]))
    all_obs = []; notes = []; assumptions = []; counts = {}
    meta = {}
    for config in configs:
        fx, cached, secs = F.load(config)
        ctx = Ctx(pid, fx, tier, config)
        for n_ in getattr(fx, "anchor_notes", []): ctx.note(n_)
        mod.check(ctx)
        ctx.check_floors()
        all_obs += ctx.obs; notes += [f"[{config}] {n}" for n in ctx.notes]
        for a in ctx.assumptions:
            if a not in assumptions: assumptions.append(a)
        for k, v in ctx.counts.items(): counts[f"{config}:{k}"] = v
        meta[config] = {"bodies": len(fx.fns), "facts_cached": cached, "driver_s": round(secs, 2),
                        "call_sites": sum(1 for f in fx.fns for b in f["blocks"] if b["term"][0] == "Call")}
    extra = {}
    if tier == "thorough" and not os.environ.get("RM_REPO"):
        extra.update(_thorough_selftest(pid))
    if tier == "thorough" and not os.environ.get("RM_REPO") and pid in WITNESSES:
        wctx = Ctx(pid, F.load("lib")[0], tier, "witness")
        _thorough_witness(wctx, pid)
        all_obs += wctx.obs; notes += wctx.notes
    if tier == "thorough" and hasattr(mod, "thorough"):
        ctx = Ctx(pid, F.load("lib")[0], tier, "thorough-extra")
        extra = mod.thorough(ctx) or {}
        all_obs += ctx.obs; notes += ctx.notes
    if os.environ.get("RM_DUMP_OBS"):
        with open(os.environ["RM_DUMP_OBS"], "a") as fh:
            for o in all_obs: fh.write(json.dumps({"p": pid, "rule": o["rule"], "key": o["key"], "site": o["site"], "ok": o["ok"]}) + "\n")
    known = load_known()
    kf = {(k["property"], k["key"]): k for k in known.get("findings", [])}
    viol = []; known_hit = {}
    for o in all_obs:
        if o["ok"]: continue
        k = (pid, o["key"])
        if k in kf:
            known_hit[o["key"]] = kf[k]
            o["known"] = True
        else:
            viol.append(o)
    for key, k in known_hit.items():
        print(f"KNOWN-FINDING: property={pid} {k['what']}  [{key}]")
    os.makedirs(EVID, exist_ok=True)
    replay = os.path.join(EVID, f"{pid}.violations.json")
    if os.path.exists(replay): os.remove(replay)
    und = [o for o in all_obs if o["undecided"]]
    for o in und:
        print(f"UNDECIDED: {o['key']} {o['site']} {o['detail']}")
    if viol:
        seen = set()
        uniq = []
        for o in viol:
            if o["key"] in seen: continue
            seen.add(o["key"]); uniq.append(o)
        with open(replay, "w") as fh:
            json.dump({"property": pid, "violations": uniq}, fh, indent=1)
        for o in uniq:
            print(f"  violation: rule={o['rule']} site={o['site']} key={o['key']}\n      {o['detail']}")
        print(f"VIOLATION property={pid} replay={replay}")
    n_ob = len([o for o in all_obs if not o["undecided"]])
    n_ok = len([o for o in all_obs if o["ok"] and not o["undecided"]])
    distinct_nontrivial = len({o["key"] for o in all_obs if o["nontrivial"] and not o["undecided"]})
    samples = []
    seen_rules = set()
    for o in all_obs:
        if o["rule"] in seen_rules: continue
        seen_rules.add(o["rule"])
        samples.append({"rule": o["rule"], "key": o["key"], "site": o["site"], "ok": o["ok"], "detail": o["detail"][:300]})
    level = getattr(mod, "LEVEL", "other")
    cov = {
        "explanation": mod.EXPLANATION,
        "rule": "one obligation per (rule, function, shape) instance found in the MIR of /repo's current tree; non-trivial = decided by a path / dominance / dataflow argument rather than a table lookup; distinct = distinct obligation keys",
        "obligations": n_ob, "discharged": n_ok,
        "evaluations": len(all_obs), "distinct_nontrivial": distinct_nontrivial,
        "checker_cmd": f"./check {pid} --tier {tier}",
        "trusted_base": ["nightly rustc 1.97 MIR construction and type checking (mir_built)", "engine/driver fact extraction",
                         "role bindings in engine/rules/roles.py (shape self-checked on every run)",
                         "anchor recovery / helper + closure inlining of engine/rules/{anchors,inline}.py (identity on the tree the rules were confirmed on; what they did on this run is listed in notes)"] + list(getattr(mod, "TRUSTED", [])),
        "samples": samples, "rule_instances": counts, "analysed": meta,
        "known_findings_matched": sorted(known_hit), "undecided": len(und), "notes": notes[:50],
        "exhaustive": False,
    }
    cov.update(extra)
    ev = {"property_id": pid, "tier": tier, "seed": seed, "level": level, "coverage": cov,
          "assumptions": assumptions + list(getattr(mod, "ASSUMPTIONS", [])),
          "wall_s": round(time.time() - t0, 2), "violations": len(viol)}
    with open(os.path.join(EVID, f"{pid}.json"), "w") as fh:
        json.dump(ev, fh, indent=1)
    print(f"{pid}: tier={tier} obligations={n_ob} discharged={n_ok} known={len(known_hit)} violations={len(viol)} undecided={len(und)} "
          f"bodies={meta['lib']['bodies']} wall={ev['wall_s']}s")
    return 1 if viol else 0


WITNESSES = {"C05": ("W1UniqueNotClone", "W1bHandlesNotCopy"), "C14": ("W1UniqueNotClone", "W1bHandlesNotCopy", "W3BulkApiUnsafe"), "C10": ("W2StreamNotClone",)}

def _thorough_witness(ctx, pid):
    """thorough tier: type-level compile-fail witnesses (each paired with a compiling twin) built against /repo's current tree by rustdoc on nightly"""
    import shutil, subprocess, re
    wdir = os.path.join(VERIF, "witness")
    shutil.copy(os.path.join(F.REPO, "Cargo.lock"), os.path.join(wdir, "Cargo.lock"))
    env = dict(os.environ, CARGO_NET_OFFLINE="true", CARGO_TARGET_DIR=os.path.join(F.CACHE, "target-witness"))
    env.pop("RUSTC_WORKSPACE_WRAPPER", None); env.pop("RUSTFLAGS", None)
    r = subprocess.run(["cargo", "+nightly", "test", "--doc", "--offline"], cwd=wdir, env=env, capture_output=True, text=True)
    out = r.stdout + r.stderr
    results = {}
    for m in re.finditer(r"test src/lib.rs - (\w+) \(line (\d+)\)( - compile fail)? \.\.\. (\w+)", out):
        results.setdefault(m.group(1), []).append((bool(m.group(3)), m.group(4) == "ok"))
    if not results:
        raise F.InfraError("witness doctests did not run:\n" + out[-1500:])
    for w in WITNESSES[pid]:
        rs = results.get(w, [])
        cf = [ok for (is_cf, ok) in rs if is_cf]; tw = [ok for (is_cf, ok) in rs if not is_cf]
        ctx.ob("W", f"{w}|violating-program-rejected", bool(cf) and all(cf), "witness/src/lib.rs", f"{len(cf)} compile_fail doctest(s) with pinned error code: the violating program is rejected by the type checker")
        ctx.ob("W", f"{w}|twin-compiles", bool(tw) and all(tw), "witness/src/lib.rs", f"{len(tw)} twin(s) differing only in the offending type compile (the witness does not fail for a wrong path)", nontrivial=False)
    ctx.note(f"witness doctests: {sum(len(v) for v in results.values())} run")


def _thorough_selftest(pid):
    """thorough tier: the checker is tested both ways on scratch copies of /repo (never /repo itself): every mutant of the property's corpus and every
    kept seeded defect must be reported by this property's rules; the unmodified tree was already shown silent above.  A miss is a checker regression
    (exit 2), never a verdict about /repo."""
    import selftest, shutil, subprocess, glob
    res = {"mutants": {}, "seeds": {}}
    missed = []
    for m in selftest.load_mutants(pid):
        try:
            status, rules, out = selftest.run_one(m)
        except Exception as e:
            status, rules = "ERROR:" + str(e)[:80], []
        res["mutants"][m["id"]] = {"status": status, "rules": rules, "expected": m.get("expect_rule")}
        if status not in ("CAUGHT", "CAUGHT-OTHER-RULE"): missed.append(m["id"])
    for sd in sorted(glob.glob(os.path.join(VERIF, "seeded", pid + "*-s*"))):
        d, repo = selftest.make_scratch()
        try:
            r = subprocess.run(["patch", "-s", "-p1", "-d", repo, "-i", os.path.join(sd, "patch.diff")], capture_output=True, text=True)
            if r.returncode != 0:
                res["seeds"][os.path.basename(sd)] = {"status": "PATCH-FAILED"}; missed.append(os.path.basename(sd)); continue
            env = dict(os.environ, RM_REPO=repo, RM_EVID=os.path.join(d, "ev"))
            rr = subprocess.run([os.path.join(VERIF, "check"), pid], capture_output=True, text=True, env=env)
            rules = sorted({l.split("rule=")[1].split()[0] for l in rr.stdout.splitlines() if l.strip().startswith("violation:")})
            ok = "VIOLATION property=" in rr.stdout
            res["seeds"][os.path.basename(sd)] = {"status": "CAUGHT" if ok else "MISSED", "rules": rules}
            if not ok: missed.append(os.path.basename(sd))
        finally:
            shutil.rmtree(d, ignore_errors=True)
    # the other direction: every behaviour-preserving refactor of the corpus (mutants/benign.json + benign/*/patch.diff, produced independently of the rules)
    # must leave this property's check silent
    from concurrent.futures import ThreadPoolExecutor
    bl = list(json.load(open(os.path.join(VERIF, "mutants", "benign.json"))))
    for pd in sorted(glob.glob(os.path.join(VERIF, "benign", "*", "patch.diff"))):
        bl.append({"id": os.path.basename(os.path.dirname(pd)), "patch": pd})
    def _benign(m):
        d, repo = selftest.make_scratch()
        try:
            try:
                if "patch" in m:
                    r = subprocess.run(["patch", "-s", "-p1", "-d", repo, "-i", m["patch"]], capture_output=True, text=True)
                    if r.returncode: return m["id"], "PATCH-FAILED"
                else:
                    selftest.apply(repo, m)
            except Exception as e:
                return m["id"], "APPLY-FAILED"
            env = dict(os.environ, RM_REPO=repo, RM_EVID=os.path.join(d, "ev"))
            rr = subprocess.run([os.path.join(VERIF, "check"), pid], capture_output=True, text=True, env=env)
            return m["id"], ("SILENT" if rr.returncode == 0 else f"ALARM(exit {rr.returncode})")
        finally:
            shutil.rmtree(d, ignore_errors=True)
    res["benign"] = {}
    with ThreadPoolExecutor(int(os.environ.get("RM_JOBS", "8"))) as ex:
        for bid, st in ex.map(_benign, bl):
            res["benign"][bid] = st
            if st != "SILENT": missed.append("benign:" + bid)
    print(f"{pid}: false-alarm self-test: {sum(1 for v in res['benign'].values() if v == 'SILENT')}/{len(res['benign'])} behaviour-preserving refactors leave the check silent")
    n_m = len(res["mutants"]); n_s = len(res["seeds"])
    print(f"{pid}: checker self-test on scratch copies: {n_m - len([x for x in missed if x in res['mutants']])}/{n_m} mutants and "
          f"{n_s - len([x for x in missed if x in res['seeds']])}/{n_s} seeded defects reported")
    if missed:
        raise F.InfraError(f"checker self-test: not reported / false alarm: {missed}")
    return {"checker_selftest": res}


def run(argv):
    tier = os.environ.get("VERIF_TIER", "quick")
    seed = int(os.environ.get("VERIF_SEED", "0") or 0)
    args = []
    i = 0
    while i < len(argv):
        if argv[i] == "--tier": tier = argv[i + 1]; i += 2
        else: args.append(argv[i]); i += 1
    if tier not in ("quick", "thorough"): tier = "quick"
    what = args[0]
    pids = PROPS if what == "all" else [what]
    rc = 0
    for pid in pids:
        if pid not in PROPS:
            print("unknown property", pid); return 2
        if not os.path.exists(os.path.join(os.path.dirname(__file__), "props", pid + ".py")):
            print(f"{pid}: no check"); continue
        try:
            r = run_property(pid, tier, seed)
        except F.InfraError as e:
            print(f"INFRA-ERROR {pid}: {e}")
            r = 2
        except Exception:
            traceback.print_exc()
            print(f"INFRA-ERROR {pid}: checker crashed")
            r = 2
        rc = max(rc, r) if rc != 1 else 1
        if r == 1: rc = 1
    return rc
