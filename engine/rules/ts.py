"""Interprocedural, path-sensitive *typestate* analysis of lock / reservation resources over the MIR facts.

Resources are tokens ('+'|'-', (kind, path)):  '+' = acquired here and still held, '-' = a resource the caller held was
released here.  `path` is the access path (tuple of field names, '[]' for element access) of the lock / ring object relative
to the analysed function's `self`.  States also carry *facts* about locals (enum variant / boolean value of call results),
so that `match leak_slot() { Some => held, None => free }` style correlations are followed through `switchInt`.

Primitive events come from the role table (roles.py): spin-lock acquire/release calls, atomic lock flags, ring reservation
counters (fetch_add = reserve, successful CAS on the reserve counter = un-reserve, successful CAS on the commit counter =
publish/release).  Everything above the primitives is *computed*: function summaries = set of (return fact, effects)."""
import mir
import roles as R
from mir import op_local, op_place, op_const

MAX_STATES = 400


class Undecided(Exception):
    pass


def access_path(body, o, depth=0, fx=None):
    """access path (tuple) of the object an operand refers to, relative to `self`; None when unknown.
    () is `self` itself."""
    p = op_place(o)
    if p is None or depth > 24:
        return None
    return place_path(body, p, depth)


def place_path(body, p, depth=0):
    base = local_path(body, p["l"], depth + 1)
    if base is None:
        return None
    out = list(base)
    for e in p["p"]:
        if e == "*":
            continue
        if e[0] == "f":
            # closure capture named self -> root
            if e[3] == "{closure}":
                if e[1] == "self":
                    out = []
                else:
                    out = ["<cap:" + e[1] + ">"]
            else:
                out.append(e[1])
        elif e[0] in ("i", "ci"):
            out.append("[]")
        elif e[0] == "d":
            out.append("<" + e[1] + ">")
    return tuple(out)


_PASS_THROUGH = ("deref", "deref_mut", "get", "get_mut", "as_ref", "as_mut", "borrow", "borrow_mut", "as_ptr", "as_mut_ptr",
                 "get_ref", "into_inner", "new_unchecked", "get_unchecked_mut_pin", "clone")
_INDEXERS = ("get_unchecked", "get_unchecked_mut", "index", "index_mut")


def local_path(body, l, depth=0):
    if depth > 24:
        return None
    f = body.f
    is_closure = f["kind"] == "Closure"
    if l == 1:
        if is_closure:
            return ("<env>",)      # closure environment; captures resolved by place_path
        return ()                  # self (or first arg)
    if 1 < l <= f["argc"]:
        return ("<arg%d>" % l,)
    ds = [d for d in body.defs.get(l, []) if d[0] in body.reachable]
    if len(ds) != 1:
        # several defs: accept if all resolve to the same path
        paths = set()
        for d in ds:
            paths.add(_def_path(body, d, depth))
        if len(paths) == 1:
            return paths.pop()
        return None
    return _def_path(body, ds[0], depth)


def _def_path(body, d, depth):
    rv = d[2]
    k = rv[0]
    if k == "Use":
        p = op_place(rv[1])
        return place_path(body, p, depth + 1) if p else None
    if k in ("Ref", "RawPtr"):
        return place_path(body, rv[2], depth + 1)
    if k == "Cast":
        p = op_place(rv[2])
        return place_path(body, p, depth + 1) if p else None
    if k == "CallRes":
        c = rv[1]
        name = c.get("fname")
        if name in _PASS_THROUGH and c["args"]:
            return access_path(body, c["args"][0], depth + 1)
        if name in _INDEXERS and c["args"]:
            b = access_path(body, c["args"][0], depth + 1)
            return None if b is None else b + ("[]",)
        # accessor methods returning a reference to a field: treat `x.used_streams()` as path + (name,)
        return None
    return None


def strip_env(path):
    if path and path[0] == "<env>":
        path = path[1:]
    return path


class Outcome:
    __slots__ = ("ret", "eff")

    def __init__(self, ret, eff):
        self.ret = ret; self.eff = frozenset(eff)

    def key(self):
        return (self.ret, self.eff)

    def __repr__(self):
        return f"<{self.ret} {sorted(self.eff)}>"


class Analysis:
    """result of analysing one body"""
    def __init__(self, body):
        self.body = body
        self.state_in = {}     # block -> set of states  (state = (held frozenset, facts frozenset))
        self.outcomes = set()  # (ret, eff)
        self.events = []       # (kind, block, detail, state)
        self.undecided = None

    def held_at(self, b):
        """list of held-sets (one per path-state) at entry of block b"""
        return [s[0] for s in self.state_in.get(b, ())]

    def may_hold(self, b, pred):
        return any(any(sign == "+" and pred(res) for (sign, res) in h) for h in self.held_at(b))

    def must_hold(self, b, pred):
        hs = self.held_at(b)
        return bool(hs) and all(any(sign == "+" and pred(res) for (sign, res) in h) for h in hs)


class Engine:
    def __init__(self, fx):
        self.fx = fx
        self.bodies = {}
        self.cache = {}
        self.in_progress = set()
        self.notes = []

    def body(self, key):
        if key not in self.bodies:
            f = self.fx.fn_opt(key)
            self.bodies[key] = mir.Body(f) if f else None
        return self.bodies[key]

    # ---------------------------------------------------------------------------------------------- summaries
    def analyse(self, key, binding=()):
        ck = (key, binding)
        if ck in self.cache:
            return self.cache[ck]
        body = self.body(key)
        if body is None:
            return None
        if ck in self.in_progress:
            return None  # recursion: no effect assumed (noted)
        self.in_progress.add(ck)
        try:
            an = self._run(body, dict(binding))
        finally:
            self.in_progress.discard(ck)
        self.cache[ck] = an
        return an

    def outcomes_of(self, key, binding=()):
        an = self.analyse(key, binding)
        if an is None:
            return None
        return [Outcome(r, e) for (r, e) in an.outcomes]

    # ---------------------------------------------------------------------------------------------- core
    def _run(self, body, binding):
        an = Analysis(body)
        init = (frozenset(), frozenset())
        # pre-pass: outcomes of every reachable call (summaries are cached); bodies without any effect are trivial
        self._oc = getattr(self, "_oc", {})
        oc_map = {}
        has_eff = False
        for (b, c) in body.calls:
            oc = self.call_outcomes(body, c, binding)
            oc_map[b] = oc
            if oc and any(o.eff for o in oc):
                has_eff = True
        an.oc_map = oc_map
        if not has_eff:
            an.outcomes = {(None, frozenset())}
            for b in sorted(body.reachable):
                an.state_in[b] = {init}
                if body.term(b)[0] == "Yield":
                    an.events.append(("yield", b, frozenset(), None))
            return an
        an.tracked = self._tracked_locals(body, oc_map)
        an.state_in[0] = {init}
        work = [0]
        iters = 0
        while work:
            b = work.pop()
            iters += 1
            if iters > 20000:
                an.undecided = "iteration limit"; break
            outs = self._transfer(body, b, an, binding)
            tr = an.tracked
            outs = [(t, (h, frozenset(f for f in fs if f[0] in tr))) for (t, (h, fs)) in outs]
            for (t, st) in outs:
                cur = an.state_in.setdefault(t, set())
                if st not in cur:
                    if len(cur) >= MAX_STATES:
                        an.undecided = "state limit"; continue
                    cur.add(st)
                    if t not in work:
                        work.append(t)
        return an

    def _tracked_locals(self, body, oc_map):
        """locals whose value facts matter: results of calls with several outcomes, what is derived from them, and what flows into _0"""
        tracked = set()
        for (b, c) in body.calls:
            oc = oc_map.get(b)
            dst = c["dst"]
            if dst["p"]:
                continue
            if oc and len({o.ret for o in oc}) > 1:
                tracked.add(dst["l"])
        # flags: locals assigned a whole enum variant / boolean constant in two or more places (the Option / bool an extracted helper answers, once its body
        # has been inlined into the caller: `ret = Some(x)` with the lock held on one path, `ret = None` after the unlock on the other)
        for l, ds in body.defs.items():
            ds = [d for d in ds if d[0] in body.reachable]
            if len(ds) >= 2 and all(d[1] != "T" and (d[2][0] == "Agg" and d[2][1][0] == "Adt" or d[2][0] == "Use" and op_const(d[2][1]) is not None) for d in ds):
                tracked.add(l)
        # forward closure: copies, negations, discriminants, is_ok-style helpers
        changed = True
        while changed:
            changed = False
            for b in body.reachable:
                for st in body.stmts(b):
                    if st[0] != "A" or st[1]["p"]:
                        continue
                    rv = st[2]
                    src = None
                    if rv[0] == "Use": src = op_local(rv[1])
                    elif rv[0] == "Un": src = op_local(rv[2])
                    elif rv[0] == "Discr" and not rv[1]["p"]: src = rv[1]["l"]
                    if src in tracked and st[1]["l"] not in tracked:
                        tracked.add(st[1]["l"]); changed = True
                t = body.term(b)
                if t[0] == "Call" and (t[1].get("f") or "").endswith("ops::Try::branch") and t[1]["args"] and not t[1]["dst"]["p"]:
                    src = op_local(t[1]["args"][0]) if t[1]["args"][0][0] in ("c", "m") else None
                    if src in tracked and t[1]["dst"]["l"] not in tracked:
                        tracked.add(t[1]["dst"]["l"]); changed = True
                if t[0] == "Call" and R.result_helper(t[1]) and t[1]["args"] and not t[1]["dst"]["p"]:
                    src = self._referent_local(body, t[1]["args"][0])
                    if src in tracked and t[1]["dst"]["l"] not in tracked:
                        tracked.add(t[1]["dst"]["l"]); changed = True
        # backward closure from the return place
        f0 = {0}
        changed = True
        while changed:
            changed = False
            for b in body.reachable:
                for st in body.stmts(b):
                    if st[0] == "A" and not st[1]["p"] and st[1]["l"] in f0 and st[2][0] == "Use":
                        m = op_local(st[2][1])
                        if m is not None and m not in f0:
                            f0.add(m); changed = True
        return tracked | f0

    def _facts_kill(self, facts, l):
        return frozenset(f for f in facts if f[0] != l)

    def _stmt_facts(self, body, st, facts):
        if st[0] != "A":
            return facts
        dst = st[1]
        if dst["p"]:
            return facts
        l = dst["l"]
        rv = st[2]
        new = self._facts_kill(facts, l)
        k = rv[0]
        if k == "Agg" and rv[1][0] == "Adt":
            new = new | {(l, "variant", rv[1][3])}
        elif k == "Use":
            o = rv[1]
            c = op_const(o)
            if c is not None:
                if c.get("ty") == "bool" and "int" in c:
                    new = new | {(l, "bool", c["int"])}
            else:
                m = op_local(o)
                if m is not None:
                    new = new | {(l, f[1], f[2]) for f in facts if f[0] == m}
        elif k == "Un" and rv[1] == "Not":
            m = op_local(rv[2])
            if m is not None:
                new = new | {(l, "bool", 1 - f[2]) for f in facts if f[0] == m and f[1] == "bool"}
        elif k == "Discr":
            p = rv[1]
            if not p["p"]:
                new = new | {(l, "discr_of", p["l"])} | {(l, "int", f[2]) for f in facts if f[0] == p["l"] and f[1] == "variant"}
        return new

    def _apply(self, an, body, b, held, eff, where):
        held = set(held)
        for (sign, res) in eff:
            if sign == "+":
                if ("-", res) in held:
                    held.discard(("-", res))
                elif ("+", res) in held:
                    an.events.append(("double-acquire", b, res, where))
                else:
                    held.add(("+", res))
            else:
                if ("+", res) in held:
                    held.discard(("+", res))
                elif ("-", res) in held:
                    an.events.append(("double-release", b, res, where))
                else:
                    held.add(("-", res))
        return frozenset(held)

    def _rebase(self, eff, base, owner_key):
        out = set()
        for (sign, (kind, path)) in eff:
            if path and isinstance(path[0], str) and path[0].startswith("^"):
                # effect of a closure created by fn `path[0][1:]`: absolute in that fn's frame
                if path[0][1:] == owner_key:
                    out.add((sign, (kind, path[1:])))
                else:
                    out.add((sign, (kind, path)))
            else:
                bp = base if base is not None else ("?",)
                out.add((sign, (kind, tuple(bp) + tuple(path))))
        return out

    def _closure_of(self, body, o, binding, depth=0):
        """closure key an operand evaluates to (a closure aggregate defined here or a bound parameter)"""
        l = op_local(o)
        if l is None or depth > 10:
            return None
        if l in binding:
            return binding[l]
        d = body.single_def(l)
        if d is None:
            return None
        rv = d[2]
        if rv[0] == "Agg" and rv[1][0] in ("Closure", "Coroutine", "CoroutineClosure"):
            return rv[1][1]
        if rv[0] == "Use":
            return self._closure_of(body, rv[1], binding, depth + 1)
        if rv[0] == "Ref":
            p = rv[2]
            if not p["p"] or p["p"] == ["*"]:
                return self._closure_of(body, ["c", {"l": p["l"], "p": []}], binding, depth + 1)
        return None

    def call_outcomes(self, body, c, binding):
        """list of Outcome for a call, effects already expressed in the caller's frame; None = no effect known"""
        owner = body.f["owner_fn"]
        f = c.get("resolved") or c.get("f")
        args = c["args"]
        # 1. primitives from the role table
        prim = R.primitive(body, c)
        if prim is not None:
            outs = []
            for (ret, eff) in prim:
                e2 = set()
                for (sign, (kind, objarg)) in eff:
                    if objarg == -1:
                        path = access_path(body, args[0])
                        path = path[:-1] if path else path
                    else:
                        path = access_path(body, args[objarg]) if objarg is not None else ()
                    path = strip_env(path) if path is not None else ("?",)
                    e2.add((sign, (kind, tuple(path))))
                outs.append(Outcome(ret, e2))
            return outs
        # 2. indirect calls through Fn* traits on closures
        if f in ("std::ops::FnOnce::call_once", "std::ops::Fn::call", "std::ops::FnMut::call_mut") and args:
            k = self._closure_of(body, args[0], binding)
            if k:
                outs = self.outcomes_of(k, ())
                if outs is None:
                    return None
                kb = self.body(k)
                kowner = kb.f["owner_fn"] if kb else None
                res = []
                for o in outs:
                    if kowner == owner:
                        eff = o.eff
                    else:
                        eff = {(s, (kind, (("^" + kowner,) + tuple(p)) if not (p and str(p[0]).startswith("^")) else p)) for (s, (kind, p)) in o.eff}
                    res.append(Outcome(o.ret, eff))
                return res
            return None
        if f is None:
            return None
        # 3. crate-local function (possibly with closure arguments)
        targets = []
        if self.fx.fn_opt(f) is not None:
            targets = [f]
        elif c.get("trait") and c.get("fcrate") == self.fx.meta["crate"]:
            # class-hierarchy analysis: all impls of this trait method
            suffix = " as " + c["trait"] + "::" + c["fname"]
            targets = [k for k in self.fx.by_key if k.endswith(suffix)]
        if not targets:
            return None
        res = []
        seen = set()
        for t in targets:
            tb = self.body(t)
            if tb is None:
                continue
            # an `async fn`: its body only builds the coroutine; awaiting it runs `t::{closure#0}`
            bind = []
            for i, a in enumerate(args):
                k = self._closure_of(body, a, binding)
                if k:
                    bind.append((i + 1, k))
            outs = self.outcomes_of(t, tuple(bind))
            if outs is None:
                continue
            coro = self._async_body(tb)
            if coro:
                co = self.outcomes_of(coro, tuple())
                if co:
                    outs = co
            base = access_path(body, args[0]) if args else ()
            base = strip_env(base) if base is not None else None
            for o in outs:
                eff = self._rebase(o.eff, base, owner)
                kk = (o.ret, frozenset(eff))
                if kk not in seen:
                    seen.add(kk)
                    res.append(Outcome(o.ret, eff))
        return res or None

    def _async_body(self, tb):
        """if `tb` is the thin wrapper of an async fn, the key of its coroutine"""
        if tb.n > 3:
            return None
        for st in tb.stmts(0):
            if st[0] == "A" and st[2][0] == "Agg" and st[2][1][0] == "Coroutine" and not st[1]["p"] and st[1]["l"] == 0:
                return st[2][1][1]
        return None

    def _transfer(self, body, b, an, binding):
        outs = []
        t = body.term(b)
        k = t[0]
        for (held, facts) in list(an.state_in[b]):
            f2 = facts
            for st in body.stmts(b):
                f2 = self._stmt_facts(body, st, f2)
            if k == "Call":
                c = t[1]
                dst = c["dst"]
                dl = dst["l"] if not dst["p"] else None
                oc = an.oc_map.get(b)
                tgt = c["t"]
                # boolean / variant helpers on results
                helper = R.result_helper(c)
                if tgt is None:
                    continue
                base_facts = self._facts_kill(f2, dl) if dl is not None else f2
                if (c.get("f") or "").endswith("ops::Try::branch") and c["args"]:
                    # the `?` operator: `Try::branch(opt)` answers ControlFlow::Continue(v) for Some / Ok and Break(residual) for None / Err -- what is known about the
                    # operand's variant carries over to the answer's (a 'held iff Some' reservation stays correlated through `let (slot, len) = reserve()?;`)
                    src = op_local(c["args"][0]) if c["args"][0][0] in ("c", "m") else None
                    nf = base_facts
                    if src is not None and dl is not None:
                        is_opt = body.locals[src]["ty"].startswith("std::option::Option")
                        for fct in f2:
                            if fct[0] == src and fct[1] == "variant":
                                cont = (fct[2] == 1) if is_opt else (fct[2] == 0)
                                nf = nf | {(dl, "variant", 0 if cont else 1)}
                    outs.append((tgt, (held, nf)))
                    continue
                if helper and c["args"]:
                    src = self._referent_local(body, c["args"][0])
                    nf = base_facts
                    if src is not None and dl is not None:
                        for fct in f2:
                            if fct[0] == src and fct[1] == "variant":
                                nf = nf | {(dl, "bool", 1 if (fct[2] == helper[0]) == helper[1] else 0)}
                    outs.append((tgt, (held, nf)))
                    continue
                if not oc:
                    outs.append((tgt, (held, base_facts)))
                    continue
                for o in oc:
                    h2 = self._apply(an, body, b, held, o.eff, c.get("f"))
                    nf = base_facts
                    if o.ret is not None and dl is not None:
                        nf = nf | {(dl, o.ret[0], o.ret[1])}
                    outs.append((tgt, (h2, nf)))
            elif k == "Switch":
                subj = op_local(t[1])
                listed = [a[0] for a in t[2]]
                # what do we know about the subject?
                known = None      # concrete integer value
                link = None       # local whose variant is being tested
                if subj is not None:
                    for fct in f2:
                        if fct[0] == subj and fct[1] in ("bool", "int"):
                            known = fct[2]
                        if fct[0] == subj and fct[1] == "discr_of":
                            link = fct[2]
                for (v, tg) in t[2]:
                    if known is not None and known != v:
                        continue
                    nf = f2
                    if link is not None:
                        nf = self._facts_kill_kind(nf, link, "variant") | {(link, "variant", v)}
                    elif subj is not None and t[5] == "bool":
                        nf = nf | {(subj, "bool", v)}
                    outs.append((tg, (held, nf)))
                if not (known is not None and known in listed):
                    nf = f2
                    if t[5] == "bool" and len(listed) == 1 and subj is not None:
                        nf = nf | {(subj, "bool", 1 - listed[0])}
                    elif link is not None and len(listed) == 1 and listed[0] in (0, 1):
                        # two-variant enums (Option / Result / Poll): the other variant
                        if self._two_variants(body, link):
                            nf = self._facts_kill_kind(nf, link, "variant") | {(link, "variant", 1 - listed[0])}
                    outs.append((t[3], (held, nf)))
            elif k == "Return":
                ret = None
                for fct in f2:
                    if fct[0] == 0 and fct[1] in ("variant", "bool"):
                        ret = (fct[1], fct[2])
                an.outcomes.add((ret, held))
            elif k == "Yield":
                an.events.append(("yield", b, held, None))
                outs.append((t[2], (held, f2)))
            else:
                for s in body.succ(b):
                    outs.append((s, (held, f2)))
        return outs

    def _facts_kill_kind(self, facts, l, kind):
        return frozenset(f for f in facts if not (f[0] == l and f[1] == kind))

    def _two_variants(self, body, l):
        ty = body.locals[l]["head"]
        return ty in ("std::option::Option", "std::result::Result", "std::task::Poll")

    def _referent_local(self, body, o):
        l = op_local(o)
        if l is None:
            return None
        d = body.single_def(l)
        if d and d[2][0] == "Ref" and not d[2][2]["p"]:
            return d[2][2]["l"]
        if d and d[2][0] == "Use":
            return self._referent_local(body, d[2][1])
        return l
