"""MIR body wrapper: CFG, dominators, post-dominators, loops, reaching definitions, expression DAG, pretty printer."""
import functools

# ------------------------------------------------------------------------------------------ places / operands
def place_str(p):
    s = f"_{p['l']}"
    for e in p["p"]:
        if e == "*":
            s = f"(*{s})"
        elif e[0] == "f":
            s = f"{s}.{e[1]}"
        elif e[0] == "d":
            s = f"({s} as {e[1]})"
        elif e[0] == "i":
            s = f"{s}[_{e[1]}]"
        elif e[0] == "ci":
            s = f"{s}[{'-' if e[2] else ''}{e[1]}]"
        else:
            s = f"{s}[{e[1]}]"
    return s

def op_str(o):
    if o[0] in ("c", "m"):
        return ("move " if o[0] == "m" else "") + place_str(o[1])
    if o[0] == "k":
        k = o[1]
        return "const " + (k.get("fn") or k.get("uneval") or k["s"])
    return str(o[1])

def rv_str(rv):
    k = rv[0]
    if k == "Use": return op_str(rv[1])
    if k == "Bin": return f"{rv[1]}({op_str(rv[2])}, {op_str(rv[3])})"
    if k == "Un": return f"{rv[1]}({op_str(rv[2])})"
    if k == "Cast": return f"{op_str(rv[2])} as {rv[3]} [{rv[1]}]"
    if k == "Ref": return f"&{'mut ' if 'Mut' in rv[1] else ''}{place_str(rv[2])}"
    if k == "RawPtr": return f"&raw {rv[1]} {place_str(rv[2])}"
    if k == "Discr": return f"discriminant({place_str(rv[1])})"
    if k == "Repeat": return f"[{op_str(rv[1])}; {rv[2]}]"
    if k == "Agg":
        kind = rv[1]
        ops = ", ".join(op_str(o) for o in rv[2])
        if kind[0] == "Adt": return f"{kind[1].split('::')[-1]}::{kind[2]}{{{ops}}}"
        if kind[0] in ("Closure", "Coroutine", "CoroutineClosure"): return f"{kind[0]}<{kind[1]}>({ops})"
        return f"{kind[0]}({ops})"
    return str(rv)

def is_local(p, l=None):
    return not p["p"] and (l is None or p["l"] == l)

def op_place(o):
    return o[1] if o[0] in ("c", "m") else None

def op_local(o):
    """local id if the operand is a bare local"""
    p = op_place(o)
    return p["l"] if p is not None and not p["p"] else None

def op_const(o):
    return o[1] if o[0] == "k" else None

def op_int(o):
    k = op_const(o)
    return k.get("int") if k else None

def place_fields(p):
    return [e[1] for e in p["p"] if e != "*" and e[0] == "f"]


def _operands_of(rv):
    k = rv[0]
    if k == "Use": return [rv[1]]
    if k == "Bin": return [rv[2], rv[3]]
    if k in ("Un", "Cast"): return [rv[2]]
    if k == "Repeat": return [rv[1]]
    if k == "Agg": return list(rv[2])
    return []


import os as _os
_COV = bool(_os.environ.get("RM_COVERAGE"))
if _COV: import facts as _facts

class Body:
    def __init__(self, f):
        self.f = f
        self.key = f["key"]
        if _COV: _facts.BODIES.add(self.key)
        self.blocks = f["blocks"]
        self.n = len(self.blocks)
        self.locals = f["locals"]
        self._succ = [self._compute_succ(b) for b in self.blocks]
        self._pred = [[] for _ in range(self.n)]
        for i, ss in enumerate(self._succ):
            for s in ss:
                self._pred[s].append(i)

    # -------------------------------------------------------------------------------------- basics
    def term(self, b):
        return self.blocks[b]["term"]

    def stmts(self, b):
        return self.blocks[b]["stmts"]

    def _compute_succ(self, blk):
        t = blk["term"]
        k = t[0]
        if k == "Goto": return [t[1]]
        if k == "Switch": return list(dict.fromkeys([a[1] for a in t[2]] + [t[3]]))
        if k == "Call": return [t[1]["t"]] if t[1]["t"] is not None else []
        if k == "Drop": return [t[2]]
        if k == "Assert": return [t[4]]
        if k == "Yield": return [t[2]]
        if k == "FalseEdge": return [t[1]]
        if k == "FalseUnwind": return [t[1]]
        return []

    def succ(self, b): return self._succ[b]
    def pred(self, b): return self._pred[b]

    def loc(self, b, i=None):
        """file:line of a statement/terminator"""
        line = None
        if i is not None and i < len(self.stmts(b)):
            st = self.stmts(b)[i]
            if st[0] in ("A", "SD"): line = st[3]
        if line is None:
            t = self.term(b)
            if t[0] == "Call": line = t[1]["line"]
            elif t[0] == "Switch": line = t[4]
            elif t[0] in ("Drop",): line = t[4]
            elif t[0] in ("Assert", "Yield"): line = t[5]
        return f"{self.f['file']}:{line if line else self.f['line']}"

    def lname(self, l):
        n = self.locals[l].get("name")
        return n if n else f"_{l}"

    # -------------------------------------------------------------------------------------- reachability
    @functools.cached_property
    def reachable(self):
        seen = {0}
        st = [0]
        while st:
            b = st.pop()
            for s in self.succ(b):
                if s not in seen:
                    seen.add(s); st.append(s)
        return seen

    def reach_from(self, b, avoid=frozenset()):
        """blocks reachable from b (b itself included only if on a cycle... we include b's successors closure)"""
        seen = set()
        st = [s for s in self.succ(b) if s not in avoid]
        while st:
            x = st.pop()
            if x in seen: continue
            seen.add(x)
            for s in self.succ(x):
                if s not in seen and s not in avoid: st.append(s)
        return seen

    @functools.cached_property
    def returns(self):
        return [b for b in self.reachable if self.term(b)[0] == "Return"]

    @functools.cached_property
    def diverging(self):
        """reachable non-cleanup blocks with no normal successor that are not Return: calls to panics (`!`), Unreachable"""
        return [b for b in self.reachable if not self.succ(b) and self.term(b)[0] != "Return" and not self.blocks[b]["cleanup"]]

    @functools.cached_property
    def can_return(self):
        """blocks from which a Return is reachable (normal edges)"""
        seen = set(self.returns)
        st = list(seen)
        while st:
            b = st.pop()
            for p in self.pred(b):
                if p not in seen:
                    seen.add(p); st.append(p)
        return seen

    # -------------------------------------------------------------------------------------- dominators
    @functools.cached_property
    def dom(self):
        """dom[b] = set of dominators of b (over reachable blocks, entry 0)"""
        R = sorted(self.reachable)
        dom = {b: set(R) for b in R}
        dom[0] = {0}
        order = self.rpo
        changed = True
        while changed:
            changed = False
            for b in order:
                if b == 0: continue
                ps = [p for p in self.pred(b) if p in dom]
                new = set.intersection(*(dom[p] for p in ps)) if ps else set()
                new = new | {b}
                if new != dom[b]:
                    dom[b] = new; changed = True
        return dom

    @functools.cached_property
    def rpo(self):
        seen = set(); out = []
        def dfs(b):
            stack = [(b, iter(self.succ(b)))]
            seen.add(b)
            while stack:
                x, it = stack[-1]
                adv = False
                for s in it:
                    if s not in seen:
                        seen.add(s); stack.append((s, iter(self.succ(s)))); adv = True; break
                if not adv:
                    out.append(x); stack.pop()
        dfs(0)
        return out[::-1]

    def dominates(self, a, b):
        return b in self.dom and a in self.dom[b]

    @functools.cached_property
    def pdom(self):
        """post-dominators w.r.t. normal exits = Return blocks only (diverging paths are exempt: blocks that cannot
        reach a Return are left out).  pdom[b] = set of blocks on every path from b to a Return."""
        R = [b for b in self.reachable if b in self.can_return]
        pd = {b: set(R) for b in R}
        for r in self.returns: pd[r] = {r}
        changed = True
        while changed:
            changed = False
            for b in reversed(self.rpo):
                if b not in pd or self.term(b)[0] == "Return": continue
                ss = [s for s in self.succ(b) if s in pd]
                new = set.intersection(*(pd[s] for s in ss)) if ss else set()
                new = new | {b}
                if new != pd[b]:
                    pd[b] = new; changed = True
        return pd

    def postdominates(self, a, b):
        """a is on every path from b to a Return"""
        return b in self.pdom and a in self.pdom[b]

    # -------------------------------------------------------------------------------------- loops
    @functools.cached_property
    def back_edges(self):
        return [(b, s) for b in self.reachable for s in self.succ(b) if self.dominates(s, b)]

    @functools.cached_property
    def loops(self):
        """natural loops: header -> set of blocks"""
        loops = {}
        for (t, h) in self.back_edges:
            body = {h, t}
            st = [t]
            while st:
                x = st.pop()
                if x == h: continue
                for p in self.pred(x):
                    if p not in body and p in self.reachable:
                        body.add(p); st.append(p)
            loops.setdefault(h, set()).update(body)
        return loops

    def loop_exits(self, h):
        body = self.loops[h]
        return [(b, s) for b in body for s in self.succ(b) if s not in body]

    # -------------------------------------------------------------------------------------- definitions
    @functools.cached_property
    def defs(self):
        """local -> list of (block, idx, rvalue-or-call)   idx = stmt index or 'T' for the terminator (call dest / yield resume)"""
        d = {}
        for b in range(self.n):
            for i, st in enumerate(self.stmts(b)):
                if st[0] == "A" and not st[1]["p"]:
                    d.setdefault(st[1]["l"], []).append((b, i, st[2]))
            t = self.term(b)
            if t[0] == "Call" and not t[1]["dst"]["p"]:
                d.setdefault(t[1]["dst"]["l"], []).append((b, "T", ["CallRes", t[1]]))
            if t[0] == "Yield" and not t[3]["p"]:
                d.setdefault(t[3]["l"], []).append((b, "T", ["YieldRes"]))
        return d

    def partial_writes(self, l):
        """assignments to projections of local l (e.g. `_5.0 = ..`)"""
        out = []
        for b in range(self.n):
            for i, st in enumerate(self.stmts(b)):
                if st[0] == "A" and st[1]["l"] == l and st[1]["p"]:
                    out.append((b, i, st))
        return out

    def single_def(self, l):
        ds = [d for d in self.defs.get(l, []) if d[0] in self.reachable]
        return ds[0] if len(ds) == 1 else None

    # -------------------------------------------------------------------------------------- move state
    def maybe_init_at_term(self, l):
        """blocks at whose terminator local `l` may still be initialised (forward may-analysis over whole-local moves).
        mir_built keeps `drop(x)` terminators for values that were moved out; those drops are no-ops."""
        def stmt_effect(st, cur):
            if st[0] != "A": return cur
            for o in _operands_of(st[2]):
                if o[0] == "m" and not o[1]["p"] and o[1]["l"] == l: cur = False
            if not st[1]["p"] and st[1]["l"] == l: cur = True
            return cur
        init_in = {0: (1 <= l <= self.f["argc"])}
        out = {}
        work = [0]
        while work:
            b = work.pop()
            cur = init_in[b]
            for st in self.stmts(b):
                cur = stmt_effect(st, cur)
            at_term = cur
            t = self.term(b)
            if t[0] == "Call":
                for a in t[1]["args"]:
                    if a[0] == "m" and not a[1]["p"] and a[1]["l"] == l: cur = False
                at_term = cur if False else at_term
                if not t[1]["dst"]["p"] and t[1]["dst"]["l"] == l: cur = True
            elif t[0] == "Drop" and not t[1]["p"] and t[1]["l"] == l:
                cur = False
            elif t[0] == "Yield" and t[1][0] == "m" and not t[1][1]["p"] and t[1][1]["l"] == l:
                cur = False
            out[b] = out.get(b, False) or at_term
            for s in self.succ(b):
                if s not in init_in or (cur and not init_in[s]):
                    init_in[s] = init_in.get(s, False) or cur
                    work.append(s)
        return {b for b, v in out.items() if v}

    def live_drops(self, l):
        """Drop terminators of local l (whole) that can actually run a destructor"""
        mi = self.maybe_init_at_term(l)
        return [b for b in self.reachable if self.term(b)[0] == "Drop" and not self.term(b)[1]["p"] and self.term(b)[1]["l"] == l and b in mi]

    # -------------------------------------------------------------------------------------- calls
    @functools.cached_property
    def calls(self):
        """list of (block, callinfo) for reachable Call terminators"""
        return [(b, self.term(b)[1]) for b in sorted(self.reachable) if self.term(b)[0] == "Call"]

    def calls_to(self, pred):
        if isinstance(pred, str):
            name = pred
            pred = lambda c: c.get("f") == name or c.get("resolved") == name
        return [(b, c) for (b, c) in self.calls if pred(c)]

    # -------------------------------------------------------------------------------------- printing
    def dump(self):
        f = self.f
        out = [f"fn {f['key']}   [{f['kind']}{' coroutine' if f.get('is_coroutine') else ''}] {f['file']}:{f['line']}-{f['end_line']}"]
        if f.get("captures"): out.append(f"  captures: {f['captures']}")
        for i, l in enumerate(self.locals):
            out.append(f"  let _{i}: {l['ty']}" + (f"   // {l['name']}" if l.get("name") else ""))
        for b in range(self.n):
            blk = self.blocks[b]
            out.append(f"  bb{b}{' (cleanup)' if blk['cleanup'] else ''}:" + ("" if b in self.reachable else "  // unreachable"))
            for st in blk["stmts"]:
                if st[0] == "A": out.append(f"    {place_str(st[1])} = {rv_str(st[2])};   // L{st[3]}")
                elif st[0] == "SD": out.append(f"    discriminant({place_str(st[1])}) = {st[2]};")
                elif st[0] == "Intr": out.append(f"    intrinsic {st[1]}")
            t = blk["term"]
            k = t[0]
            if k == "Call":
                c = t[1]
                callee = c.get("f") or ("<indirect " + op_str(c["indirect"]) + ": " + c.get("indirect_ty", "") + ">")
                if c.get("resolved"): callee += f" => {c['resolved']}"
                args = ", ".join(op_str(a) for a in c["args"])
                out.append(f"    {place_str(c['dst'])} = {callee}({args}) -> bb{c['t']} unwind {c['uw']};   // L{c['line']}{' exp' if c['exp'] else ''}")
            elif k == "Switch":
                arms = ", ".join(f"{a[0]}: bb{a[1]}" for a in t[2])
                out.append(f"    switchInt({op_str(t[1])}: {t[5]}) -> [{arms}, otherwise: bb{t[3]}];   // L{t[4]}")
            elif k == "Drop": out.append(f"    drop({place_str(t[1])}: {t[5]}) -> bb{t[2]} unwind {t[3]};")
            elif k == "Assert": out.append(f"    assert({op_str(t[1])} == {t[2]}, {t[3]}) -> bb{t[4]};")
            elif k == "Yield": out.append(f"    {place_str(t[3])} = yield({op_str(t[1])}) -> bb{t[2]} drop {t[4]};   // L{t[5]}")
            elif k in ("Goto",): out.append(f"    goto -> bb{t[1]};")
            elif k == "FalseEdge": out.append(f"    falseEdge -> bb{t[1]} (imaginary bb{t[2]});")
            elif k == "FalseUnwind": out.append(f"    falseUnwind -> bb{t[1]};")
            else: out.append(f"    {k};")
        return "\n".join(out)
