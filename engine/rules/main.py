import sys, os, time, json
import facts as F
import mir

def cmd_dump(args):
    fx, cached, secs = F.load(os.environ.get("RM_CONFIG", "lib"))
    pat = args[0]
    hits = [f for f in fx.fns if pat in f["key"]]
    if len(args) > 1 and args[1] == "-l":
        for f in hits: print(f["key"], f["file"], f["line"], len(f["blocks"]))
        return 0
    for f in hits:
        print(mir.Body(f).dump()); print()
    return 0

def cmd_ts(args):
    import ts
    fx, cached, secs = F.load(os.environ.get("RM_CONFIG", "lib"))
    eng = ts.Engine(fx)
    for f in fx.fns:
        if args[0] in f["key"]:
            an = eng.analyse(f["key"])
            outs = sorted((str(r), sorted((s_, k, ".".join(p)) for (s_, (k, p)) in e)) for (r, e) in an.outcomes)
            ev = [(e[0], e[1], str(e[2])[:80]) for e in an.events if e[0] != "yield"]
            print(f["key"], "\n    outcomes:", outs, ("\n    events: %s" % ev) if ev else "", ("UNDECIDED " + an.undecided) if an.undecided else "")
    return 0

def main(argv):
    if not argv:
        print("usage: check <Cxx>|dump <pat>|all [--tier quick|thorough]"); return 2
    if argv[0] == "dump":
        return cmd_dump(argv[1:])
    if argv[0] == "selftest":
        import selftest
        return selftest.main(argv[1:])
    if argv[0] == "guards":
        import dag
        fx, cached, secs = F.load(os.environ.get("RM_CONFIG", "lib"))
        for f in fx.fns:
            if argv[1] in f["key"]:
                b = mir.Body(f); d = dag.Dag(b)
                print(f["key"])
                for blk in sorted(b.reachable):
                    c = dag.cmp_of_switch(b, d, blk)
                    if c: print(f"   bb{blk}: {dag.show(c[1])} {c[0]} {dag.show(c[2])}   T->bb{c[3]} F->bb{c[4]}   {b.loc(blk)}")
                    t = b.term(blk)
                    if t[0] == "Call" and (t[1].get("f") or "").startswith("std::sync::atomic::Atomic::"):
                        print(f"   bb{blk}: {dag.show(d.rvalue((blk,'T',['CallRes',t[1]]),0))}   {b.loc(blk)}")
        return 0
    if argv[0] == "ts":
        return cmd_ts(argv[1:])
    import runner
    return runner.run(argv)
