"""Checker self-test: applies each mutant of /verif/mutants/*.json to a scratch copy of /repo (never /repo itself), confirms the
mutated tree still type-checks (the facts driver runs `cargo check`), runs the property's rules on it and requires a VIOLATION
whose rule id is the expected one.  Scratch copies live under a mktemp dir outside /repo and /verif and are removed."""
import glob, json, os, shutil, subprocess, sys, tempfile, time

VERIF = os.path.dirname(os.path.dirname(os.path.dirname(os.path.abspath(__file__))))

def load_mutants(pid=None):
    out = []
    for p in sorted(glob.glob(os.path.join(VERIF, "mutants", "*.json"))):
        for m in json.load(open(p)):
            if "property" not in m: continue      # benign.json: behaviour-preserving refactors (tools/run_benign.py)
            if pid is None or m["property"] == pid:
                out.append(m)
    return out

def make_scratch():
    d = tempfile.mkdtemp(prefix="rm-mut-")
    repo = os.path.join(d, "repo")
    os.makedirs(repo)
    for f in ("src", "Cargo.toml", "Cargo.lock", "README.md", "benches", "examples", "tests"):
        s = os.path.join("/repo", f)
        if os.path.isdir(s): shutil.copytree(s, os.path.join(repo, f))
        elif os.path.exists(s): shutil.copy(s, os.path.join(repo, f))
    return d, repo

def apply(repo, m):
    edits = m.get("edits") or [{"file": m["file"], "old": m["old"], "new": m["new"], "nth": m.get("nth", 0)}]
    for e in edits:
        p = os.path.join(repo, e["file"])
        s = open(p).read()
        cnt = s.count(e["old"])
        nth = e.get("nth", 0)
        if cnt == 0 or (cnt > 1 and "nth" not in e and not e.get("all")):
            raise RuntimeError(f"mutant {m['id']}: `old` occurs {cnt} times in {e['file']}")
        if e.get("all"):
            s = s.replace(e["old"], e["new"])
        else:
            idx = -1
            for _ in range(nth + 1):
                idx = s.index(e["old"], idx + 1)
            s = s[:idx] + e["new"] + s[idx + len(e["old"]):]
        open(p, "w").write(s)

def run_one(m, keep=False):
    d, repo = make_scratch()
    try:
        apply(repo, m)
        env = dict(os.environ, RM_REPO=repo, RM_EVID=os.path.join(d, "evidence"))
        r = subprocess.run([os.path.join(VERIF, "check"), m["property"]], stdout=subprocess.PIPE, stderr=subprocess.STDOUT, text=True, env=env)
        out = r.stdout
        viol = [l for l in out.splitlines() if l.strip().startswith("violation:")]
        rules = {l.split("rule=")[1].split()[0] for l in viol}
        exp = m.get("expect_rule")
        if "INFRA-ERROR" in out:
            status = "INFRA"
        elif r.returncode == 1 and "VIOLATION property=" in out and (exp is None or any(x.startswith(exp) for x in rules)):
            status = "CAUGHT"
        elif r.returncode == 1:
            status = "CAUGHT-OTHER-RULE"
        else:
            status = "MISSED"
        return status, sorted(rules), out
    finally:
        if not keep: shutil.rmtree(d, ignore_errors=True)

def main(argv):
    pid = argv[0] if argv and argv[0].startswith("C") else None
    only = argv[1] if len(argv) > 1 else None
    ms = [m for m in load_mutants(pid) if only is None or m["id"] == only]
    bad = 0
    t0 = time.time()
    for m in ms:
        try:
            status, rules, out = run_one(m)
        except Exception as e:
            status, rules, out = "ERROR", [], str(e)
        ok = status == "CAUGHT"
        if not ok: bad += 1
        print(f"{'ok ' if ok else 'BAD'} {m['id']:<34} {status:<18} expect={m.get('expect_rule')} got={rules}")
        if not ok and os.environ.get("SELFTEST_VERBOSE"):
            print(out[-3000:])
    print(f"selftest: {len(ms)} mutants, {len(ms)-bad} caught by the expected rule, {bad} not; {time.time()-t0:.0f}s")
    return 1 if bad else 0
