"""small helpers shared by the property modules"""
import dag as D
from mir import op_local, op_place

def calls_named(body, *names, pred=None):
    return [(b, c) for (b, c) in body.calls if c.get("fname") in names and (pred is None or pred(c))]

def in_loop(body, b):
    return any(b in blocks for blocks in body.loops.values())

def all_dominated(body, blocks, d):
    return all(body.dominates(d, b) for b in blocks)

def on_every_return_path(body, b):
    """block b is executed on every non-diverging path from entry to a return (post-dominates the entry)"""
    return body.postdominates(b, 0)

def eq_const_edge(body, dag, subject_pred, const):
    """finds switches that test `subject == const` (Eq / Ne, either operand order): list of (switch block, eq_target, ne_target, subject expr)"""
    out = []
    for b in sorted(body.reachable):
        c = D.cmp_of_switch(body, dag, b)
        if not c: continue
        op, x, y, tt, ft = c
        if op not in ("Eq", "Ne"): continue
        xs, ys = D.strip_casts(x), D.strip_casts(y)
        subj = None
        isk = const if callable(const) else (lambda e: e == ("const", const))
        if isk(ys) and subject_pred(xs): subj = xs
        elif isk(xs) and subject_pred(ys): subj = ys
        if subj is None: continue
        eq_t, ne_t = (tt, ft) if op == "Eq" else (ft, tt)
        out.append((b, eq_t, ne_t, subj))
    return out

def variant_edges(body, b):
    """for `switchInt(discriminant(x))` at block b: (local x, {variant idx: target}, otherwise)"""
    t = body.term(b)
    if t[0] != "Switch": return None
    l = op_local(t[1])
    if l is None: return None
    d = body.single_def(l)
    if not d or d[2][0] != "Discr" or d[2][1]["p"]: return None
    return (d[2][1]["l"], {v: tg for (v, tg) in t[2]}, t[3])

def count_on_paths(body, is_event, start=0, stop_blocks=()):
    """min and max number of event blocks on acyclic paths from `start` to a Return (back edges not followed).
    Returns (min, max, event_in_loop: bool)"""
    back = set(body.back_edges)
    memo = {}
    def go(b):
        if b in memo: return memo[b]
        memo[b] = None  # cycle guard
        e = 1 if is_event(b) else 0
        succ = [s for s in body.succ(b) if (b, s) not in back and s not in stop_blocks]
        succ = [s for s in succ if s in body.can_return]
        if body.term(b)[0] == "Return":
            r = (e, e)
        else:
            # a block whose only way on is a back edge (await / retry loops) ends no path of its own
            rs = [x for x in (go(s) for s in succ) if x is not None]
            r = (e + min(x[0] for x in rs), e + max(x[1] for x in rs)) if rs else None
        memo[b] = r
        return r
    mn, mx = go(start) or (0, 0)
    loop = any(is_event(b) and in_loop(body, b) for b in body.reachable)
    return mn, mx, loop

def arg_path(body, c, i):
    import ts
    p = ts.access_path(body, c["args"][i]) if i < len(c["args"]) else None
    return ts.strip_env(p) if p is not None else None


def count_per_iteration(body, header, is_event):
    """min / max number of event blocks on the forward paths of ONE iteration of the natural loop `header`
    (from the header to a back edge into it; paths leaving the loop are not iterations).  Inner loops: back edges not followed."""
    blocks = body.loops[header]
    back = set(body.back_edges)
    memo = {}
    def go(b):
        if b in memo: return memo[b]
        memo[b] = None
        e = 1 if is_event(b) else 0
        res = []
        for s_ in body.succ(b):
            if s_ == header and (b, s_) in back:
                res.append((0, 0)); continue
            if (b, s_) in back or s_ not in blocks: continue
            r = go(s_)
            if r is not None: res.append(r)
        r = (e + min(x[0] for x in res), e + max(x[1] for x in res)) if res else None
        memo[b] = r
        return r
    return go(header) or (0, 0)


def variant_switch(body, dag, b):
    """for `switchInt(discriminant(<place>))` at block b: (subject expression of the place, {variant idx: target}, otherwise, local, projection)"""
    t = body.term(b)
    if t[0] != "Switch": return None
    l = op_local(t[1])
    if l is None: return None
    d = body.single_def(l)
    if not d or d[2][0] != "Discr": return None
    pl = d[2][1]
    return (dag.place(pl), {v: tg for (v, tg) in t[2]}, t[3], pl["l"], pl["p"])


class PrefixedCtx:
    """adapter: lets one property module re-use another module's rules under its own rule id (obligation keys keep the original rule name inside)"""
    def __init__(self, ctx, prefix):
        self._c = ctx; self._p = prefix
        self.fx = ctx.fx; self.tier = ctx.tier; self.config = ctx.config; self.pid = ctx.pid
    def ob(self, rule, key, ok, site="", detail="", nontrivial=True, undecided=False):
        return self._c.ob(self._p, f"{rule}|{key}", ok, site, detail, nontrivial, undecided)
    def undecided(self, rule, key, site="", detail=""):
        return self._c.undecided(self._p, f"{rule}|{key}", site, detail)
    def floor(self, rule, minimum): pass
    def note(self, s): self._c.note(s)
    def assume(self, s): self._c.assume(s)
    def body(self, key): return self._c.body(key)
    def body_of(self, f): return self._c.body_of(f)
