"""small helpers shared by the property modules"""
import dag as D
from mir import op_local, op_place

def calls_named(body, *names, pred=None):
    return [(b, c) for (b, c) in body.calls if c.get("fname") in names and (pred is None or pred(c))]

def in_loop(body, b):
    return any(b in blocks for blocks in body.loops.values())

def all_dominated(body, blocks, d):
    return all(body.dominates(d, b) for b in blocks)

def on_every_return_path(body, b):
    """block b is executed on every non-diverging path from entry to a return (post-dominates the entry)"""
    return body.postdominates(b, 0)

def eq_const_edge(body, dag, subject_pred, const):
    """finds switches that test `subject == const` (Eq / Ne, either operand order): list of (switch block, eq_target, ne_target, subject expr)"""
    out = []
    for b in sorted(body.reachable):
        c = D.cmp_of_switch(body, dag, b)
        if not c: continue
        op, x, y, tt, ft = c
        if op not in ("Eq", "Ne"): continue
        xs, ys = D.strip_casts(x), D.strip_casts(y)
        subj = None
        isk = const if callable(const) else (lambda e: e == ("const", const))
        if isk(ys) and subject_pred(xs): subj = xs
        elif isk(xs) and subject_pred(ys): subj = ys
        if subj is None: continue
        eq_t, ne_t = (tt, ft) if op == "Eq" else (ft, tt)
        out.append((b, eq_t, ne_t, subj))
    return out

def variant_edges(body, b):
    """for `switchInt(discriminant(x))` at block b: (local x, {variant idx: target}, otherwise)"""
    t = body.term(b)
    if t[0] != "Switch": return None
    l = op_local(t[1])
    if l is None: return None
    d = body.single_def(l)
    if not d or d[2][0] != "Discr" or d[2][1]["p"]: return None
    return (d[2][1]["l"], {v: tg for (v, tg) in t[2]}, t[3])

def count_on_paths(body, is_event, start=0, stop_blocks=()):
    """min and max number of event blocks on acyclic paths from `start` to a Return (back edges not followed).
    Returns (min, max, event_in_loop: bool)"""
    back = set(body.back_edges)
    memo = {}
    def go(b):
        if b in memo: return memo[b]
        memo[b] = None  # cycle guard
        e = 1 if is_event(b) else 0
        succ = [s for s in body.succ(b) if (b, s) not in back and s not in stop_blocks]
        succ = [s for s in succ if s in body.can_return]
        if body.term(b)[0] == "Return":
            r = (e, e)
        else:
            # a block whose only way on is a back edge (await / retry loops) ends no path of its own
            rs = [x for x in (go(s) for s in succ) if x is not None]
            r = (e + min(x[0] for x in rs), e + max(x[1] for x in rs)) if rs else None
        memo[b] = r
        return r
    mn, mx = go(start) or (0, 0)
    loop = any(is_event(b) and in_loop(body, b) for b in body.reachable)
    return mn, mx, loop

def arg_path(body, c, i):
    import ts
    p = ts.access_path(body, c["args"][i]) if i < len(c["args"]) else None
    return ts.strip_env(p) if p is not None else None


def count_per_iteration(body, header, is_event):
    """min / max number of event blocks on the forward paths of ONE iteration of the natural loop `header`
    (from the header to a back edge into it; paths leaving the loop are not iterations).  Inner loops: back edges not followed."""
    blocks = body.loops[header]
    back = set(body.back_edges)
    memo = {}
    def go(b):
        if b in memo: return memo[b]
        memo[b] = None
        e = 1 if is_event(b) else 0
        res = []
        for s_ in body.succ(b):
            if s_ == header and (b, s_) in back:
                res.append((0, 0)); continue
            if (b, s_) in back or s_ not in blocks: continue
            r = go(s_)
            if r is not None: res.append(r)
        r = (e + min(x[0] for x in res), e + max(x[1] for x in res)) if res else None
        memo[b] = r
        return r
    return go(header) or (0, 0)


def variant_switch(body, dag, b):
    """for `switchInt(discriminant(<place>))` at block b: (subject expression of the place, {variant idx: target}, otherwise, local, projection)"""
    t = body.term(b)
    if t[0] != "Switch": return None
    l = op_local(t[1])
    if l is None: return None
    d = body.single_def(l)
    if not d or d[2][0] != "Discr": return None
    pl = d[2][1]
    return (dag.place(pl), {v: tg for (v, tg) in t[2]}, t[3], pl["l"], pl["p"])


class PrefixedCtx:
    """adapter: lets one property module re-use another module's rules under its own rule id (obligation keys keep the original rule name inside)"""
    def __init__(self, ctx, prefix):
        self._c = ctx; self._p = prefix
        self.fx = ctx.fx; self.tier = ctx.tier; self.config = ctx.config; self.pid = ctx.pid
    def ob(self, rule, key, ok, site="", detail="", nontrivial=True, undecided=False):
        return self._c.ob(self._p, f"{rule}|{key}", ok, site, detail, nontrivial, undecided)
    def undecided(self, rule, key, site="", detail=""):
        return self._c.undecided(self._p, f"{rule}|{key}", site, detail)
    def floor(self, rule, minimum): pass
    def note(self, s): self._c.note(s)
    def assume(self, s): self._c.assume(s)
    def body(self, key): return self._c.body(key)
    def body_of(self, f): return self._c.body_of(f)


def guarded(ctx, fn, *args):
    """runs an imported property's rules; an anchor / role problem inside them is deferred (fail closed at the end unless this property's own rules report a violation)"""
    import facts as F
    try:
        return fn(*args)
    except F.InfraError as e:
        base = ctx
        while isinstance(base, PrefixedCtx): base = base._c
        base.defer_infra(str(e))
        return None


def fresh_ctx(ctx, pid=None):
    """an empty context of the runner's own class (for running another property's rules aside and importing some of their obligations)"""
    while isinstance(ctx, PrefixedCtx): ctx = ctx._c
    return type(ctx)(pid or ctx.pid, ctx.fx, ctx.tier, ctx.config)


def arm(arms, other, k):
    """target of variant k of a two-variant enum switch: listed arm, else the `otherwise` edge"""
    return arms.get(k, other)


def copies_of(body, l):
    """l and every local that is (transitively) a single-definition whole copy / move of it (`dst = move ret` left behind by an inlined helper)"""
    out = {l}
    changed = True
    while changed:
        changed = False
        for x, ds in body.defs.items():
            if x in out: continue
            ds = [d for d in ds if d[0] in body.reachable]
            if len(ds) == 1 and ds[0][1] != "T" and ds[0][2][0] == "Use" and op_local(ds[0][2][1]) in out:
                out.add(x); changed = True
    return out


def option_test_edges(body, dag, result_local):
    """all tests of an Option / Result held in `result_local`: list of (block, has_value_target, empty_target).
    Recognises `match` (discriminant switch, either arm possibly being `otherwise`) and is_some / is_none / is_ok / is_err boolean tests."""
    out = []
    ty = body.locals[result_local]["ty"]
    value_variant = 0 if ty.startswith("std::result::Result") else 1
    same_value = copies_of(body, result_local)
    for b in sorted(body.reachable):
        vs = variant_switch(body, dag, b)
        if vs and vs[3] in same_value and not vs[4]:
            out.append((b, vs[1].get(value_variant, vs[2]), vs[1].get(1 - value_variant, vs[2]))); continue
        t = body.term(b)
        if t[0] == "Switch" and t[5] == "bool":
            e = dag.expr(t[1]); neg = False
            while e[0] == "un" and e[1] == "Not": e = e[2]; neg = not neg
            if e[0] == "call" and e[1].split("::")[-1] in ("is_some", "is_ok", "is_none", "is_err") and len(e[2]) == 1:
                a = D.strip_casts(e[2][0])
                d = body.single_def(result_local)
                same = (a[0] == "ref?" and a[1] in (f"_{result_local}", f"(*_{result_local})")) or (d is not None and a == dag.rvalue(d, 0)) or \
                       (a[0] == "call" and d is not None and d[2][0] == "CallRes" and len(a) > 3 and a[3] == d[0])
                if not same: continue
                zero = [tg for (v, tg) in t[2] if v == 0]
                if not zero: continue
                truthy_has_value = e[1].split("::")[-1] in ("is_some", "is_ok")
                if neg: truthy_has_value = not truthy_has_value
                out.append((b, t[3], zero[0]) if truthy_has_value else (b, zero[0], t[3]))
    return out


def bool_test_edges(body, dag, result_local, def_block=None):
    """tests of a boolean call result held in `result_local` (possibly through copies / negations): list of (block, target when true, target when false)"""
    out = []
    same = copies_of(body, result_local)
    for b in sorted(body.reachable):
        t = body.term(b)
        if t[0] != "Switch" or t[5] != "bool": continue
        e = dag.expr(t[1]); neg = False
        while e[0] == "un" and e[1] == "Not": e = e[2]; neg = not neg
        l = op_local(t[1])
        hit = False
        if e[0] == "call" and len(e) > 3 and def_block is not None and e[3] == def_block and body.term(def_block)[1]["dst"]["l"] == result_local: hit = True
        if not neg and l in same: hit = True
        if not hit: continue
        zero = [tg for (v, tg) in t[2] if v == 0]
        if not zero: continue
        out.append((b, zero[0], t[3]) if neg else (b, t[3], zero[0]))
    return out


def flag_paths(body, dag, start, stop_blocks=(), cut=None, follow_back=True, visit=None):
    """Path exploration that understands flags: blocks reachable from `start` without entering `stop_blocks`, where
      * an edge is pruned when it contradicts the value last assigned to the tested flag on that path
        (`let must = match .. { A => true, B => !f() }; if must {..}`: the false edge is infeasible after the `true` arm;
         `let r = if c { Some(x) } else { None }; match r {..}`: the None arm is infeasible after the `Some` assignment -- the shape an extracted / inlined
         helper that answers an Option leaves behind), and
      * `cut(facts)` is asked for every remaining edge of a boolean switch with facts = [(expression, truth)] implied by taking it
        (the tested value with its negations peeled, read through the flag when the switch tests a flag) and ends the path there when it answers True.
    A flag is a local assigned as a whole in two or more places; single-definition copies of it (`_t = move flag`, `_d = discriminant(_t)`) are read through.
    States are (block, last definition of each flag)."""
    from mir import op_local
    cut = cut or (lambda facts: False)
    # (a definition by a call's return value -- `done = cas.is_ok()` on one arm, `done = true` on the other -- is recorded as (block, "T"))
    flags = {l for l, ds in body.defs.items() if len([d for d in ds if d[0] in body.reachable]) >= 2 and all(d[1] != "T" or body.term(d[0])[0] == "Call" for d in ds)}
    def rv_of(db, di):
        return ["CallRes", body.term(db)[1]] if di == "T" else body.stmts(db)[di][2]
    back = set(body.back_edges) if not follow_back else set()
    def peel(e):
        neg = False
        while isinstance(e, tuple) and e and e[0] == "un" and e[1] == "Not":
            e = e[2]; neg = not neg
        return e, neg
    def constval(e):
        if isinstance(e, tuple) and e and e[0] == "const":
            if e[1] in (0, 1, True, False): return bool(e[1])
            if str(e[1]) in ("true", "false"): return str(e[1]) == "true"
        return None
    def resolve(l):
        """follows single-definition copies / discriminant reads back to a flag: (flag local or None, through_discriminant)"""
        disc = False
        for _ in range(12):
            if l is None or l in flags: return l, disc
            d = body.single_def(l)
            if d is None or d[1] == "T": return None, disc
            rv = d[2]
            if rv[0] == "Use" and rv[1][0] in ("c", "m") and not rv[1][1]["p"]: l = rv[1][1]["l"]
            elif rv[0] == "Discr" and not rv[1]["p"] and not disc: l = rv[1]["l"]; disc = True
            else: return None, disc
        return None, disc
    def through_try(l):
        """`x?`: the switch tests discriminant(Try::branch(x)); ControlFlow::Continue = 0 / Break = 1 map onto x's variants (Option: Some=1 / None=0, Result: Ok=0 / Err=1).
        Returns (local of x, {controlflow idx: x's variant idx}) or None"""
        d = body.single_def(l) if l is not None else None
        if d is None or d[2][0] != "Discr" or d[2][1]["p"]: return None
        d2 = body.single_def(d[2][1]["l"])
        if d2 is None or d2[2][0] != "CallRes" or not (d2[2][1].get("f") or "").endswith("Try::branch") or not d2[2][1]["args"]: return None
        x = op_local(d2[2][1]["args"][0])
        if x is None: return None
        ty = body.locals[x]["ty"]
        return (x, {0: 1, 1: 0} if ty.startswith("std::option::Option") else {0: 0, 1: 1})
    seen = set(); reached = set()
    st = [(start, ())]
    while st:
        b, envt = st.pop()
        if (b, envt) in seen or b in stop_blocks: continue
        seen.add((b, envt)); reached.add(b)
        env = dict(envt)
        for i, s_ in enumerate(body.stmts(b)):
            if s_[0] != "A" or s_[1]["p"]: continue
            l = s_[1]["l"]
            if visit is not None: visit(b, i, s_, env, flags)
            if l in flags:
                rv = s_[2]
                if rv[0] == "Use" and rv[1][0] in ("c", "m") and not rv[1][1]["p"] and rv[1][1]["l"] in env:
                    env[l] = env[rv[1][1]["l"]]          # flag copied into another flag (`dst = move ret` at each inlined return)
                else:
                    env[l] = (b, i)
        t = body.term(b)
        if t[0] == "Call" and t[1].get("dst") and not t[1]["dst"]["p"] and t[1]["dst"]["l"] in flags:
            env[t[1]["dst"]["l"]] = (b, "T")
        nenv = tuple(sorted(env.items(), key=str))
        succs = None
        if t[0] == "Switch":
            tr = through_try(op_local(t[1]))
            if tr is not None:
                fl, _d = resolve(tr[0]); vmap = tr[1]
                if fl is not None and fl in env:
                    db, di = env[fl]; rvx = rv_of(db, di)
                    if rvx[0] == "Agg" and rvx[1][0] == "Adt" and isinstance(rvx[1][3], int):
                        want = [cf for cf, xv in vmap.items() if xv == rvx[1][3]]
                        if want:
                            tg = [x_[1] for x_ in t[2] if x_[0] == want[0]]
                            for s2 in ([tg[0]] if tg else [t[3]]):
                                if (b, s2) not in back: st.append((s2, nenv))
                            continue
            fl, disc = resolve(op_local(t[1]))
            rv = None
            if fl is not None and fl in env:
                db, di = env[fl]; rv = rv_of(db, di)
            if disc:
                if rv is not None and rv[0] == "Agg" and rv[1][0] == "Adt" and isinstance(rv[1][3], int):
                    v = rv[1][3]
                    tg = [x[1] for x in t[2] if x[0] == v]
                    succs = [tg[0]] if tg else [t[3]]
            elif t[5] == "bool":
                ft = [tg for (v, tg) in t[2] if v == 0]
                edges = [(t[3], True)] + ([(ft[0], False)] if ft else [])
                if rv is not None: e, neg = peel(dag.rvalue((db, di, rv), 0))
                else: e, neg = peel(dag.expr(t[1]))
                cv = constval(e)
                succs = []
                for (tg, val) in edges:
                    inner_truth = (not val) if neg else val
                    if cv is not None and cv != inner_truth: continue          # infeasible on this path
                    if cv is None and cut([(e, inner_truth)]): continue
                    succs.append(tg)
        if succs is None: succs = body.succ(b)
        for s2 in succs:
            if (b, s2) in back: continue
            st.append((s2, nenv))
    return reached


def split_generics(ty):
    """'a::B<X, C<Y, Z>>' -> ('a::B', ['X', 'C<Y, Z>'])"""
    i = ty.find("<")
    if i < 0 or not ty.endswith(">"): return ty, []
    head, inner = ty[:i], ty[i + 1:-1]
    args = []; depth = 0; cur = ""
    for ch in inner:
        if ch in "<([": depth += 1
        elif ch in ">)]": depth -= 1
        if ch == "," and depth == 0:
            args.append(cur.strip()); cur = ""
        else: cur += ch
    if cur.strip(): args.append(cur.strip())
    return head, args


def place_type(body, place):
    """type string of a place that projects through references and Result / Option payloads (`((*_9) as Ok).0`); None when it cannot be derived"""
    ty = body.locals[place["l"]]["ty"]
    variant = None
    for el in place["p"]:
        if el == "*":
            ty = ty[5:] if ty.startswith("&mut ") else ty[1:] if ty.startswith("&") else None
            if ty is None: return None
        elif el[0] == "d":
            variant = el[1]
        elif el[0] == "f":
            head, args = split_generics(ty)
            if head == "std::result::Result" and len(args) == 2 and variant in ("Ok", "Err", 0, 1):
                ty = args[0] if variant in ("Ok", 0) else args[1]
            elif head == "std::option::Option" and len(args) == 1:
                ty = args[0]
            else:
                return None
            variant = None
        else:
            return None
    return ty


def variant_edges_place(body, b):
    """like variant_edges, for a discriminant read of any place: (place, type string or None, {variant idx: target}, otherwise)"""
    t = body.term(b)
    if t[0] != "Switch": return None
    l = op_local(t[1])
    if l is None: return None
    d = body.single_def(l)
    if not d or d[2][0] != "Discr": return None
    return (d[2][1], place_type(body, d[2][1]), {v: tg for (v, tg) in t[2]}, t[3])


def returned_values(body, dag, start):
    """what the function can answer on the paths through `start` (back edges not followed), flag-aware: set of ('const', v) | ('variant', idx) | ('other', text).
    `_0 = copy flag` is read through to the constant / variant last assigned to the flag on that path (`let r = if full { false } else { ..; true }; unlock(); r`)."""
    out = set()
    def classify(rv):
        if rv[0] == "Use" and rv[1][0] == "k": return ("const", rv[1][1].get("int"))
        if rv[0] == "Agg" and rv[1][0] == "Adt": return ("variant", rv[1][3])
        return None
    def visit(b, i, st, env, flags):
        if st[1]["l"] != 0: return
        rv = st[2]
        c = classify(rv)
        if c is None and rv[0] == "Use" and rv[1][0] in ("c", "m") and not rv[1][1]["p"]:
            l = rv[1][1]["l"]
            for _ in range(8):
                if l in env:
                    db, di = env[l]; c = classify(body.stmts(db)[di][2]) if di != "T" else None; break
                d = body.single_def(l)
                if d is None or d[1] == "T" or d[2][0] != "Use" or d[2][1][0] not in ("c", "m") or d[2][1][1]["p"]:
                    if d is not None and d[1] != "T": c = classify(d[2])
                    break
                l = d[2][1][1]["l"]
        out.add(c if c is not None else ("other", str(rv)[:60]))
    flag_paths(body, dag, start, follow_back=False, visit=visit)
    return out


def only_via(body, dag, test_block, edge, other_edge, blk):
    """blk runs only after `edge` of the test at test_block was taken: dominated by the edge, or dominated by the test and (flag-aware) unreachable from the
    other edge without re-running the test -- the decision may travel through an Option / flag built on that edge and unpacked later (`let r = 'l: {..}; r?`)"""
    if body.dominates(edge, blk): return True
    return body.dominates(test_block, blk) and blk not in flag_paths(body, dag, other_edge, stop_blocks={test_block})


def counter_bound_exit(body, dag, x, y, bounds=("MAX_STREAMS", "running_streams_count", "POOL_SIZE", "BUFFER_SIZE")):
    """the exit edge x->y of an index loop `while i < BOUND` / `for i in 0..BOUND` written by hand: the test is `i < BOUND` on a loop-carried counter and
    the exit is its false side (the whole range was visited)"""
    c = D.cmp_of_switch(body, dag, x)
    if not c: return False
    cb = D.canon_branch(c)
    if cb is None or cb[0] != "lt": return False
    kind, a, b, T, Fl = cb
    a_, b_ = D.strip_casts(a), D.strip_casts(b)
    return Fl == y and T != Fl and a_[0] == "phi" and any(n in D.show(b_) for n in bounds)


def plain_forward(e, depth=0):
    """the expression is one of the function's own parameters / captures / fields handed on as it is (no arithmetic, no call that could change it)"""
    e = D.strip_casts(e)
    if not isinstance(e, tuple) or depth > 12: return False
    if e[0] in ("param", "mem", "ref"): return True
    if e[0] == "field": return plain_forward(e[2], depth + 1)
    if e[0] == "deref": return plain_forward(e[1], depth + 1)
    if e[0] == "call" and e[1].split("::")[-1] in ("clone", "deref", "borrow", "as_ref") and len(e[2]) == 1: return plain_forward(e[2][0], depth + 1)
    return False


def element_stores(body, dag):
    """stores into an element of an indexed container: list of (block, container expr, index expr, stored rvalue).  Sees `buf[i] = v` (normalised into the
    call form by normalize.py), `*buf.get_unchecked_mut(i) = v` and `buf.index_mut(i)`; the legacy place-projection form is kept for un-normalised facts."""
    out = []
    for b in sorted(body.reachable):
        for st in body.stmts(b):
            if st[0] != "A" or not st[1]["p"]: continue
            p = st[1]
            if any(e != "*" and e[0] == "i" for e in p["p"]):
                il = [e[1] for e in p["p"] if e != "*" and e[0] == "i"][0]
                out.append((b, dag.place({"l": p["l"], "p": []}), D.strip_casts(dag.local(il)), st[2])); continue
            if p["p"][0] != "*" or len(p["p"]) != 1: continue
            d = body.single_def(p["l"])
            if d is None or d[2][0] != "CallRes": continue
            c = d[2][1]
            if c.get("fname") in ("get_unchecked_mut", "index_mut", "get_mut") and len(c["args"]) >= 2:
                out.append((b, dag.expr(c["args"][0]), D.strip_casts(dag.expr(c["args"][1])), st[2]))
    return out


def ring_index_base(e, n_name="BUFFER_SIZE"):
    """`x % N` or its power-of-two spelling `x & (N - 1)` (N the generic const; the constant may have travelled through a named generic const such as
    `const INDEX_MASK: usize = BUFFER_SIZE - 1`, which the DAG reads as its defining expression): returns x (casts stripped), else None"""
    from dag import strip_casts
    e = strip_casts(e)
    if not isinstance(e, tuple) or e[0] != "bin": return None
    N = ("gconst", n_name)
    if e[1] == "Rem" and strip_casts(e[3]) == N: return strip_casts(e[2])
    if e[1] == "BitAnd":
        for x, m in ((e[2], e[3]), (e[3], e[2])):
            m = strip_casts(m)
            if m[0] == "bin" and m[1].rstrip("!~") == "Sub" and strip_casts(m[2]) == N and strip_casts(m[3]) == ("const", 1): return strip_casts(x)
    return None


def sentinel_edges(body, dag, x):
    """switch block x compares a value with the u32::MAX end-of-list sentinel: (target taken when the value IS the sentinel, target when it is not); else None"""
    c = D.cmp_of_switch(body, dag, x)
    if not c: return None
    op, l, r, tt, ft = c
    sent = lambda e: (lambda z: z == ("const", 0xFFFFFFFF) or (z[0] == "gconst" and str(z[1]).endswith("u32::MAX")))(D.strip_casts(e))
    if not (sent(l) or sent(r)): return None
    if op == "Eq": return (tt, ft)
    if op == "Ne": return (ft, tt)
    return None


def on_live_side_of_sentinel_tests(body, dag, blk, within=None):
    """blk is not confined to the is-the-sentinel side of any sentinel comparison that dominates it (work for a listener happens where the id is a live one)"""
    for x in (within if within is not None else body.reachable):
        se = sentinel_edges(body, dag, x)
        if not se or se[0] == se[1] or not body.dominates(x, blk): continue
        if (body.dominates(se[0], blk) or se[0] == blk) and not (body.dominates(se[1], blk) or se[1] == blk): return False
    return True


def callee_param_name(body, c):
    """for a call through Fn / FnMut / FnOnce: the name of the function parameter that is being called (followed through re-borrows and copies), else ''"""
    l_ = op_local(c["args"][0]) if c.get("args") else None
    for _ in range(8):
        if l_ is None: return ""
        if 1 <= l_ <= body.f["argc"]: return body.lname(l_) or ""
        d_ = body.single_def(l_)
        if d_ is None or d_[1] == "T": return ""
        rv_ = d_[2]
        l_ = rv_[2]["l"] if rv_[0] in ("Ref", "RawPtr") else (rv_[1][1]["l"] if rv_[0] in ("Use", "Cast") and isinstance(rv_[1], list) and rv_[1][0] in ("c", "m") else None)
    return ""



def resolve_capture(fx, key, e, depth=0):
    """an expression of a closure / coroutine body that is one of its captures, resolved to the expression the capture was filled with where the closure was built
    (recursively through nested closures / async blocks): returns (body key, expression)"""
    from mir import Body as _Body
    x = D.strip_casts(e)
    nm = x[1] if x[0] == "field" and D.strip_casts(x[2])[:2] == ("param", 1) else None
    if nm is None and x[0] in ("ref", "mem", "deref") and len(x) > 1 and isinstance(x[1], tuple) and x[1] and isinstance(x[1][-1], str) and x[1][-1].startswith("<cap:"):
        nm = x[1][-1][5:-1]
    if nm is None or "::{closure#" not in key or depth > 6: return (key, e)
    parent = key.rsplit("::{closure#", 1)[0]
    pf = fx.fn_opt(parent); kf = fx.fn_opt(key)
    if pf is None or kf is None: return (key, e)
    caps = [c[0] for c in (kf.get("captures") or [])]
    if nm not in caps: return (key, e)
    i = caps.index(nm)
    pb = _Body(pf); pd = D.Dag(pb)
    for b in pb.reachable:
        for st in pb.stmts(b):
            if st[0] == "A" and st[2][0] == "Agg" and st[2][1][0] in ("Closure", "Coroutine", "CoroutineClosure") and st[2][1][1] == key and i < len(st[2][2]):
                return resolve_capture(fx, parent, pd.expr(st[2][2][i]), depth + 1)
    return (key, e)
