"""C01 - Uni: every accepted event is delivered exactly once, rejected ones never."""
import importlib
import dag as D, util, roles as R, facts as F
from dag import strip_casts, show
from mir import Body, op_local

LEVEL = "other"
EXPLANATION = ("Necessary shape conditions of exactly-once delivery, decided on every path of the ring containers and the five Uni channels: (R01.1) write-before-publish / "
               "read-before-release: in every container publish* the payload write (ptr::write or the setter call) lies on the Some edge of the reservation and dominates the "
               "publication, in consume_movable the ptr::read of the slot dominates its release (for the zero-copy containers' callback-style consume: the getter call dominates the slot release), and in every channel send_with_async the publication is dominated by the "
               "setter's call and by the Ready edge of its await; slots are moved out only by ptr::read inside the rings' consume_movable; (R01.2) the channel's verdict is the "
               "container's answer: every `RetryResult::Ok` is dominated by the success edge of every publication-outcome test on its path and every `Transient` by a failure "
               "edge (no swapped or swallowed arm), for send / send_with / send_with_async of the five channels; (R01.3) a rejected send hands back the moved-in item / setter "
               "itself and the setter is never invoked on a path that ends in Transient; (R01.4) every ChannelConsumer::consume returns exactly the container's dequeue "
               "answer, dequeuing once; (R01.6) in the full-sync ring the lock is the reservation: every payload write and every suspension point between "
               "leak_slot_internal and publish_leaked_internal happens with the lock held (typestate); (R01.5) the ring shape conditions of C02 (counter protocol shapes, exact fullness/emptiness guards judged against the *published* "
               "tail, index agreement, complete full-sync critical sections) hold -- they are necessary for exactly-once delivery too. (R01.8) the Uni API (send / send_with / send_with_async) forwards its arguments to its channel and answers the channel's result unchanged.")
EXPLANATION += " (R01.9) the payload setter handed to send_with / send_with_async / alloc_with / the handle constructors is invoked, forwarded or handed back on every path of every function that receives one (35 functions): it is never silently dropped, which would publish an uninitialised slot; R01.5 also carries C02's R02.5 (wrap-safe position arithmetic over every function of the two rings), R02.6 and R02.7."
EXPLANATION += ' R01.4 also requires every answer of consume to be produced after asking the container (no `None` shortcut). Publication outcomes may be encoded as Option / Result / bool or as an integer with one failure constant: what the constant means is read from the producing function.'
EXPLANATION += " (R01.10) the index-based publish rebuilds its candidate sequence id from the caller's slot index on every retry (C08 R08.3) and the pool re-enqueues a slot only after destroying its payload (C13 R13.1)."
EXPLANATION += " R01.2 also requires the crossbeam channel's setter-based sends to retry the re-send without bound (spinning_forever / retry_with_async + yielding_forever): the setter already ran, a bounded retry whose outcome is ignored drops the event while the send answers Ok; R01.10 also carries C14's R14.5 / R14.8 (one owner per slot across OgreUnique -> OgreArc)."
EXPLANATION += ' (R01.11) an accepted event still buffered when the streams are told to end is yielded: the end flag is consulted only after the container answered empty (C06 R06.2).'
ASSUMPTIONS = ["loss- and duplicate-freedom of AtomicMove's reserve->publish / reserve->release protocol under every interleaving needs schedule exploration and is not decided",
               "crossbeam-channel internals trusted"]

PUB_ROLE = ("publish_movable", "publish", "leak_slot_internal", "leak_slot", "publish_leaked_ref", "publish_leaked_id")
WRITE_FNS = ("std::ptr::write", "core::ptr::write", "std::ops::FnOnce::call_once")


def _is_coroutine_wrapper(body):
    for b in body.reachable:
        for st in body.stmts(b):
            if st[0] == "A" and st[2][0] == "Agg" and st[2][1][0] == "Coroutine": return st[2][1][1]
    return None


def _mentions(e, pred, depth=0):
    if not isinstance(e, tuple) or depth > 40 or not e: return False
    if isinstance(e[0], str) and len(e) > 1 and pred(e): return True
    return any(_mentions(x, pred, depth + 1) for x in e if isinstance(x, tuple))


def _role_call(e):
    """the publication-role call an outcome-test subject derives from: (fname, is_direct)"""
    e0 = strip_casts(e)
    direct = e0[0] == "call"
    hit = []
    def pred(x):
        if x[0] == "call" and x[1].split("::")[-1] in PUB_ROLE: hit.append(x[1].split("::")[-1])
        return False
    _mentions(e0, pred)
    return (hit[0], direct) if hit else (None, False)


def pub_switches(body, dg):
    """publication-outcome tests: list of dicts {b, success, failure, role}"""
    out = []
    for b in sorted(body.reachable):
        vs = util.variant_switch(body, dg, b)
        if vs:
            subj, arms, other, l, proj = vs
            # (the tested value itself is the answer of a poll / iterator step -- not a publication whose *arguments* mention one, e.g. the listener id of a fan-out)
            head_ = strip_casts(subj)
            while head_[0] in ("field", "variant", "deref") and isinstance(head_[2] if head_[0] != "deref" else head_[1], tuple):
                head_ = strip_casts(head_[2] if head_[0] != "deref" else head_[1])
            if head_[0] == "call" and head_[1].split("::")[-1] in ("poll", "next", "try_recv"): continue
            if head_[0] != "call" and _mentions(subj, lambda x: x[0] == "call" and x[1].split("::")[-1] in ("poll", "next", "try_recv")) and not _mentions(subj, lambda x: x[0] == "call" and x[1].split("::")[-1] in PUB_ROLE): continue
            role, direct = _role_call(subj)
            if role is None: continue
            ty = body.locals[l]["ty"]
            # callback-style publish answers Option<SetterFn>: None = accepted.  Everything else: Some = accepted / reserved.
            s0 = strip_casts(subj)
            callback_style = role == "publish" and s0[0] == "call" and ty.startswith("std::option::Option<")
            succ_v = 0 if callback_style else 1
            succ = arms.get(succ_v, other); fail = arms.get(1 - succ_v, other)
            if succ == fail: continue
            out.append({"b": b, "success": succ, "failure": fail, "role": role})
            continue
        t = body.term(b)
        if t[0] == "Switch" and t[5] == "bool":
            e = strip_casts(dg.expr(t[1]))
            if e[0] == "call" and e[1].split("::")[-1] == "is_full":
                zero = [tg for (v, tg) in t[2] if v == 0]
                if zero: out.append({"b": b, "success": zero[0], "failure": t[3], "role": "is_full"})
    # sentinel-integer outcome: a publication role that answers a plain integer, one constant standing for "not published" (`0 = retry`), every other answer being
    # a length that cannot take that value -- tested by the caller with `== c` / `!= c`.  What the constant means is read from the callee, not assumed.
    for (tb, eq_t, ne_t, subj) in util.eq_const_edge(body, dg, lambda x: x[0] == "call" and (x[1].split("::")[-1] in PUB_ROLE or x[1].split("::")[-1].startswith(("try_publish", "publish_leaked"))), lambda e: e[0] == "const" and isinstance(e[1], int)):
        if any(o["b"] == tb for o in out): continue
        c = D.cmp_of_switch(body, dg, tb)
        k = [strip_casts(z) for z in (c[1], c[2]) if strip_casts(z)[0] == "const"][0][1]
        if _sentinel_failure_value(subj[1]) == k and eq_t != ne_t:
            out.append({"b": tb, "success": ne_t, "failure": eq_t, "role": subj[1].split("::")[-1]})
    return out


_SENTINEL = {}
def _sentinel_failure_value(callee_key):
    """for an integer-answering publication role: the one constant it answers when its publication CAS did not succeed, provided every other answer is a length that is
    never that constant (`max(1, ..)`, a NonZero's value, distance + 1); None otherwise"""
    if callee_key in _SENTINEL: return _SENTINEL[callee_key]
    _SENTINEL[callee_key] = None
    fx = F.CURRENT
    g = fx.fn_opt(callee_key) if fx is not None else None
    if g is None: return None
    gb = Body(g); gd = D.Dag(gb)
    r = gd.local(0)
    alts = [strip_casts(a) for a in (r[3] if r[0] == "phi" and len(r) > 3 else (r,))]
    consts = [a for a in alts if a[0] == "const" and isinstance(a[1], int)]
    others = [a for a in alts if not (a[0] == "const")]
    if len(consts) != 1 or not others: return None
    c = consts[0][1]
    def never_c(e):
        e = strip_casts(e)
        if e[0] == "call" and e[1].split("::")[-1] == "max" and len(e[2]) == 2:
            ks = [strip_casts(x)[1] for x in e[2] if strip_casts(x)[0] == "const" and isinstance(strip_casts(x)[1], int)]
            return bool(ks) and max(ks) > c
        if e[0] == "call" and "NonZero" in e[1] and e[1].split("::")[-1] == "get": return c == 0
        if e[0] == "pair" and e[1][0] == "bin" and e[1][1] == "Add!" and strip_casts(e[1][3])[0] == "const" and isinstance(strip_casts(e[1][3])[1], int) and strip_casts(e[1][3])[1] > c >= 0: return True
        return False
    if not all(never_c(a) for a in others): return None
    # the constant is answered only where the publication CAS failed
    cas = [(b, cc) for (b, cc) in gb.calls if "compare_exchange" in (cc.get("f") or "")]
    if cas:
        for (b, cc) in cas:
            if cc["dst"]["p"]: return None
            for (tb, ok_t, err_t) in util.option_test_edges(gb, gd, cc["dst"]["l"]):
                if ("const", c) in {strip_casts(v) for v in util.returned_values(gb, gd, ok_t)}: return None
    _SENTINEL[callee_key] = c
    return c


def verdicts(body):
    out = []
    for b in sorted(body.reachable):
        for st in body.stmts(b):
            if st[0] == "A" and st[2][0] == "Agg" and st[2][1][0] == "Adt" and st[2][1][1].endswith("RetryResult") and not st[1]["p"] and st[1]["l"] == 0:
                out.append((b, st[2][1][2], st[2][1][4], st[2][2]))
    return out


def check_crossbeam_setter_sends(ctx, rule):
    """the crossbeam Uni channel's setter-based sends run the setter BEFORE they own room (the fullness test is only a pre-check): once the setter ran the event must get in,
    so the re-send is retried without bound -- `spinning_forever` in send_with, `retry_with_async(..).yielding_forever().await` in send_with_async.  A bounded retry
    (`*_until_timeout`, `*_until`) whose outcome is ignored drops the event while the send still answers Ok; a spinning retry inside the async variant busy-waits inside one
    poll() -- on an executor thread shared with the consumer nothing is ever consumed, and every other task on that thread is blocked behind a suspended-and-resumed send."""
    fx = ctx.fx
    path = R.CHANNELS["uni.movable.crossbeam"]
    n = 0
    for en, want, is_async in (("send_with", "spinning_forever", False), ("send_with_async::{closure#0}", "yielding_forever", True)):
        k = f"{path} as {R.T_PROD}::{en}"
        fam = [f for f in fx.fns if f["key"] == k or f["key"].startswith(k + "::{closure#")]
        names = []
        for f in fam:
            for blk in f["blocks"]:
                t = blk["term"]
                if t[0] == "Call" and "keen_retry" in (t[1].get("f") or "") + (t[1].get("resolved") or ""):
                    names.append(t[1].get("fname"))
        strategies = [x for x in names if x and (x.startswith(("spinning_", "yielding_", "sleeping_")) or "until" in x or x.endswith("_forever"))]
        ok = strategies == [want]
        if is_async: ok = ok and "retry_with_async" in names and "retry_with" not in names
        n += 1
        ctx.ob(rule, f"{k}|re-send-is-retried-without-bound", ok and bool(fam), f"{fam[0]['file']}:{fam[0]['line']}" if fam else "",
               f"retry strategy calls {strategies or names}; required: exactly `{want}`" + (" on the async retry (`retry_with_async`), never a spinning one" if is_async else ""))
    return n


def check_read_before_release(ctx, rule):
    """consumers of the two rings: the slot is copied out (ptr::read) before it is released for reuse, once each (shared with C02 as R02.8)"""
    fx = ctx.fx
    # consumers: read-before-release
    for adt in (R.AM, R.FSM):
        k = f"{adt} as {R.T_SUB}::consume_movable"
        body = Body(fx.fn(k)); dg = D.Dag(body)
        reads = [(b, c) for (b, c) in body.calls if c.get("f") in ("std::ptr::read", "core::ptr::read")]
        rels = [(b, c) for (b, c) in body.calls if c.get("fname") in ("release_leaked_internal",)]
        if not rels:
            # the release helper was merged into this function: the release is the head advance itself (store to `head` / commit CAS on `head`)
            import guards as _g
            rels = [(a["b"], None) for a in _g.accesses(body, adt, {"head"}) if a["kind"] == "w"][:1] + \
                   [(b, c) for (b, c) in body.calls if (R.atomic_target(body, c) or (0, 0, ""))[1:2] == ("head",) and "compare_exchange" in (R.atomic_target(body, c) or (0, 0, ""))[2]][:1]
        ok = len(reads) == 1 and len(rels) == 1 and body.dominates(reads[0][0], rels[0][0])
        ctx.ob(rule, f"{k}|read-before-release", ok, f"{body.f['file']}:{body.f['line']}", "the slot is copied out (ptr::read) before it is released for reuse, once each")
        r0 = strip_casts(dg.local(0))
        ctx.ob(rule, f"{k}|returns-what-it-read", _mentions(r0, lambda x: x[0] == "call" and x[1].endswith("ptr::read")) or r0[0] == "phi", f"{body.f['file']}:{body.f['line']}", f"returns `{show(r0)[:100]}`")


def check(ctx):
    fx = ctx.fx
    # ------------------------------------------------------------------ R01.1 containers: write-before-publish
    producers = []
    for adt, tr in ((R.AM, R.T_PUB), (R.FSM, R.T_PUB), (R.AZC, None), (R.FZC, None)):
        for fn in ("publish_movable", "publish"):
            ks = [k for k in fx.by_key if k.startswith(adt + " as ") and k.endswith("::" + fn)]
            for k in ks: producers.append(k)
    for k in producers:
        body = Body(fx.fn(k)); dg = D.Dag(body)
        site = f"{body.f['file']}:{body.f['line']}"
        zc = k.startswith((R.AZC, R.FZC))      # zero-copy containers: the reservation is the pool allocation, the publication the id's enqueue into the ring (their leak_slot / publish_leaked_id spelled out)
        res = [(b, c) for (b, c) in body.calls if c.get("fname") in ("leak_slot_internal", "leak_slot") + (("alloc_ref",) if zc else ())]
        pubs = [(b, c) for (b, c) in body.calls if c.get("fname") in ("publish_leaked_internal", "publish_leaked_id", "try_publish_leaked_internal") + (("publish_movable",) if zc else ())]
        writes = [(b, c) for (b, c) in body.calls if (c.get("f") in WRITE_FNS) and not (c.get("f") == "std::ops::FnOnce::call_once" and "report" in show(dg.expr(c["args"][0])))]
        if len(res) != 1 or not pubs or not writes:
            ctx.ob("R01.1", f"{k}|reserve-write-publish-present", False, site, f"{len(res)} reservation, {len(writes)} payload write, {len(pubs)} publication calls; expected 1 / >=1 / >=1"); continue
        rb = res[0][0]
        some_t = None
        for b in body.reachable:
            vs = util.variant_switch(body, dg, b)
            if vs and vs[3] == res[0][1]["dst"]["l"] and not vs[4]: some_t = vs[1].get(1, vs[2])
        for (wb, wc) in writes:
            ok = some_t is not None and body.dominates(some_t, wb) and all(body.dominates(wb, pb) for (pb, _) in pubs)
            ctx.ob("R01.1", f"{k}|write-before-publish", ok, body.loc(wb), "the payload write lies on the Some edge of the reservation and dominates the publication (a consumer can never read a slot that is still being written)")
        for (pb, pc) in pubs:
            ctx.ob("R01.1", f"{k}|publish-only-reserved", some_t is not None and body.dominates(some_t, pb) and not util.in_loop(body, pb), body.loc(pb), "publication happens once, on the reserved path only")
    check_read_before_release(ctx, "R01.1")
    check_crossbeam_setter_sends(ctx, "R01.2")
    check_zero_copy_getters(ctx, "R01.1")
    # who moves payloads out of ring slots
    for f in fx.fns:
        if not (f["key"].startswith("ogre_std::ogre_queues::atomic::atomic_move") or f["key"].startswith("ogre_std::ogre_queues::full_sync::full_sync_move")): continue
        for blk in f["blocks"]:
            t = blk["term"]
            if t[0] == "Call" and t[1].get("f") in ("std::ptr::read", "core::ptr::read"):
                ok = f["key"].endswith("::consume_movable")
                ctx.ob("R01.1", f"{f['key']}|moves-slot-out", ok, f"{f['file']}:{t[1]['line']}", "ring slots are moved out (ptr::read) only by consume_movable: a second reader would deliver the event twice")
    # channels' send_with_async: publication after the awaited setter
    for name, path in R.UNI_CHANNELS.items():
        k = f"{path} as {R.T_PROD}::send_with_async::{{closure#0}}"
        body = Body(fx.fn(k)); dg = D.Dag(body)
        setters = [(b, c) for (b, c) in body.calls if c.get("f") == "std::ops::FnOnce::call_once" and "setter" in show(dg.expr(c["args"][0]))]
        pubs = [(b, c) for (b, c) in body.calls if c.get("fname") in ("publish_leaked_internal", "publish_leaked_ref", "publish_leaked_id", "send")]
        polls = []
        for b in body.reachable:
            vs = util.variant_switch(body, dg, b)
            if vs and body.locals[vs[3]]["ty"].startswith("std::task::Poll<&"):
                polls.append((b, vs[1].get(0, vs[2])))
        site = f"{body.f['file']}:{body.f['line']}"
        ok = len(setters) == 1 and bool(pubs) and bool(polls)
        if ok:
            sb = setters[0][0]
            ready = polls[0][1]
            ok = all(body.dominates(sb, pb) and ready is not None and body.dominates(ready, pb) for (pb, _) in pubs)
        ctx.ob("R01.1", f"{k}|publish-after-setter-completed", ok, site, "the publication is dominated by the setter call and by the Ready edge of its await (the payload is complete when it becomes visible)")
    # ------------------------------------------------------------------ R01.2 / R01.3 verdict = container's answer ; input handed back
    for name, path in R.UNI_CHANNELS.items():
        for en in ("send", "send_with", "send_with_async"):
            k = f"{path} as {R.T_PROD}::{en}"
            body = Body(fx.fn(k))
            co = _is_coroutine_wrapper(body)
            if co: k = co; body = Body(fx.fn(k))
            dg = D.Dag(body)
            site = f"{body.f['file']}:{body.f['line']}"
            vd = verdicts(body)
            sw = pub_switches(body, dg)
            if name == "uni.movable.crossbeam" and en == "send":
                _crossbeam_send(ctx, fx, k, body, dg); continue
            if not vd or not sw:
                ctx.ob("R01.2", f"{k}|verdict-structure", False, site, f"{len(vd)} verdict assignments / {len(sw)} publication-outcome tests found; cannot relate the verdict to the container's answer"); continue
            kinds = {v for (_, v, _, _) in vd}
            ctx.ob("R01.2", f"{k}|both-verdicts-present", {"Ok", "Transient"} <= kinds, site, f"verdicts produced: {sorted(kinds)}", nontrivial=False)
            for (vb, variant, fields, ops) in vd:
                S = [s for s in sw if body.dominates(s["b"], vb)]
                _rm = {}
                def R_(t):
                    # flag-aware reachability: an outcome parked in an Option / flag and unpacked later (`let Some(r) = f().map(..) else {..}`) keeps its edges apart
                    if t not in _rm: _rm[t] = {t} | util.flag_paths(body, dg, t)
                    return _rm[t]
                if variant == "Ok":
                    # edge dominance: not reachable from the failure side of any outcome test on its path
                    ok = bool(S) and all(vb in R_(s["success"]) and vb not in R_(s["failure"]) for s in S)
                    ctx.ob("R01.2", f"{k}|Ok-only-when-accepted", ok, body.loc(vb), f"`Ok` lies on the success edge of all {len(S)} publication-outcome test(s) on its path")
                elif variant == "Transient":
                    ok = bool(S) and any(vb in R_(s["failure"]) and vb not in R_(s["success"]) for s in S)
                    ctx.ob("R01.2", f"{k}|Transient-only-when-rejected", ok, body.loc(vb), "`Transient` lies on the failure edge of a reservation / publication-outcome test")
                    inp = dg.expr(ops[fields.index("input")]) if "input" in fields else ("?",)
                    back = _mentions(inp, lambda x: (x[0] == "param" and x[2] in ("item", "setter")) or (x[0] == "field" and x[1] == "setter") or (x[0] == "call" and x[1].split("::")[-1] in PUB_ROLE))
                    ctx.ob("R01.3", f"{k}|rejected-input-handed-back", back, body.loc(vb), f"Transient carries `{show(inp)[:90]}`; required: the moved-in item / setter (or the container's returned one)")
                    # the setter is never invoked on a path that ends here
                    for (b, c) in body.calls:
                        if c.get("f") == "std::ops::FnOnce::call_once" and "setter" in show(dg.expr(c["args"][0])) and "report" not in show(dg.expr(c["args"][0])):
                            reach = vb in body.reach_from(b)
                            ctx.ob("R01.3", f"{k}|setter-not-invoked-when-rejected", not reach, body.loc(b), "no path runs the setter and then reports Transient")
    # ------------------------------------------------------------------ R01.8 the Uni API is its channel's answer
    import delegation
    for fn in ("send", "send_with", "send_with_async"):
        delegation.thin(ctx, "R01.8", "uni::uni::Uni as uni::uni::GenericUni::" + fn, fn, "the verdict and the handed-back input a caller sees are the channel's own")
    ctx.floor("R01.8", 3)
    # ------------------------------------------------------------------ R01.4 consume = container's answer
    for name, path in R.UNI_CHANNELS.items():
        k = f"{path} as {R.T_CONS}::consume"
        body = Body(fx.fn(k)); dg = D.Dag(body)
        dq = [(b, c) for (b, c) in body.calls if c.get("fname") in ("consume_movable", "consume_leaking", "try_recv", "consume")]
        # dequeues hidden in closures of this function count as well
        extra = sum(1 for f2 in fx.fns if f2.get("owner_fn") == k and f2["key"] != k for blk in f2["blocks"]
                    if blk["term"][0] == "Call" and blk["term"][1].get("fname") in ("consume_movable", "consume_leaking", "try_recv", "consume"))
        dq = dq + [(0, None)] * extra
        r0 = dg.local(0)
        ok1 = len(dq) == 1 and dq[0][1] is not None and not util.in_loop(body, dq[0][0])
        if ok1:
            # ... on EVERY path: a `None` answered without asking the container (stream already told to end, "nothing to do" shortcut) is read as "empty" by
            # the poll protocol and by the drain-on-drop loop, which then leave accepted events behind
            ctx.ob("R01.4", f"{k}|asks-the-container-on-every-path", util.on_every_return_path(body, dq[0][0]), body.loc(dq[0][0]),
                   "every answer of consume is produced after asking the container")
        ctx.ob("R01.4", f"{k}|dequeues-once", ok1, f"{body.f['file']}:{body.f['line']}", f"{len(dq)} dequeue call(s) per consume; required exactly one (each poll takes at most one event out of the container)")
        def from_dq(e):
            return _mentions(e, lambda x: x[0] == "call" and x[1].split("::")[-1] in ("consume_movable", "consume_leaking", "try_recv"))
        alts = r0[3] if r0[0] == "phi" and len(r0) > 3 else (r0,)
        ok2 = all(from_dq(a) or (a[0] == "adt" and a[1] == "None") for a in alts) and any(from_dq(a) for a in alts)
        dup = any(c.get("fname") in ("clone", "read", "copy", "copy_nonoverlapping") for (_, c) in body.calls)
        ctx.ob("R01.4", f"{k}|returns-container-answer", ok2 and not dup, f"{body.f['file']}:{body.f['line']}", f"returns `{show(r0)[:120]}`; required: the container's dequeue answer (no duplication, no other source)")
    check_full_sync_reservation(ctx, "R01.6")
    check_setters_consumed(ctx, "R01.9")
    # ------------------------------------------------------------------ R01.5 ring shape conditions (shared with C02)
    C02 = importlib.import_module("props.C02")
    C02.check(util.PrefixedCtx(ctx, "R01.5"))
    # ------------------------------------------------------------------ R01.7 poll / waker protocol (shared with C04): an accepted event is only 'yielded' if the parked stream is told
    C04 = importlib.import_module("props.C04")
    C04.check_poll_protocol(util.PrefixedCtx(ctx, "R01.7"))
    # ------------------------------------------------------------------ R01.10 'carrying exactly the payload that was sent': what is published is the caller's slot, and a
    # slot is not handed to the next producer while the previous payload's destructor still runs over it (shared with C08 R08.3 and C13 R13.1)
    sub = util.fresh_ctx(ctx, "C08")
    util.guarded(ctx, importlib.import_module("props.C08").check, sub)
    for o in sub.obs:
        if o["rule"] == "R08.3" and "candidate-id-is-rebuilt" in o["key"]:
            ctx.ob("R01.10", o["key"], o["ok"], o["site"], o["detail"], o["nontrivial"])
    C13 = importlib.import_module("props.C13")
    class OnlyDealloc(util.PrefixedCtx):
        def ob(self, rule, key, ok, site="", detail="", nontrivial=True, undecided=False):
            if rule == "R13.1" and "dealloc_id" in key: return super().ob(rule, key, ok, site, detail, nontrivial, undecided)
            return ok
    util.guarded(ctx, C13.check, OnlyDealloc(ctx, "R01.10"))
    if not getattr(ctx, "deferred_infra", None): ctx.floor("R01.10", 4)
    # 'one owner per pool slot' across the OgreUnique -> OgreArc conversion (shared with C14 R14.5 / R14.8): a conversion that lets the unique handle's Drop run frees
    # the slot the new shared handle still owns -- the slot is handed out twice (two accepted events in one slot) and freed twice
    __import__("importlib").import_module("props.C14").check_unique_to_shared(ctx, "R01.10")
    # R01.11 an accepted event still buffered when the streams are told to end IS yielded: the end flag is consulted only after the container answered empty (C06 R06.2)
    sub6 = util.fresh_ctx(ctx, "C06")
    util.guarded(ctx, importlib.import_module("props.C06").check, sub6)
    for o in sub6.obs:
        if o["rule"] == "R06.2": ctx.ob("R01.11", o["key"], o["ok"], o["site"], o["detail"], o["nontrivial"])
    ctx.floor("R01.1", 20); ctx.floor("R01.2", 25); ctx.floor("R01.3", 12); ctx.floor("R01.4", 10); ctx.floor("R01.5", 30)


def _crossbeam_send(ctx, fx, k, body, dg):
    """crossbeam send(): the verdict is built by map_or_else over try_send's answer"""
    site = f"{body.f['file']}:{body.f['line']}"
    moe = [(b, c) for (b, c) in body.calls if c.get("fname") == "map_or_else"]
    ok = False
    if len(moe) == 1:
        r = strip_casts(dg.expr(moe[0][1]["args"][0]))
        alts = r[3] if r[0] == "phi" and len(r) > 3 else (r,)
        ok = all(strip_casts(a)[0] == "call" and strip_casts(a)[1].endswith("::try_send") for a in alts)
    if not moe:
        # explicit `match try_send(item) { Ok(()) => Ok{..}, Err(Full(x)) => Transient{x}, Err(Disconnected(x)) => Fatal{x} }`: the same mapping, spelled as a match
        ts_ = [(b, c) for (b, c) in body.calls if c.get("fname") == "try_send" and not c["dst"]["p"]]
        if len(ts_) == 1:
            edges = util.option_test_edges(body, dg, ts_[0][1]["dst"]["l"])
            vs_ = verdicts(body)
            if edges and vs_:
                (tb, ok_t, err_t) = edges[0]
                R_ok = body.reach_from(ok_t) | {ok_t}; R_err = body.reach_from(err_t) | {err_t}
                good = ok_t != err_t
                for (vb, variant, fields, ops) in vs_:
                    on_ok = vb in R_ok and vb not in R_err; on_err = vb in R_err and vb not in R_ok
                    if variant == "Ok": good = good and on_ok
                    elif variant in ("Transient", "Fatal"):
                        good = good and on_err
                        if "input" in fields:
                            inp = dg.expr(ops[fields.index("input")])
                            back = _mentions(inp, lambda x: x[0] == "call" and x[1].endswith("::try_send"))
                            ctx.ob("R01.3", f"{k}|rejected-input-handed-back|{variant}", back, body.loc(vb), f"{variant} carries `{show(inp)[:80]}`; required: the item crossbeam handed back")
                    else: good = False
                ctx.ob("R01.2", f"{k}|verdict-from-try_send", good and {v for (_, v, _, _) in vs_} >= {"Ok", "Transient"}, site, "the verdict is matched from try_send's own answer: Ok on its Ok edge, Transient / Fatal on its Err edge")
                return
    ctx.ob("R01.2", f"{k}|verdict-from-try_send", ok, site, "the verdict is derived from try_send's own answer")
    if not ok: return
    c = moe[0][1]
    err_cl = dg.expr(c["args"][1]); ok_cl = dg.expr(c["args"][2])
    for (cl, want, label) in ((err_cl, {"Transient", "Fatal"}, "Err"), (ok_cl, {"Ok"}, "Ok")):
        if cl[0] != "closure":
            ctx.ob("R01.2", f"{k}|{label}-arm-closure", False, site, "arm is not a closure literal"); continue
        cb = Body(fx.fn(cl[1]))
        got = {v for (_, v, _, _) in verdicts(cb)}
        ctx.ob("R01.2", f"{k}|{label}-arm-verdict", bool(got) and got <= want, f"{cb.f['file']}:{cb.f['line']}", f"try_send's {label} answer is mapped to {sorted(got)}; allowed {sorted(want)}")
        if label == "Err":
            cd = D.Dag(cb)
            for (vb, variant, fields, ops) in verdicts(cb):
                if "input" not in fields: continue
                inp = cd.expr(ops[fields.index("input")])
                back = _mentions(inp, lambda x: x[0] == "param") or "item" in show(inp)
                ctx.ob("R01.3", f"{k}|rejected-input-handed-back|{variant}", back, cb.loc(vb), f"{variant} carries `{show(inp)[:80]}`; required: the item crossbeam handed back")


def check_zero_copy_getters(ctx, rule):
    """callback-style dequeue of the zero-copy containers (what the stand-alone non-blocking queues' `dequeue` is): the getter reads the slot BEFORE the slot id
    goes back to the pool -- afterwards a concurrent enqueue may already have overwritten it (shared with C18)"""
    fx = ctx.fx
    n = 0
    for adt in (R.AZC, R.FZC):
        ks = [k for k in fx.by_key if k.startswith(adt + " as ") and k.endswith("::consume")]
        for k in ks:
            body = Body(fx.fn(k)); dg = D.Dag(body)
            site = f"{body.f['file']}:{body.f['line']}"
            gets = [(b, c) for (b, c) in body.calls if c.get("f") in ("std::ops::FnOnce::call_once", "std::ops::Fn::call", "std::ops::FnMut::call_mut") and c["args"]
                    and "getter" in show(dg.expr(c["args"][0]))]
            rels = [(b, c) for (b, c) in body.calls if c.get("fname") in ("release_leaked_id", "release_leaked_ref", "dealloc_id", "dealloc_ref")]
            n += 1
            ok = len(gets) == 1 and len(rels) >= 1 and all(body.dominates(gets[0][0], rb) for (rb, _) in rels)
            ctx.ob(rule, f"{k}|read-before-release", ok, body.loc(rels[0][0]) if rels else site,
                   f"{len(gets)} getter call(s), {len(rels)} slot release(s); required: the value is read out of the slot before the slot id is returned to the pool "
                   "(once released, a concurrent enqueue can allocate and overwrite the slot)")
    if n < 2:
        raise F.InfraError(f"{rule}: zero-copy consume bodies not found")


def _walk_all(e, depth=0):
    """every sub-expression of e, e included; also follows a `ref?` to a local's place expression"""
    if isinstance(e, tuple) and depth < 40:
        yield e
        for x in e:
            if isinstance(x, tuple): yield from _walk_all(x, depth + 1)

def check_full_sync_reservation(ctx, rule):
    fx = ctx.fx
    # ------------------------------------------------------------------ R01.6 full-sync: the lock IS the reservation
    # FullSyncMove advances `tail` only at publication: between leak_slot_internal (lock taken) and publish_leaked_internal nothing else marks the slot as taken,
    # so the payload write must happen with the lock still held on every path (a write after a release races with another producer reserving the same slot)
    import ts
    eng = ts.Engine(fx)
    lockp = lambda r: r[0] == "lock" and r[1] and r[1][-1] == "concurrency_guard"
    n6 = 0
    for f in fx.fns:
        body = None
        for blk in f["blocks"]:
            t = blk["term"]
            if t[0] == "Call" and (t[1].get("resolved") or t[1].get("f")) == R.FSM + "::leak_slot_internal": body = Body(f); break
        if body is None: continue
        dg = D.Dag(body)
        an = eng.analyse(f["key"])
        writes = [(b, c) for (b, c) in body.calls if c.get("f") in WRITE_FNS and not (c.get("f") == "std::ops::FnOnce::call_once" and "report" in show(dg.expr(c["args"][0])))]
        res = [b for (b, c) in body.calls if (c.get("resolved") or c.get("f")) == R.FSM + "::leak_slot_internal"]
        pubs = [b for (b, c) in body.calls if (c.get("resolved") or c.get("f")) == R.FSM + "::publish_leaked_internal"]
        for (wb, wc) in writes:
            if not any(body.dominates(r, wb) for r in res): continue
            n6 += 1
            ok = an.must_hold(wb, lockp) and not an.undecided
            ctx.ob(rule, f"{f['key']}|payload-written-under-the-reservation-lock", ok, body.loc(wb),
                   "the slot is written with the container's lock held: in the full-sync ring the lock is the reservation (tail only moves at publication)" if ok else
                   "the slot is written after the container's lock was released: another producer can reserve and publish the same slot meanwhile (lost / phantom event)")
        for y in [b for b in body.reachable if body.term(b)[0] == "Yield"]:
            if any(body.dominates(r, y) for r in res) and any(y in body.reach_from(r) and p_ in body.reach_from(y) for r in res for p_ in pubs):
                n6 += 1
                ok = an.must_hold(y, lockp)
                ctx.ob(rule, f"{f['key']}|reservation-kept-across-the-await", ok, body.loc(y),
                       "between reservation and publication the lock (= the reservation) is never given up, not even across the setter's await")
    ctx.ob(rule, "full-sync|instances", n6 >= 3, "", f"{n6} write / await sites between a full-sync reservation and its publication", nontrivial=False)


def check_setters_consumed(ctx, rule):
    """the payload setter handed to a send / allocation is never silently dropped: on every path of every function that takes a `setter` parameter the closure is
    invoked, handed on to the callee that will invoke it (or into the closure / coroutine that does), or handed back to the caller.  A path that lets it fall out
    of scope publishes (or returns) a slot nobody initialised: the stream yields the slot's previous content instead of the payload that was sent."""
    fx = ctx.fx
    n = 0
    for f in fx.fns:
        if f.get("is_coroutine"): continue
        body = Body(f)
        for l in range(1, f["argc"] + 1):
            nm = body.lname(l) or ""
            if not nm.startswith("setter"): continue
            n += 1
            uses = set()
            for b in body.reachable:
                for st in body.stmts(b):
                    if st[0] != "A": continue
                    rv = st[2]
                    ops = [rv[1]] if rv[0] in ("Use", "Cast") and isinstance(rv[1], list) else (rv[2] if rv[0] == "Agg" else [])
                    for o in ops:
                        if isinstance(o, list) and o and o[0] in ("m", "c") and o[1]["l"] == l and not o[1]["p"]: uses.add(b)
                t = body.term(b)
                if t[0] == "Call":
                    for o in t[1]["args"]:
                        if o[0] in ("m", "c") and o[1]["l"] == l and not o[1]["p"]: uses.add(b)
            # copies of the parameter into temporaries count as uses only if the temporary is used: follow one level
            esc = [r for r in body.returns if r in ({0} | body.reach_from(0, avoid=frozenset(uses)))] if 0 not in uses else []
            if esc:
                # a path that answers `None` because the allocation / reservation failed has nothing to fill: the setter may simply go out of scope there
                # (`let (slot, id) = self.alloc_ref()?; setter(slot); ..`).  Only answers other than None on a setter-less path are reported.
                region = {0} | body.reach_from(0, avoid=frozenset(uses))
                only_none = True
                for b_ in region:
                    for st_ in body.stmts(b_):
                        if st_[0] == "A" and not st_[1]["p"] and st_[1]["l"] == 0 and not (st_[2][0] == "Agg" and st_[2][1][0] == "Adt" and st_[2][1][2] == "None"): only_none = False
                    t_ = body.term(b_)
                    if t_[0] == "Call" and t_[1].get("dst") and not t_[1]["dst"]["p"] and t_[1]["dst"]["l"] == 0 and not (t_[1].get("f") or "").endswith("FromResidual::from_residual"): only_none = False
                if only_none and body.locals[0]["ty"].startswith("std::option::Option"): esc = []
            ctx.ob(rule, f"{f['key']}|{nm}-consumed-on-every-path", not esc, body.loc(esc[0]) if esc else f"{f['file']}:{f['line']}",
                   "the setter is invoked, forwarded or handed back on every path" if not esc else
                   "a path returns without invoking, forwarding or handing back the setter: the slot it should have filled is published / returned uninitialised")
    ctx.ob(rule, "setter-parameters|instances", n >= 30, "", f"{n} functions with a setter parameter", nontrivial=False)
