"""C13 - pool allocator: a slot has at most one owner; exhaustion and reuse are exact (necessary structural conditions)."""
import dag as D, guards, util, ts, roles as R, facts as F
from dag import strip_casts, show
from mir import Body, op_local

LEVEL = "other"
EXPLANATION = ("(R13.4) the free-list rings satisfy the ring shape conditions and wrap-safety rules shared with C02 / C15 (exact fullness/emptiness guards on wrapping distances, ordered commit, index agreement). Necessary shape conditions of slot exclusivity, decided on all paths of the allocator: (R13.1) alloc_ref hands out exactly the id "
               "it dequeued from the free list (one dequeue per returned slot, slot = pool[id]); dealloc_id destroys the payload (when it "
               "needs drop) strictly before re-enqueueing exactly the id it was given, once; `new` fills the free list with exactly "
               "0..POOL_SIZE; only new/alloc_ref/dealloc_id (and Debug) touch the free list; (R13.2) id<->ref conversions are inverse maps over "
               "the same pool base, alloc_with* go through alloc_ref; (R13.3) who-may-call dealloc: only the owners of a slot (handle Drop "
               "impls, zero-copy release/unleak, reservation cancel). Exclusivity under concurrent alloc/dealloc reduces to the free list's "
               "queue correctness (C01/C02), which is not decided here.")
EXPLANATION += " R13.1 also: alloc_ref answers (None included) only after asking the free list (dequeue or its own length query; no early-out on a side counter), drop_in_place is instantiated at the payload type and sits on the needs_drop side, and read-only length / debug queries of the free list are allowed anywhere; R13.3 has a second layer: the zero-copy containers' unleak_slot_* / release_leaked_* are called only by their consume and the channels' try_cancel_slot_reserve, and each gives its own slot back exactly once per path."
EXPLANATION += " (R13.5) C14's unique -> shared conversion rules (no slot freed twice); (R13.6) the zero-copy containers' consume runs the getter before giving the slot back (C01 R01.1)."
ASSUMPTIONS = ["free-list queue (AtomicMove / FullSyncMove) delivers each enqueued id exactly once: C01/C02 clauses"]

POOL = R.POOL
T = R.T_ALLOC

def _walk_e(e, depth=0):
    if not isinstance(e, tuple) or depth > 12: return
    yield e
    for x in e:
        if isinstance(x, tuple): yield from _walk_e(x, depth + 1)


def check(ctx):
    fx = ctx.fx
    k = lambda n: f"{POOL} as {T}::{n}"
    # ---------------------------------------------------------------- R13.1 alloc_ref
    body = Body(fx.fn(k("alloc_ref"))); dg = D.Dag(body)
    deqs = [(b, c) for (b, c) in body.calls if c.get("fname") == "consume_movable" and util.arg_path(body, c, 0) == ("free_list",)]
    ok = len(deqs) == 1 and not util.in_loop(body, deqs[0][0])
    ctx.ob("R13.1", f"{k('alloc_ref')}|one-dequeue", ok, f"{body.f['file']}:{body.f['line']}", f"{len(deqs)} free-list dequeue(s); exactly one per call, not in a loop")
    # allocation fails only if the free list was found empty: every path to a return passes through the dequeue (no early-out on a side counter / flag / hint)
    if len(deqs) == 1:
        # (an early-out on the free list's own length query is an answer of the list too: it was empty at that instant)
        asks_len = {b for (b, c) in body.calls if c.get("fname") in ("available_elements_count", "is_empty", "len") and util.arg_path(body, c, 0) == ("free_list",)}
        esc = [r for r in body.returns if r in body.reach_from(0, avoid=frozenset({deqs[0][0]} | asks_len))] if deqs[0][0] != 0 and 0 not in asks_len else []
        ctx.ob("R13.1", f"{k('alloc_ref')}|fails-only-when-the-free-list-is-empty", not esc, body.loc(esc[0]) if esc else f"{body.f['file']}:{body.f['line']}",
               "every answer of alloc_ref (the None included) is produced after asking the free list" if not esc else
               "alloc_ref can answer without asking the free list: a side counter / hint decides 'exhausted' while free ids may be queued (and must then agree with the list under every interleaving)")
    # returned tuple (slot_ref, slot_id)
    ret = dg.local(0)
    somes = [a for a in (ret[3] if ret[0] == "phi" else (ret,)) if a[0] == "adt" and a[1] == "Some"]
    okr = False; detail = show(ret)
    for sm in somes:
        tup = sm[2][0]
        if tup[0] == "tuple" and len(tup[1]) == 2:
            rid = strip_casts(tup[1][1]); rref = tup[1][0]
            id_ok = rid[0] == "field" and rid[2][0] == "variant" and rid[2][1] == "Some" and rid[2][2][0] == "call" and rid[2][2][1].endswith("consume_movable")
            ref_ok = rref[0] == "call" and rref[1].endswith("get_unchecked_mut") and D.norm(strip_casts(rref[2][1])) == D.norm(rid)
            okr = id_ok and ref_ok
            detail = f"returns (ref={show(rref)}, id={show(rid)})"
    ctx.ob("R13.1", f"{k('alloc_ref')}|returns-dequeued-id-and-its-slot", okr, f"{body.f['file']}:{body.f['line']}", detail + "; required: id = the dequeued value, ref = pool[id]")
    # ---------------------------------------------------------------- R13.1 dealloc_id
    body = Body(fx.fn(k("dealloc_id"))); dg = D.Dag(body)
    enq = [(b, c) for (b, c) in body.calls if c.get("fname") in ("publish_movable", "publish") and util.arg_path(body, c, 0) == ("free_list",)]
    dip = [(b, c) for (b, c) in body.calls if c.get("fname") == "drop_in_place"]
    ok = len(enq) == 1 and util.on_every_return_path(body, enq[0][0]) and not util.in_loop(body, enq[0][0])
    ctx.ob("R13.1", f"{k('dealloc_id')}|one-enqueue", ok, f"{body.f['file']}:{body.f['line']}", f"{len(enq)} free-list enqueue(s); exactly one on every path")
    if enq:
        e = strip_casts(dg.expr(enq[0][1]["args"][1]))
        ctx.ob("R13.1", f"{k('dealloc_id')}|enqueues-own-id", e[:2] == ("param", 2), body.loc(enq[0][0]), f"enqueues `{show(e)}`; must be the id it was asked to free")
        after = body.reach_from(enq[0][0])
        bad = [b for (b, c) in dip if b in after or b == enq[0][0]]
        ctx.ob("R13.1", f"{k('dealloc_id')}|destroy-before-reuse", not bad and len(dip) >= 1, body.loc(bad[0]) if bad else body.loc(enq[0][0]),
               "payload destruction must come strictly before the slot id re-enters the free list (otherwise a concurrent alloc gets a slot whose old value is still being dropped)")
        for (b, c) in dip:
            ctx.ob("R13.1", f"{k('dealloc_id')}|destroy-once", not util.in_loop(body, b), body.loc(b), "drop_in_place at most once per call")
            e = dg.expr(c["args"][0])
            s_ = show(e)
            okslot = "get_unchecked_mut" in s_ and "pool" in s_
            ctx.ob("R13.1", f"{k('dealloc_id')}|destroys-own-slot", okslot, body.loc(b), f"destroys `{s_}`; must be pool[slot_id]")
            # ... for the types that have a destructor: a `needs_drop` test on the way selects the branch where it answered true
            side = True
            for x in body.reachable:
                t_ = body.term(x)
                if t_[0] == "Switch" and t_[5] == "bool" and body.dominates(x, b):
                    e_ = strip_casts(dg.expr(t_[1])); neg_ = False
                    while e_[0] == "un" and e_[1] == "Not": e_ = strip_casts(e_[2]); neg_ = not neg_
                    if e_[0] == "call" and e_[1].endswith("needs_drop"):
                        false_t = ([tg for (v, tg) in t_[2] if v == 0] or [None])[0]
                        yes = t_[3] if not neg_ else false_t
                        no = false_t if not neg_ else t_[3]
                        if no is not None and (body.dominates(no, b) or no == b) and not (body.dominates(yes, b) or yes == b): side = False
            ctx.ob("R13.1", f"{k('dealloc_id')}|destroys-when-the-type-needs-drop", side, body.loc(b), "the destructor runs on the branch where needs_drop::<DataType>() is true (or unconditionally)")
            # the destructor that runs is the payload's: drop_in_place::<ManuallyDrop<T>> / ::<MaybeUninit<T>> / ::<*mut T> compiles and does nothing
            targ = [g[1] for g in (c.get("gargs") or []) if g and g[0] == "T"]
            inert = bool(targ) and (targ[0].split("<")[0].endswith(("ManuallyDrop", "MaybeUninit")) or targ[0].startswith(("*", "&")))
            ctx.ob("R13.1", f"{k('dealloc_id')}|destroys-the-payload-type", bool(targ) and not inert, body.loc(b),
                   f"drop_in_place::<{targ[0] if targ else '?'}>; required: the payload type itself (a wrapper whose own drop glue is empty would leave every pooled value undestroyed)")
    # ---------------------------------------------------------------- R13.1 initial fill
    body = Body(fx.fn(k("new"))); dg = D.Dag(body)
    rng = None
    for b in body.reachable:
        for st in body.stmts(b):
            if st[0] == "A" and st[2][0] == "Agg" and st[2][1][0] == "Adt" and st[2][1][1].endswith("ops::Range"):
                ops = [strip_casts(dg.expr(o)) for o in st[2][2]]
                rng = (ops, b)
    pubs = [(b, c) for (b, c) in body.calls if c.get("fname") == "publish_movable"]
    ok = rng is not None and rng[0][0] == ("const", 0) and rng[0][1] == ("gconst", "POOL_SIZE") and len(pubs) == 1 and util.in_loop(body, pubs[0][0])
    ctx.ob("R13.1", f"{k('new')}|initial-fill-0..POOL_SIZE", ok, f"{body.f['file']}:{body.f['line']}", f"free list filled over range {[show(x) for x in rng[0]] if rng else None}; required 0..POOL_SIZE, one enqueue per iteration")
    if pubs:
        e = dg.expr(pubs[0][1]["args"][1])
        ctx.ob("R13.1", f"{k('new')}|fills-with-loop-variable", "next" in show(e) or e[0] in ("field", "variant", "phi"), body.loc(pubs[0][0]), f"enqueues `{show(e)}` (the iterated id)")
    # who may touch free_list
    allowed = {"new", "alloc_ref", "dealloc_id", "fmt"}
    READONLY_QUERIES = {"available_elements_count", "debug_info", "max_size", "fmt", "is_empty", "is_full", "len"}
    for f in fx.fns:
        if POOL not in (f.get("impl_self") or "") and "free_list" not in str(f.get("dbg")): 
            pass
        body = Body(f)
        hit = False
        for b in body.reachable:
            for st in body.stmts(b):
                if st[0] == "A":
                    for pl in ([st[1]] + ([st[2][2]] if st[2][0] in ("Ref", "RawPtr") else [])):
                        if any(e != "*" and e[0] == "f" and e[1] == "free_list" and e[3] == POOL for e in pl["p"]): hit = True
        if hit:
            n = f["owner_fn"].split("::")[-1]
            # a read-only length / debug query of the free list (free_slots_count(), is_full(), Debug ...) takes nothing from it and gives nothing back:
            # only functions that hand the list to something other than its read-only queries are restricted
            dgf = D.Dag(body)
            uses = [(b, c) for (b, c) in body.calls if any((lambda e: e[0] in ("ref", "mem") and "free_list" in e[1])(strip_casts(dgf.expr(a))) for a in c["args"])]
            readonly = bool(uses) and all(c.get("fname") in READONLY_QUERIES for (_, c) in uses) and not any(
                st[0] == "A" and any(e != "*" and e[0] == "f" and e[1] == "free_list" and e[3] == POOL for e in st[1]["p"]) for b in body.reachable for st in body.stmts(b))
            ctx.ob("R13.1", f"{f['owner_fn']}|touches-free-list", n in allowed or readonly, f"{f['file']}:{f['line']}",
                   f"`{n}` accesses the free list ({'read-only queries only' if readonly else 'may take / give ids'}); allowed to take / give: {sorted(allowed)}")
    # ---------------------------------------------------------------- R13.2 inverses
    b1 = Body(fx.fn(k("id_from_ref"))); d1 = D.Dag(b1)
    e = strip_casts(d1.local(0)); s1 = show(e)
    ok1 = "offset_from" in s1 and "get_unchecked" in s1 and "pool" in s1 and "0" in s1
    ctx.ob("R13.2", f"{k('id_from_ref')}|offset-from-pool-base", ok1, f"{b1.f['file']}:{b1.f['line']}", f"id = `{s1}`; required: offset of the ref from element 0 of the pool")
    b2 = Body(fx.fn(k("ref_from_id"))); d2 = D.Dag(b2)
    e = d2.local(0); s2 = show(e)
    idx = [(b, c) for (b, c) in b2.calls if c.get("fname") in ("get_unchecked_mut", "get_unchecked")]
    ok2 = len(idx) == 1 and "pool" in s2
    if ok2:
        i = strip_casts(d2.expr(idx[0][1]["args"][1]))
        is_param = lambda v: strip_casts(v)[0] == "param" and strip_casts(v)[1] == 2
        ok2 = is_param(i) or (i[0] == "bin" and i[1] == "Rem" and is_param(i[2]) and strip_casts(i[3]) == ("gconst", "POOL_SIZE"))
    ctx.ob("R13.2", f"{k('ref_from_id')}|index-into-pool", ok2, f"{b2.f['file']}:{b2.f['line']}", f"ref = `{s2}`; required: pool[id]")
    for n in ("alloc_with", "alloc_with_async"):
        ks = [x for x in fx.by_key if x.startswith(k(n))]
        has = False
        for x in ks:
            bb = Body(fx.fn(x))
            if any(c.get("fname") == "alloc_ref" for (_, c) in bb.calls): has = True
            if any(c.get("fname") == "consume_movable" for (_, c) in bb.calls):
                ctx.ob("R13.2", f"{x}|bypasses-alloc_ref", False, f"{bb.f['file']}:{bb.f['line']}", "dequeues from the free list directly")
        ctx.ob("R13.2", f"{k(n)}|goes-through-alloc_ref", has, "", f"{n} allocates through alloc_ref")
    bd = Body(fx.fn(k("dealloc_ref")))
    okd = any(c.get("fname") == "dealloc_id" for (_, c) in bd.calls) and any(c.get("fname") == "id_from_ref" for (_, c) in bd.calls)
    ctx.ob("R13.2", f"{k('dealloc_ref')}|via-id", okd, f"{bd.f['file']}:{bd.f['line']}", "dealloc_ref = dealloc_id(id_from_ref(ref))")
    # ---------------------------------------------------------------- R13.3 who may call dealloc
    ALLOWED = {
        f"{R.UNIQUE} as std::ops::Drop::drop", f"{R.ARC} as std::ops::Drop::drop", k("dealloc_ref"),
    }
    ALLOWED_SUFFIX = ("::release_leaked_ref", "::release_leaked_id", "::unleak_slot_ref", "::unleak_slot_id", "::try_cancel_slot_reserve")
    n = 0
    for f in fx.fns:
        for blk in f["blocks"]:
            t = blk["term"]
            if t[0] == "Call" and t[1].get("fname") in ("dealloc_id", "dealloc_ref") and (t[1].get("trait") == T or POOL in (t[1].get("f") or "")):
                n += 1
                owner = f["owner_fn"]
                ok = owner in ALLOWED or owner.endswith(ALLOWED_SUFFIX)
                if not ok and len(t[1]["args"]) > 1:
                    # freeing the slot whose id this very function just dequeued from the container's ring (consume with its helpers inlined, a drain): it owns it
                    fb_ = Body(f); fd_ = D.Dag(fb_)
                    ok = any(isinstance(x, tuple) and x[:1] == ("call",) and x[1].split("::")[-1] in ("consume_leaking", "consume_movable") for x in _walk_e(fd_.expr(t[1]["args"][1])))
                ctx.ob("R13.3", f"{owner}|calls|{t[1]['fname']}", ok, f"{f['file']}:{t[1]['line']}", f"`{owner.split('::')[-1]}` frees a pool slot; only owners of a slot may (handle drops, zero-copy release/unleak, reservation cancel)")
    # second layer: the zero-copy containers' own slot-freeing functions (unleak_slot_* = give an allocated slot back, release_leaked_* = free a consumed one)
    # run the payload's destructor on whatever the slot holds.  Their reviewed callers: the container's own `consume` (published => written) and the channels'
    # `try_cancel_slot_reserve` (documented for payloads without destructor).  Any other caller -- a drop guard that un-leaks on cancellation, a clean-up helper --
    # destroys a slot nobody is known to have written, or one somebody still holds.
    FREEING = ("unleak_slot_id", "unleak_slot_ref", "release_leaked_id", "release_leaked_ref")
    OK2 = ("::try_cancel_slot_reserve", "MetaSubscriber::consume")
    for f in fx.fns:
        for blk in f["blocks"]:
            t = blk["term"]
            if t[0] == "Call" and t[1].get("fname") in FREEING and ("MetaPublisher" in (t[1].get("f") or "") or "MetaSubscriber" in (t[1].get("f") or "") or "zero_copy" in (t[1].get("f") or "")):
                owner = f["owner_fn"]
                if owner.endswith(ALLOWED_SUFFIX[:4]) : continue       # the container functions delegating to each other (by ref -> by id)
                ok = owner.endswith(OK2)
                if not ok and t[1]["fname"].startswith("release_leaked") and len(t[1]["args"]) > 1:
                    # releasing a slot this very function just dequeued (a drain / clear built on consume_leaking + release_leaked_*): dequeued => published => written
                    fb_ = Body(f); fd_ = D.Dag(fb_)
                    ok = any(isinstance(x, tuple) and x[:1] == ("call",) and x[1].split("::")[-1] in ("consume_leaking", "consume_movable") for x in _walk_e(fd_.expr(t[1]["args"][1])))
                ctx.ob("R13.3", f"{owner}|calls|{t[1]['fname']}", ok, f"{f['file']}:{t[1]['line']}",
                       f"`{owner.split('::')[-1]}` frees a zero-copy slot through `{t[1]['fname']}` (runs the payload's destructor on the slot's bytes and recycles it); reviewed callers: the container's consume and try_cancel_slot_reserve")
    # ... and each of those container functions really gives the slot back: exactly one allocator dealloc of its own argument on every path
    # (an un-leak / release that forgets the dealloc loses the slot for good: the channel never again accepts BUFFER_SIZE events)
    for adt in (R.AZC, R.FZC):
        for fn in FREEING:
            for kk in [x for x in fx.by_key if x.startswith(adt + " as ") and x.endswith("::" + fn)]:
                bb = Body(fx.fn(kk)); bd_ = D.Dag(bb)
                ds = [(b, c) for (b, c) in bb.calls if c.get("fname") in ("dealloc_id", "dealloc_ref", "unleak_slot_id", "unleak_slot_ref", "release_leaked_id", "release_leaked_ref")]
                blocks = {b for (b, _) in ds}
                lo, hi, inloop = util.count_on_paths(bb, lambda b: b in blocks)
                own = all(any(isinstance(x, tuple) and ((x[:1] == ("param",) and x[1] == 2) or (x[0] in ("ref", "mem") and "<arg2>" in x[1])) for x in _walk_e(bd_.expr(c["args"][1]))) for (_, c) in ds if len(c["args"]) > 1)
                ctx.ob("R13.3", f"{kk}|gives-the-slot-back", (lo, hi) == (1, 1) and not inloop and own, f"{bb.f['file']}:{bb.f['line']}",
                       f"{lo}..{hi} deallocation(s) of the slot it was given per path; required exactly one")
    ctx.floor("R13.1", 9); ctx.floor("R13.2", 5); ctx.floor("R13.3", 21)
    # ---------------------------------------------------------------- R13.4 the free list itself: ring shape + wrap safety (shared with C02 / C15)
    # "allocation fails only if all were outstanding", "a deallocated slot becomes allocatable again" and the property's explicit
    # "sequence-counter wrap of the free list" rest on the free-list ring's guards being exact and wrap-safe
    import importlib
    C02 = importlib.import_module("props.C02"); C15 = importlib.import_module("props.C15")
    class Ring(util.PrefixedCtx):
        def ob(self, rule, key, ok, site="", detail="", nontrivial=True, undecided=False):
            if rule in ("R02.1", "R02.2", "R02.3", "R02.4"): return super().ob(rule, key, ok, site, detail, nontrivial, undecided)      # (R02.4: the full-sync free list is serialised by one lock, released exactly once per acquisition)
            if rule in ("R15.1", "R15.2", "R15.3") and ("atomic_move" in key or "full_sync_move" in key or "ogre_array_pool_allocator" in key): return super().ob(rule, key, ok, site, detail, nontrivial, undecided)
            return ok
    C02.check(Ring(ctx, "R13.4")); C15.check(Ring(ctx, "R13.4"))
    # 'one owner per pool slot' across the OgreUnique -> OgreArc conversion (shared with C14 R14.5 / R14.8): a conversion that lets the unique handle's Drop run frees
    # the slot the new shared handle still owns -- the slot is handed out twice (two accepted events in one slot) and freed twice
    if getattr(ctx, "pid", None) == "C13" and not isinstance(ctx, util.PrefixedCtx): __import__("importlib").import_module("props.C14").check_unique_to_shared(ctx, "R13.5")
    # R13.6 a slot is not given back while its content is still being read: the zero-copy containers' consume runs the getter before release_leaked_* (shared with C01 R01.1)
    __import__("importlib").import_module("props.C01").check_zero_copy_getters(util.PrefixedCtx(ctx, "R13.6"), "R01.1")
    ctx.floor("R13.4", 30 if ctx.config == "lib" else 20)
