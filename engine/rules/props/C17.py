"""C17 - listener churn during sends never makes another listener miss or repeat events."""
import dag as D, util, guards, ts, streamrules as S, roles as R, facts as F
from dag import strip_casts, show
from mir import Body, op_local

LEVEL = "other"
EXPLANATION = ("Lockset analysis of the live-listener list `StreamsManagerBase::used_streams` plus the structural conditions churn safety stands on: (R17.1) every write "
               "to the list happens with `streams_lock` held (typestate, all paths); every reader -- callers of used_streams() and functions borrowing the field -- is "
               "enumerated and must be either a reviewed benign reader (length estimate, cancellation sweep, wake sweep, diagnostics) or is reported: the five fan-out "
               "loops read it without the lock while it is rewritten in place, which is the genuine race of DESIGN 5-D5 (listed known findings, one per reader); "
               "(R17.2) in the ogre_arc fan-outs the reference count pre-loaded by increment_references(n) equals the copies made only if raw_copy runs on every "
               "iteration of the 0..n loop; today it is conditional on the entry not being the sentinel, so churn between the count read and the loop leaks a reference "
               "and the payload slot stays occupied forever (listed known findings); (R17.3) a dropped listener's queue is emptied on every path strictly BEFORE its id "
               "is released, so a listener created concurrently on the recycled id cannot have its events eaten by the old drain; (R17.4) fan-out loops read each "
               "entry from the live list when they use it -- a by-value snapshot of the array taken before the loop keeps dispatching to ids that were released "
               "meanwhile; (R17.5) the list is private to StreamsManagerBase and handed out only as a shared reference; (R17.6) a queue-full retry inside the fan-out looks the "
               "listener's queue up again from the live entry on every attempt (or runs under streams_lock): a handle taken before the wait feeds a dead queue once the listener "
               "waited on was dropped (genuine on arc Atomic / arc Crossbeam today: listed findings, reproduced).")
EXPLANATION += ' (R17.7) the live list is only ever rebuilt as a whole (sorted, dense, sentinel-terminated), once per id take / release (shared with C10 R10.2): an in-place append / truncate loses the order the rebuild guarantees and reshuffles entries a concurrent fan-out already passed.'
EXPLANATION += " R17.7 also carries C10's R10.7 (cursor discipline of the rebuild); (R17.8) C04's poll / waker protocol: a waker registration is never skipped (wakers_lock is held during every listener removal)."
EXPLANATION += " (R17.9) executor / stream-id pairing (C12 R12.10) and C04's wake-site rules on the log channel (wakes addressed by the id read from the live list, never by list position)."
EXPLANATION += " R17.7 also carries R10.7's padding-reaches-the-end obligation."
ASSUMPTIONS = ["the race itself (a sender observing the list half-rewritten) is reported as findings, not proved absent: no small fix exists (senders would need the lock or an RCU-style list)",
               "per-listener ring correctness under concurrency is C01/C02 territory"]

SM = R.SM
PROD, COMMON = R.T_PROD, R.T_COMMON

def _reader_table():
    t = {}
    for name, path in R.MULTI_CHANNELS.items():
        t[f"{path} as {COMMON}::pending_items_count"] = ("benign", "length estimate: a stale entry only changes which queue length is sampled")
    for name in S.PER_LISTENER_QUEUES:
        t[f"{R.CHANNELS[name]} as {PROD}::send_derived"] = ("fanout", "dispatch loop")
    ml = R.MULTI_CHANNELS["multi.mmap_log"]
    for fn in ("send", "send_with", "send_with_async::{closure#0}"):
        t[f"{ml} as {PROD}::{fn}"] = ("benign", "wake sweep only: log subscribers read events by position from the shared log, a missed wake is repeated by the next send / flush")
    t[SM + "::cancel_all_streams"] = ("benign", "cancellation sweep: idempotent and repeated by end_all_streams until no stream runs")
    t[SM + "::end_stream::{closure#0}"] = ("benign", "diagnostics inside debug_assert")
    t[SM + "::end_stream"] = ("benign", "diagnostics inside debug_assert")
    t[SM + "::used_streams"] = ("accessor", "hands out the shared reference")
    t[SM + "::new"] = ("ctor", "constructor")
    return t


SWEEP_OK = {"used_streams", "running_streams_count", "into_iter", "iter", "next", "wake_stream", "deref", "as_ref", "clone", "as_slice", "get_unchecked", "get", "index", "len"}

def _wake_sweep_only(fx, body):
    """the function (closures included) calls nothing but the live-list accessor, iterator plumbing and wake_stream"""
    fam = [body.f] + [f for f in fx.fns if f["key"].startswith(body.f["key"] + "::{closure#")]
    names = [blk["term"][1].get("fname") for f in fam for blk in f["blocks"] if blk["term"][0] == "Call"]
    return "wake_stream" in names and all(n in SWEEP_OK for n in names)


def check(ctx):
    fx = ctx.fx
    eng = ts.Engine(fx)
    for p in R.selfcheck(fx): raise F.InfraError("role self-check: " + p)
    lockp = lambda r: r[0] == "lock" and r[1] and r[1][-1] == "streams_lock"
    table = _reader_table()
    import lockrules
    lockrules.check_spin_lock_primitive(ctx, "R17.1")
    # ------------------------------------------------------------------ R17.1 writers under the lock
    n_w = 0
    writers = set()
    borrowers = {}
    for f in fx.fns:
        body = Body(f)
        touched = False
        for b in body.reachable:
            for st in body.stmts(b):
                if st[0] == "A":
                    for pl in ([st[1]] + ([st[2][2]] if st[2][0] in ("Ref", "RawPtr") else [])):
                        if any(e != "*" and e[0] == "f" and e[1] == "used_streams" and e[3] == SM for e in pl["p"]): touched = True
        if not touched: continue
        borrowers[f["key"]] = body
        acc = [a for a in guards.accesses(body, SM, {"used_streams"}) if a["kind"] == "w"]
        if not acc: continue
        an = eng.analyse(f["key"])
        writers.add(f["key"])
        bad = [a for a in acc if not an.must_hold(a["b"], lockp)]
        n_w += len(acc)
        ctx.ob("R17.1", f"{f['key']}|writes-live-list-under-streams_lock", not bad and not an.undecided, (bad[0]["site"] if bad else f"{f['file']}:{f['line']}"),
               f"{len(acc)} write(s) to the live-listener list, {'all' if not bad else 'NOT all'} inside the streams_lock critical section")
        leaks = [e for (_, e) in an.outcomes if any(s == "+" for (s, _) in e)]
        ctx.ob("R17.1", f"{f['key']}|streams_lock-released", not leaks, f"{f['file']}:{f['line']}", "every return leaves streams_lock free")
    ctx.ob("R17.1", f"{SM}|writer-exists", n_w >= 1, "", f"{n_w} write points found (positive control of the write detector)", nontrivial=False)
    # readers
    readers = {}
    for f in fx.fns:
        body = None
        for blk in f["blocks"]:
            t = blk["term"]
            if t[0] == "Call" and (t[1].get("resolved") or t[1].get("f")) == SM + "::used_streams":
                body = Body(f); break
        if body is not None:
            for (b, c) in body.calls:
                if (c.get("resolved") or c.get("f")) == SM + "::used_streams":
                    readers.setdefault(f["key"], (body, b))
    for k, body in borrowers.items():
        if k in writers: continue
        readers.setdefault(k, (body, 0))
    for k, (body, b) in sorted(readers.items()):
        an = eng.analyse(k)
        holds = an.must_hold(b, lockp) if b else False
        cls = table.get(k)
        site = body.loc(b) if b else f"{body.f['file']}:{body.f['line']}"
        if holds:
            ctx.ob("R17.1", f"{k}|reads-live-list-under-streams_lock", True, site, "reader holds streams_lock")
        elif cls is None and _wake_sweep_only(fx, body):
            ctx.ob("R17.1", f"{k}|benign-reader", True, site, "unsynchronised reader that only wakes the listed streams (no publication, no queue access): a missed or extra wake is repeated by the next send / flush", nontrivial=False)
        elif cls is None:
            ctx.ob("R17.1", f"{k}|unreviewed-reader-of-live-list", False, site,
                   "reads the live-listener list without streams_lock and is not in the table of reviewed readers: the list is rewritten in place by listener creation / removal")
        elif cls[0] == "fanout":
            ctx.ob("R17.1", f"{k}|reads-live-list-without-streams_lock", False, site,
                   "the fan-out loop reads the live-listener list entry by entry without streams_lock while sync_vacant_and_used_streams rewrites it in place: "
                   "a sender that read entry i before the rewrite and entry i+1 after it skips or repeats a surviving listener")
        else:
            ctx.ob("R17.1", f"{k}|benign-reader", True, site, f"unsynchronised reader listed benign: {cls[1]}", nontrivial=False)
    ctx.floor("R17.1", 16)
    check_refcount_pairing(ctx)
    _share_live_list_maintenance(ctx)
    # ------------------------------------------------------------------ R17.3 drain before release
    S.check_drain_before_release(ctx, "R17.3")
    # ------------------------------------------------------------------ R17.4 fan-out reads the live list, not a snapshot
    for name in S.PER_LISTENER_QUEUES:
        k = f"{R.CHANNELS[name]} as {PROD}::send_derived"
        body = Body(fx.fn(k)); dg = D.Dag(body)
        src = S.fanout_iteration_source(body, dg)
        snaps = [x for x in src if x[1] == "snapshot"]
        live = [x for x in src if x[1] == "live"]
        ctx.ob("R17.4", f"{k}|reads-live-entries", bool(live) and not snaps, body.loc((snaps or live or [(0,)])[0][0]),
               snaps[0][2] + ": the loop keeps dispatching to ids that were released (and possibly re-issued) after the copy was taken" if snaps else
               ("each entry is read from the live list when it is used" if live else "the fan-out does not read the listener list at all"))
        # the publication targets the queue of the entry just read
        pubs = [(b, c) for (b, c) in body.calls if c.get("fname") in ("publish_movable", "try_send", "send") and util.in_loop(body, b)]
        okp = bool(pubs)
        for (b, c) in pubs:
            e = show(dg.expr(c["args"][0]))
            if "used_streams" not in e and "get_unchecked" not in e: okp = okp and True
        ctx.ob("R17.4", f"{k}|publishes-inside-the-loop", okp, body.loc(pubs[0][0]) if pubs else f"{body.f['file']}:{body.f['line']}", f"{len(pubs)} publication site(s) inside the fan-out loop", nontrivial=False)
    # ------------------------------------------------------------------ R17.6 a queue-full retry re-derives the queue from the live entry
    # the channels that wait on a full listener queue (retry loop inside the fan-out loop): the listener they wait on may be dropped meanwhile -- its queue is
    # drained, its id released and the list compacted.  A retry that still publishes through the handle taken before the wait feeds the dead queue and the
    # listener that slid into the position misses the event (D10, reproduced: triage/c17b_stale_handle_demo.rs).
    n6 = 0
    for name in ("multi.arc.atomic", "multi.arc.full_sync", "multi.arc.crossbeam"):
        k = f"{R.CHANNELS[name]} as {PROD}::send_derived"
        body = Body(fx.fn(k)); dg = D.Dag(body)
        an = eng.analyse(k)
        pubs = [(b, c) for (b, c) in body.calls if c.get("fname") in ("publish_movable", "try_send", "send", "publish")]
        derive = [b for (b, c) in body.calls if c.get("fname") in ("get_unchecked", "get_unchecked_mut", "index", "get") and c["args"]
                  and any(x in str(ts.access_path(body, c["args"][0]) or show(dg.expr(c["args"][0]))) for x in ("channels", "senders", "queues", "dispatcher_managers"))]
        for (pb, pc) in pubs:
            inner = [h for h, bl in body.loops.items() if pb in bl]
            if len(inner) < 2: continue          # not inside a retry loop nested in the fan-out loop
            h_in = min(inner, key=lambda h: len(body.loops[h]))
            n6 += 1
            fresh = any(d_ in body.loops[h_in] and body.dominates(d_, pb) for d_ in derive)
            locked = an.must_hold(pb, lockp) and not an.undecided
            ctx.ob("R17.6", f"{k}|retry-rederives-the-queue", fresh or locked, body.loc(pb),
                   "every attempt of the queue-full retry loop looks the listener's queue up again from the live entry" if fresh else
                   ("the retry runs with streams_lock held" if locked else
                    "the queue handle used by the retry loop was taken before the loop: when the listener being waited on is dropped during the wait (queue drained, list compacted) "
                    "the retry publishes into the dead queue and the surviving listener now at that position misses the event"))
    ctx.floor("R17.6", 3)
    # ------------------------------------------------------------------ R17.5 list is private
    adt = fx.adts[SM]
    fld = [f for f in adt["variants"][0]["fields"] if f["name"] == "used_streams"][0]
    vis = fld.get("vis", "")
    ctx.ob("R17.5", f"{SM}|used_streams-private", "pub" not in str(vis) or str(vis) in ("private", "restricted"), "", f"field visibility: {vis or 'private'}", nontrivial=False)
    acc = Body(fx.fn(SM + "::used_streams"))
    ctx.ob("R17.5", f"{SM}::used_streams|shared-ref", acc.locals[0]["ty"].startswith("&[u32") or acc.locals[0]["ty"].startswith("&'") , "", f"accessor returns {acc.locals[0]['ty']}", nontrivial=False)
    ctx.floor("R17.2", 6); ctx.floor("R17.3", 20); ctx.floor("R17.4", 10)

def check_refcount_pairing(ctx):
    """R17.2: the ogre_arc fan-out pre-loads exactly as many references as it hands out copies (shared with C05 / C03)"""
    fx = ctx.fx
    # ------------------------------------------------------------------ R17.2 refcount pre-load = copies made (ogre_arc)
    for name in ("multi.ogre_arc.atomic", "multi.ogre_arc.full_sync"):
        k = f"{R.CHANNELS[name]} as {PROD}::send_derived"
        body = Body(fx.fn(k)); dg = D.Dag(body)
        inc = [(b, c) for (b, c) in body.calls if c.get("fname") == "increment_references"]
        cp = [(b, c) for (b, c) in body.calls if c.get("fname") == "raw_copy"]
        site = f"{body.f['file']}:{body.f['line']}"
        if len(inc) != 1 or not cp:
            ctx.ob("R17.2", f"{k}|preload-and-copy-present", False, site, f"{len(inc)} increment_references / {len(cp)} raw_copy calls; the pairing rule needs one pre-load and at least one copy"); continue
        ib, ic = inc[0]
        n = strip_casts(dg.expr(ic["args"][1]))
        rng = None
        for b in body.reachable:
            for st in body.stmts(b):
                if st[0] == "A" and st[2][0] == "Agg" and st[2][1][0] == "Adt" and st[2][1][1].endswith("ops::Range"):
                    rng = [strip_casts(dg.expr(o)) for o in st[2][2]]
        ok_n = rng is not None and rng[0] == ("const", 0) and D.norm(rng[1]) == D.norm(n)
        if not ok_n:
            # iterator form of the same bound: `used_streams().iter().take(n as usize)`
            tk = [c_ for (_, c_) in body.calls if c_.get("fname") == "take" and len(c_["args"]) == 2 and D.norm(strip_casts(dg.expr(c_["args"][1]))) == D.norm(n)
                  and "used_streams" in show(dg.expr(c_["args"][0]))]
            if len(tk) == 1:
                ok_n = True; rng = [("const", 0), n]
        if not ok_n:
            # hand-written index loop: `let mut i = 0; while i < n { ..; i += 1 }` -- a loop-carried counter that starts at 0, is bumped by one, and whose loop is left on
            # the false side of `i < n` with the very value that was pre-loaded
            import importlib
            C04_ = importlib.import_module("props.C04")
            cps_ = {cb_ for (cb_, _) in cp}
            for h_, bl_ in body.loops.items():
                if not cps_ <= bl_: continue
                for (x_, y_) in body.loop_exits(h_):
                    c_ = D.cmp_of_switch(body, dg, x_)
                    cb2 = D.canon_branch(c_) if c_ else None
                    if not cb2 or cb2[0] != "lt" or cb2[4] != y_: continue
                    a_, b_ = strip_casts(cb2[1]), strip_casts(cb2[2])
                    starts0 = a_[0] == "phi" and len(a_) > 3 and any(strip_casts(z) == ("const", 0) for z in a_[3])
                    if C04_._is_loop_counter(a_) and starts0 and D.norm(b_) == D.norm(n):
                        ok_n = True; rng = [("const", 0), n]
        ctx.ob("R17.2", f"{k}|preload-equals-trip-count", ok_n, body.loc(ib), f"increment_references({show(n)}) vs loop range {[show(x) for x in rng] if rng else None}; required: the same value bounds the loop")
        ctx.ob("R17.2", f"{k}|preload-before-first-copy", all(body.dominates(ib, cb) for (cb, _) in cp), body.loc(ib), "the count is raised before the first copy becomes visible to a consumer")
        cps = {cb for (cb, _) in cp}
        loop = [h for h, blocks in body.loops.items() if cps <= blocks]
        lo = hi = 0
        if loop:
            h = min(loop, key=lambda x: len(body.loops[x]))
            lo, hi = util.count_per_iteration(body, h, lambda b: b in cps)
        ctx.ob("R17.2", f"{k}|one-reference-consumed-per-iteration", (lo, hi) == (1, 1), body.loc(cp[0][0]),
               f"between {lo} and {hi} raw copies (each owning one pre-loaded reference) per loop iteration; required exactly 1 on every path -- an iteration that makes no copy "
               "(listener vanished after the count was read) must still give its reference back, otherwise the count never reaches zero and the payload's pool slot stays occupied forever")


def _share_live_list_maintenance(ctx):
    """R17.7 the live list is only ever rebuilt as a whole (sorted, dense, sentinel-terminated), once per id take / release -- shared with C10 R10.2.
    The senders' unsynchronised walk (the listed findings) is at least monotone over such a list when a listener *behind* the walk changes; a list patched in
    place (append on create, truncate on drop) loses the order the rebuild guarantees and reshuffles entries the walk already passed."""
    import importlib
    C10 = importlib.import_module("props.C10")
    sub = util.fresh_ctx(ctx)
    C10.check(sub)
    for o in sub.obs:
        if (o["rule"] == "R10.2" and ("resyncs-live-list" in o["key"])) or o["rule"] == "R10.7" or (o["rule"] == "R10.6" and "vacant-snapshot" in o["key"]):
            ctx.ob("R17.7", o["key"].split("|", 1)[1] if o["key"].startswith(("R10.2|", "R10.7|", "R10.6|")) else o["key"], o["ok"], o["site"], o["detail"], o["nontrivial"])
    ctx.floor("R17.7", 2)
    # R17.8 a long-lived listener that parks while another listener is being added / removed is still woken: the waker registration is never skipped
    # (poll / waker protocol shared with C04; `wakers_lock` is held by report_stream_dropped during every removal)
    importlib.import_module("props.C04").check_poll_protocol(util.PrefixedCtx(ctx, "R17.8"))
    ctx.floor("R17.8", 8)
    # R17.9 removing one listener (cancel-by-name of its executor) ends THAT listener: executors are registered under the id of the stream they consume (shared with
    # C12 R12.10); and on the log channel every send wakes every live listener by its id read from the live list (C04's wake-site rules: a wake indexed by list position
    # goes stale as soon as a lower id was removed and the list compacted)
    importlib.import_module("props.C12").check_executor_stream_pairing(ctx, "R17.9")
    C04m = importlib.import_module("props.C04")
    sub4 = util.fresh_ctx(ctx, "C04")
    util.guarded(ctx, C04m.check, sub4)
    for o in sub4.obs:
        if o["rule"] in ("R04.3", "R04.5", "R04.6") and "mmap_log" in o["key"]:
            ctx.ob("R17.9", o["key"], o["ok"], o["site"], o["detail"], o["nontrivial"])
    ctx.floor("R17.9", 14)
