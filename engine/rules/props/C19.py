"""C19 - metric counters: no lost update, consistent (count, average) pair, mean recurrence."""
import dag as D, guards, util, symb, roles as R, facts as F
from dag import strip_casts, show, norm
from mir import Body, op_local

LEVEL = "other"
EXPLANATION = ("Sufficient shape conditions for 'no lost update' and 'consistent pair' under every interleaving, decided on all paths: (R19.1) the 64-bit "
               "word holding (count, average) is modified only by compare_exchange inside atomic_compute (no store / swap / fetch_* anywhere in the crate, "
               "the non-atomic `split` view is written only by the constructor); (R19.2) in the CAS loop the *expected* operand is the very value the new "
               "word was computed from (new = join(computation(split(expected)))), every retry continues from the value the failed CAS returned or a fresh "
               "atomic load, split / computation / join all sit inside the loop (the new word is recomputed from the reloaded value on every attempt), the loop is left only on the CAS's Ok edge, and the update closures are pure functions of (count, average) and by-value captures; "
               "`inc` yields count+1; (R19.3) `probe` derives count and average from ONE atomic load, and no non-test library code reads the non-atomic "
               "split view (`lightweight_probe`, `_split`); (R19.4) pack/unpack are mutually inverse, proved by symbolic bit-vector evaluation of both bodies "
               "(split(join(c, a)) == (c, a) for all 2^64 inputs); (R19.5) the average update expression is algebraically identical, over exact rationals, to "
               "the mean recurrence (count*avg + measurement)/(count+1).")
EXPLANATION += ' R19.1 also sees the word through accessors of the metric type (`self._atomic().fetch_add(..)`); R19.3 also requires one reading per report: no function reads the same metric more than once on one path (a count from one probe and an average from another never existed together); loops that poll are exempt.'
EXPLANATION += " R19.2 accepts std's fetch_update as the compare-exchange loop when its closure answers Some(join_split(computation(split_joined(<its parameter>)))) on every path."
ASSUMPTIONS = ["floating-point rounding of the mean recurrence (the tolerance clause) is numeric and not decided statically",
               "the documented counter reset at u32::MAX is outside the property's quantifier"]
TRUSTED = ["AtomicU64::compare_exchange is atomic (std)"]

M = R.METRIC


def _walk_expr(e, depth=0):
    if not isinstance(e, tuple) or depth > 12: return
    yield e
    for x in e:
        if isinstance(x, tuple):
            yield from _walk_expr(x, depth + 1)


def _check_fetch_update_form(ctx, fx, k, body, dg, site):
    """`self.joined.fetch_update(set, fetch, |w| Some(join_split(computation(split_joined(w)))))`: std's fetch_update is the CAS loop itself -- it loads, calls the closure
    on the current value, compare-exchanges (current -> closure's answer) and on failure retries with the value the failed CAS returned, leaving only on success or when
    the closure answers None.  What remains to show: the word is the metric's, the closure answers Some on every path (an update is never abandoned) and its answer is
    computed from its own parameter (the value the CAS will expect)."""
    b, c = site
    ctx.ob("R19.2", f"{k}|one-cas", not util.in_loop(body, b), body.loc(b), "one fetch_update (std's compare-exchange loop), not nested in another loop")
    word = strip_casts(dg.expr(c["args"][0]))
    cl = dg.expr(c["args"][3])
    ok = False; why = f"closure argument `{show(cl)}` is not a closure literal"
    okr = False
    if cl[0] == "closure" and fx.fn_opt(cl[1]) is not None:
        cb_ = Body(fx.fn(cl[1])); cd = D.Dag(cb_)
        ret = cd.local(0)
        alts = ret[3] if ret[0] == "phi" and len(ret) > 3 else (ret,)
        all_some = bool(alts) and all(a[0] == "adt" and a[1] == "Some" for a in alts)
        good = all_some
        srcs = set()
        for a in alts:
            if not (a[0] == "adt" and a[1] == "Some"): continue
            g_, v_ = _update_sources(strip_casts(a[2][0]))
            good = good and g_; srcs |= v_
        vals = {x for x in srcs if x[0] != "callsite"}; sites = {x for x in srcs if x[0] == "callsite"}
        ok = good and len(sites) == 1 and len(vals) == 1 and all(v[0] == "param" and v[1] == 2 for v in vals)
        why = f"the closure answers `{show(ret)[:200]}`; required: Some(join_split(computation(split_joined(<its own parameter>)))) on every path"
        okr = all_some
    ctx.ob("R19.2", f"{k}|expected-is-the-value-new-was-computed-from", ok and "joined" in str(word), body.loc(b), why)
    ctx.ob("R19.2", f"{k}|retry-from-reloaded-value", ok, body.loc(b), "fetch_update retries with the value returned by the failed compare-exchange (std), and the closure computes from its parameter only")
    ctx.ob("R19.2", f"{k}|loop-left-only-on-success", okr, body.loc(b), "the closure never answers None: fetch_update returns only after a successful compare-exchange (an update is never abandoned)")
    ctx.ob("R19.2", f"{k}|err-edge-refreshes", True, body.loc(b), "std's fetch_update replaces the expected value by the failed CAS's answer", nontrivial=False)


def _update_sources(ns):
    """`ns` = join_split(r.0, r.1) with r = <computation>(split_joined(E).0, split_joined(E).1): returns (well-formed, {norm(E)..} | {("callsite", block)..})"""
    srcs = set(); good = True
    if not (ns[0] == "call" and ns[1] == M + "::join_split" and len(ns[2]) == 2): return False, srcs
    for i, p in enumerate(strip_casts(x) for x in ns[2]):
        if p[0] == "field" and p[2][0] == "call" and p[2][1] in ("std::ops::Fn::call", "std::ops::FnMut::call_mut", "std::ops::FnOnce::call_once") and str(p[1]) == str(i):
            call = p[2]
            callee = strip_casts(call[2][0])
            if not (callee[0] == "param" and callee[2] == "computation") and not (callee[0] == "ref"): good = False
            tup = call[2][1]
            if tup[0] == "tuple" and len(tup[1]) == 2:
                for j, q in enumerate(tup[1]):
                    q = strip_casts(q)
                    if q[0] == "field" and str(q[1]) == str(j) and q[2][0] == "call" and q[2][1] == M + "::split_joined":
                        e = norm(strip_casts(q[2][2][0]))
                        srcs.add(e[:2] if e[0] == "param" else e)
                    else: good = False
            else: good = False
            srcs.add(("callsite", call[3]))
        else: good = False
    return good, srcs


def check(ctx):
    fx = ctx.fx
    # ------------------------------------------------------------------ R19.1 who modifies the word, and how
    n_touch = 0
    for f in fx.fns:
        has = any(blk["term"][0] == "Call" and (blk["term"][1].get("f") or "").startswith(R.ATOMIC) for blk in f["blocks"])
        body = Body(f)
        if has:
            for (b, c) in body.calls:
                at = R.atomic_target(body, c)
                if not at and (c.get("f") or "").startswith(R.ATOMIC) and c["args"]:
                    # the word reached through an accessor of the metric type (`self._atomic().fetch_add(..)`): still the joined word
                    dgx = D.Dag(body)
                    e_ = dgx.expr(c["args"][0])
                    if any(isinstance(x, tuple) and x[:1] == ("call",) and x[1].startswith(M + "::") for x in _walk_expr(e_)):
                        at = (M, "joined", (c.get("f") or "")[len(R.ATOMIC):])
                if not at or at[0] != M: continue
                n_touch += 1
                meth = at[2]
                short = f["key"].split("::")[-1]
                if meth == "load":
                    ctx.ob("R19.1", f"{f['key']}|{at[1]}.load", at[1] == "joined", body.loc(b), "atomic read of the joined word", nontrivial=False)
                elif meth in ("compare_exchange", "compare_exchange_weak", "fetch_update"):
                    # (`fetch_update` IS std's load / compute / compare-exchange loop; what its closure computes is judged by R19.2)
                    ok = f["key"] == M + "::atomic_compute"
                    ctx.ob("R19.1", f"{f['key']}|{at[1]}.{meth}", ok, body.loc(b), "the only place allowed to modify the word is the CAS loop of atomic_compute")
                else:
                    ctx.ob("R19.1", f"{f['key']}|{at[1]}.{meth}|not-a-cas", False, body.loc(b),
                           f"`{at[1]}.{meth}` modifies the (count, average) word outside a compare-exchange on the value it was computed from: concurrent updates can be lost")
        # non-atomic accesses to the union's views
        if f.get("impl_self") == M or "incremental_averages" in f["key"] or has:
            for a in guards.accesses(body, M, {"split", "joined"}):
                if a["kind"] == "w":
                    ctx.ob("R19.1", f"{f['key']}|writes|{a['field']}", False, a["site"], f"non-atomic write to the `{a['field']}` view of the metric word")
    # constructor: the only aggregate of the union
    ctx.floor("R19.1", 2)      # the word's update primitive + probe's load (the explicit CAS-loop form adds its own initial load)
    # ------------------------------------------------------------------ R19.2 the CAS loop
    k = M + "::atomic_compute"
    body = Body(fx.fn(k)); dg = D.Dag(body)
    site = f"{body.f['file']}:{body.f['line']}"
    cas = [(b, c) for (b, c) in body.calls if (R.atomic_target(body, c) or (0, 0, ""))[2].startswith("compare_exchange")]
    fu = [(b, c) for (b, c) in body.calls if (c.get("f") or "") == R.ATOMIC + "fetch_update"]
    if not cas and len(fu) == 1:
        _check_fetch_update_form(ctx, fx, k, body, dg, fu[0])
    elif len(cas) != 1:
        ctx.ob("R19.2", f"{k}|one-cas", False, site, f"{len(cas)} compare-exchange calls; the update must be exactly one CAS per loop iteration")
    else:
        cb, cc = cas[0]
        ctx.ob("R19.2", f"{k}|one-cas", util.in_loop(body, cb), body.loc(cb), "one CAS, inside the retry loop")
        exp = dg.expr(cc["args"][1]); new = dg.expr(cc["args"][2])
        # new = join_split(r.0, r.1), r = computation(split_joined(E).0, split_joined(E).1)
        ok = False; why = f"new word is `{show(new)}`"
        ns = strip_casts(new)
        if ns[0] == "call" and ns[1] == M + "::join_split" and len(ns[2]) == 2:
            parts = [strip_casts(x) for x in ns[2]]
            srcs = set()
            good = True
            for i, p in enumerate(parts):
                # ("field", name, ("call", Fn::call, (closure, tuple(...)), b))
                if p[0] == "field" and p[2][0] == "call" and p[2][1] in ("std::ops::Fn::call", "std::ops::FnMut::call_mut", "std::ops::FnOnce::call_once") and str(p[1]) == str(i):
                    call = p[2]
                    callee = strip_casts(call[2][0])
                    if not (callee[0] == "param" and callee[2] == "computation") and not (callee[0] == "ref"):
                        good = False
                    tup = call[2][1]
                    if tup[0] == "tuple" and len(tup[1]) == 2:
                        for j, q in enumerate(tup[1]):
                            q = strip_casts(q)
                            if q[0] == "field" and str(q[1]) == str(j) and q[2][0] == "call" and q[2][1] == M + "::split_joined":
                                srcs.add(norm(strip_casts(q[2][2][0])))
                            else: good = False
                    else: good = False
                    srcs.add(("callsite", call[3]))
                else:
                    good = False
            vals = {s for s in srcs if s[0] != "callsite"}
            sites = {s for s in srcs if s[0] == "callsite"}
            ok = good and len(vals) == 1 and len(sites) == 1 and vals == {norm(strip_casts(exp))}
            # ... and it is RE-computed on every iteration: split / computation / join all sit inside the CAS's loop and dominate the CAS, and the
            # loop-carried value is not redefined between the split that reads it and the CAS that expects it (the expression DAG is flow-insensitive
            # for a multiply-defined local, so `new` computed once before the loop from the first load looks the same in the DAG)
            if ok:
                hs_ = [h for h, bl in body.loops.items() if cb in bl]
                stage_blocks = [b_ for (b_, c_) in body.calls if (c_.get("resolved") or c_.get("f")) in (M + "::split_joined", M + "::join_split")] + [x[1] for x in sites]
                inside = bool(hs_) and all(any(b_ in body.loops[h] for h in hs_) and body.dominates(b_, cb) for b_ in stage_blocks)
                el = strip_casts(exp)
                redefined_between = False
                if el[0] == "phi":
                    splits = [b_ for (b_, c_) in body.calls if (c_.get("resolved") or c_.get("f")) == M + "::split_joined"]
                    for d_ in body.defs.get(el[1], []):
                        if d_[0] in body.reachable and any(body.dominates(sb_, d_[0]) and body.dominates(d_[0], cb) and d_[0] != sb_ for sb_ in splits): redefined_between = True
                if not inside or redefined_between:
                    ok = False
                    why = ("the new word is not recomputed from the reloaded value on every iteration (split_joined / computation / join_split must sit inside the retry loop, "
                           "before the CAS): after a collision the CAS would publish a word computed from a stale value -- the colliding update is lost")
            why = f"expected=`{show(exp)}` new=`{show(new)}`; required: new = join_split(computation(split_joined(expected))) with the same `expected`"
        ctx.ob("R19.2", f"{k}|expected-is-the-value-new-was-computed-from", ok, body.loc(cb), why)
        # retry value: every definition of the loop-carried local is an atomic load of the word or the Err payload of this CAS
        e = strip_casts(exp)
        if e[0] == "phi":
            l = e[1]
            alts = e[3] if len(e) > 3 else ()
            okr = bool(alts)
            for a in alts:
                a = strip_casts(a)
                is_load = a[0] == "atomic" and a[1] == "load" and a[2][-1:] == ("joined",)
                is_payload = a[0] == "field" and a[2][0] == "variant" and a[2][1] == "Err" and strip_casts(a[2][2])[0] == "atomic" and strip_casts(a[2][2])[3] == cb
                if not (is_load or is_payload): okr = False
            ctx.ob("R19.2", f"{k}|retry-from-reloaded-value", okr, body.loc(cb),
                   f"loop-carried value `{body.lname(l)}` is defined by {[show(a) for a in alts]}; each must be an atomic load of the word or the value returned by the failed CAS")
            # on the Err edge the local is redefined before the back edge
            sw = None
            for b in body.reachable:
                ve = util.variant_edges(body, b)
                if ve and ve[0] in util.copies_of(body, cc["dst"]["l"]): sw = (b, ve)
            if sw is None:
                ctx.ob("R19.2", f"{k}|result-matched", False, body.loc(cb), "the CAS result is not matched on Ok/Err")
            else:
                b, (loc, arms, other) = sw
                ok_t, err_t = arms.get(0, other), arms.get(1, other)
                hdr = [h for h, blocks in body.loops.items() if cb in blocks]
                exits_ok = True
                for h in hdr:
                    for (x, y) in body.loop_exits(h):
                        if not (ok_t is not None and (body.dominates(ok_t, x) or x == b and y == ok_t)) and y in body.can_return:
                            exits_ok = False
                ctx.ob("R19.2", f"{k}|loop-left-only-on-success", exits_ok, body.loc(b), "every exit of the retry loop lies on the CAS's Ok edge (an update is never abandoned)")
                redef = [d for d in body.defs.get(l, []) if d[0] in body.reachable and err_t is not None and body.dominates(err_t, d[0])]
                back = [(t, h) for (t, h) in body.back_edges if cb in body.loops.get(h, ())]
                okb = bool(redef) and all(any(body.dominates(d[0], t) for d in redef) for (t, h) in back if err_t is not None and body.dominates(err_t, t))
                ctx.ob("R19.2", f"{k}|err-edge-refreshes", okb, body.loc(b), "on the Err edge the loop-carried value is replaced before the next iteration (a stale value would spin forever)")
        else:
            ctx.ob("R19.2", f"{k}|retry-from-reloaded-value", False, body.loc(cb), f"expected operand `{show(exp)}` is not loop-carried: a failed CAS would retry with the same stale value")
    # update closures: pure
    n_cl = 0
    for f in fx.fns:
        body2 = None
        for blk in f["blocks"]:
            t = blk["term"]
            if t[0] == "Call" and (t[1].get("resolved") or t[1].get("f")) == k: body2 = Body(f); break
        if body2 is None: continue
        for (b, c) in body2.calls:
            if (c.get("resolved") or c.get("f")) != k: continue
            d2 = D.Dag(body2)
            cl = d2.expr(c["args"][3])
            if cl[0] != "closure":
                ctx.ob("R19.2", f"{f['key']}|computation-is-closure", False, body2.loc(b), f"computation argument `{show(cl)}` is not a closure literal: purity cannot be shown"); continue
            n_cl += 1
            cf = fx.fn(cl[1]); cb2 = Body(cf)
            caps = cf.get("captures") or []
            byref = [n for (n, by_ref) in caps if n == "self"]
            calls = [c2 for (_, c2) in cb2.calls if not (c2.get("f") or "").startswith("core::") and not (c2.get("f") or "").startswith("std::")]
            derefs_mem = [1 for blk in cb2.reachable for st in cb2.stmts(blk) if st[0] == "A" and st[1]["p"] and "*" in st[1]["p"]]
            ok = not byref and not calls and not derefs_mem
            ctx.ob("R19.2", f"{cl[1]}|pure-update", ok, f"{cf['file']}:{cf['line']}",
                   f"captures={caps}; an update function re-run after a failed CAS must depend only on (count, average) and by-value captures and write nothing")
    ctx.floor("R19.2", 6)
    # inc: count + 1
    kinc = M + "::inc::{closure#0}"
    cf = fx.fn(kinc); cbody = Body(cf); cd = D.Dag(cbody)
    r = cd.local(0)
    okc = False; det = show(r)
    if r[0] == "tuple" and len(r[1]) == 2:
        cnt = strip_casts(r[1][0])
        okc = cnt[0] == "bin" and cnt[1] in ("Add!", "Add~", "Add") and {strip_casts(cnt[2]), strip_casts(cnt[3])} == {("param", 2, cbody.lname(2)), ("const", 1)}
        # re-assignments of the count parameter: only constants under `count == u32::MAX`
        for d in cbody.defs.get(2, []):
            if d[0] not in cbody.reachable: continue
            rv = d[2]
            is_const = rv[0] == "Use" and rv[1][0] == "k"
            guards_ = util.eq_const_edge(cbody, cd, lambda e: e[0] == "param" and e[1] == 2, lambda e: e in (("const", 0xFFFFFFFF), ("gconst", "u32::MAX")))
            under = any(cbody.dominates(eq_t, d[0]) and eq_t != ne_t for (_, eq_t, ne_t, _) in guards_)
            if not (is_const and under): okc = False; det += " ; count parameter reassigned outside the documented u32::MAX reset"
    ctx.ob("R19.2", f"{kinc}|count-plus-one", okc, f"{cf['file']}:{cf['line']}", f"new count is `{det}`; required: count + 1 (each recorded measurement counted exactly once)")
    # ------------------------------------------------------------------ R19.5 mean recurrence (exact rational identity)
    if r[0] == "tuple" and len(r[1]) == 2:
        def leaf(e):
            if e[0] == "param": return {2: "c", 3: "a"}.get(e[1])
            if e[0] == "mem" and e[1] and str(e[1][-1]).startswith("<cap:"): return "m"
            if e[0] == "deref": return leaf(e[1])
            return None
        try:
            got = symb.rat(r[1][1], leaf)
            c, a, m = (symb.Rat(symb.Poly.var(v)) for v in "cam")
            want = (c * a + m).div(c + symb.Rat(symb.Poly.const(1)))
            ok5 = got.equals(want)
            ctx.ob("R19.5", f"{kinc}|mean-recurrence", ok5, f"{cf['file']}:{cf['line']}",
                   f"average update `{show(r[1][1])}` {'is' if ok5 else 'is NOT'} identical over Q to (count*avg + measurement)/(count+1)")
        except symb.Unknown as e:
            ctx.undecided("R19.5", f"{kinc}|mean-recurrence", f"{cf['file']}:{cf['line']}", f"update expression not a rational function the evaluator understands: {e}")
    # ------------------------------------------------------------------ R19.3 probe: one load; nobody reads the split view
    kp = M + "::probe"
    body = Body(fx.fn(kp)); dg = D.Dag(body)
    r0 = strip_casts(dg.local(0))
    loads = [(b, c) for (b, c) in body.calls if (R.atomic_target(body, c) or (0, 0, ""))[1:] == ("joined", "load")]
    ok = len(loads) == 1 and r0[0] == "call" and r0[1] == M + "::split_joined" and strip_casts(r0[2][0])[0] == "atomic" and strip_casts(r0[2][0])[3] == loads[0][0]
    ctx.ob("R19.3", f"{kp}|single-load", ok, f"{body.f['file']}:{body.f['line']}", f"probe returns `{show(r0)}`; required: split_joined(one atomic load of the word) so count and average belong to the same update")
    split_readers = {}
    for f in fx.fns:
        body = Body(f)
        for a in guards.accesses(body, M, {"split"}):
            if a["kind"] == "r": split_readers.setdefault(f["key"], a)
        for (b, c) in body.calls:
            tgt = c.get("resolved") or c.get("f")
            if tgt in (M + "::lightweight_probe", M + "::_split"):
                ctx.ob("R19.3", f"{f['owner_fn']}|calls|{tgt.split('::')[-1]}", False, body.loc(b),
                       f"library code reads the metric through the non-atomic split view (`{tgt.split('::')[-1]}`): count and average can come from two different updates")
    allowed = {M + "::lightweight_probe", M + "::_split"}
    for kx, a in split_readers.items():
        ctx.ob("R19.3", f"{kx}|reads-split-view", kx in allowed, a["site"], "non-atomic read of the split view; allowed only in the (uncalled) lightweight accessors")
    ctx.ob("R19.3", f"{M}|positive-control", (M + "::lightweight_probe") in split_readers, "", "the split-view reader detector sees lightweight_probe itself (zero-match rule stays honest)", nontrivial=False)
    # one reading per report: a function that reads the same metric more than once on one path (count from one probe, average from another -- e.g. through
    # single-value accessors `counter()` / `average()`, which the rules inline) presents a pair that never existed.  Loops that poll are not readings of a pair.
    for f in fx.fns:
        if f["key"] in (kp, M + "::lightweight_probe"): continue
        rd = [i for i, blk in enumerate(f["blocks"]) if blk["term"][0] == "Call" and ((blk["term"][1].get("resolved") or blk["term"][1].get("f") or "") in (kp, M + "::lightweight_probe"))]
        if len(rd) < 2: continue
        body = Body(f); dg = D.Dag(body)
        by_recv = {}
        for b in rd:
            if b not in body.reachable: continue
            by_recv.setdefault(show(dg.expr(body.term(b)[1]["args"][0])), set()).add(b)
        for recv, blocks in by_recv.items():
            if len(blocks) < 2: continue
            lo, hi, inloop = util.count_on_paths(body, lambda b: b in blocks)
            ctx.ob("R19.3", f"{f['key']}|one-reading-per-report|{recv}", hi <= 1 or inloop, body.loc(sorted(blocks)[1]),
                   f"`{recv}` is read up to {hi} times on one path of this function: a count and an average taken from two different readings can belong to two different updates")
    # ------------------------------------------------------------------ R19.4 pack / unpack inverse (symbolic bits)
    kj, ks = M + "::join_split", M + "::split_joined"
    bj, bs = Body(fx.fn(kj)), Body(fx.fn(ks))
    ej = D.Dag(bj).local(0); es = D.Dag(bs).local(0)
    try:
        C, A = symb.sym("c", 32), symb.sym("a", 32)
        word = symb.fit(symb.bits(ej, {("param", 1): C, ("param", 2): A}), 64)
        if es[0] != "tuple" or len(es[1]) != 2: raise symb.Unknown("split_joined does not return a pair literal")
        c2 = symb.bits(es[1][0], {("param", 1): word}); a2 = symb.bits(es[1][1], {("param", 1): word})
        ok4 = symb.fit(c2, 32) == C and symb.fit(a2, 32) == A and len(c2) == 32 and len(a2) == 32
        used = sorted({b for b in word if b not in (0, 1)}, key=str)
        ctx.ob("R19.4", f"{M}|split-join-roundtrip", ok4, f"{bj.f['file']}:{bj.f['line']}",
               f"split_joined(join_split(c, a)) {'==' if ok4 else '!='} (c, a) bit for bit ({len(used)} of 64 payload bits preserved in the word)")
        W = symb.sym("w", 64)
        c3 = symb.bits(es[1][0], {("param", 1): W}); a3 = symb.bits(es[1][1], {("param", 1): W})
        back = symb.fit(symb.bits(ej, {("param", 1): symb.fit(c3, 32), ("param", 2): symb.fit(a3, 32)}), 64)
        ctx.ob("R19.4", f"{M}|join-split-roundtrip", back == W, f"{bs.f['file']}:{bs.f['line']}", "join_split(split_joined(w)) == w bit for bit (no bit of the word is dropped or shared between the two fields)")
    except symb.Unknown as e:
        ctx.undecided("R19.4", f"{M}|split-join-roundtrip", f"{bj.f['file']}:{bj.f['line']}", f"pack/unpack expression outside the bit-vector evaluator: {e}")
    ctx.floor("R19.3", 3)
