"""C12 - executor life cycle: close callback exactly once, after the last item."""
import dag as D, util, roles as R, facts as F
from dag import strip_casts, show, norm
from mir import Body, op_local

LEVEL = "other"
EXPLANATION = ("Structural, path-complete conditions over the 7 spawned executor coroutines of stream_executor.rs, the 4 Uni::spawn_* and the 12 Multi::spawn_* functions: "
               "(R12.1) in every executor coroutine the close callback is invoked exactly once on every non-diverging path, its future is awaited, it receives the executor "
               "itself, it is dominated by register_execution_finish, and neither can be reached without passing the stream loop (for_each / for_each_concurrent) -- so it "
               "runs after the last item was processed; register_execution_start dominates the stream loop; (R12.2) register_execution_finish returns only after one of the "
               "two CAS transitions Running->StreamEnded or ScheduledToFinish->ProgrammaticallyEnded succeeded, stores the finish time after that, and the start store "
               "lives in register_execution_start (start before finish by dominance); ProgrammaticallyEnded is written nowhere else, ScheduledToFinish only by "
               "report_scheduled_to_finish; (R12.3) latch = executors: each Uni::spawn_* builds its latch with the same MAX_STREAMS constant that sizes "
               "consumer_stream_internal's range, spawns one executor per created stream, and its per-executor close callback bumps finished_executors_count and then awaits "
               "the latched callback; latch_callback_1p invokes the user callback only on the path where its single fetch_sub(1) returned 1; (R12.4) sequential transition: "
               "on the `sequential_transition == true` arm of the four spawn_*_oldies_executor the only executor spawned directly is the oldies one, and the newies one is "
               "spawned inside the oldies' close callback, before the user's oldies callback runs; (R12.5) no suspension point is reachable while a lock guard is held in any "
               "coroutine of the crate (Multi::flush_and_cancel_executor releases executor_infos before it awaits the cancel: add_executor, called from the oldies' close callback, "
               "needs that lock; the latch's own callback mutex is the one listed exception); (R12.6) the executor task cannot die before its close callback: no panicking block is "
               "reachable in any item processor under either value of the instruments guard and the guard is implied by metrics() (shared with C11 R11.3 / R11.6).")
EXPLANATION += " R12.2 reads the retry loop of register_execution_finish through flags / extracted helpers (flag-aware: no loop exit reachable once both transitions failed); (R12.7) nothing between the end of the stream loop and the close callback can kill the executor task: no fallible division / remainder / indexing whose divisor is not guarded against zero and no explicit panic in that region (a panic there means the close callback, and through the latch the Uni's, never runs)."
EXPLANATION += ' (R12.8) the StreamExecutorStats accessors the close callback reads (status, start time, finish time) answer the atomic load of / a reference to their own field, unchanged; (R12.9) report_scheduled_to_finish (a plain store) is issued before the stream is asked to end, never after -- it would overwrite an ended state.'
EXPLANATION += ' R12.4 also requires the transition arm to be selected by the sequential_transition argument itself (no extra conjunct such as concurrency_limit == 1).'
EXPLANATION += " (R12.10) in every spawn_*_from_stream call of the spawn_*_oldies_executor family (the calls inside the oldies' close callback included, captures resolved to what they were filled with) the stream id and the stream come from the same component of create_streams_for_old_and_new_events()."
EXPLANATION += " R12.6 also imports C11's R11.2 (the error callback of a failed item is awaited: the last item is fully processed before the close callback)."
ASSUMPTIONS = ["wall-clock ordering of callbacks relative to item side effects beyond dominance is not decided",
               "tokio::spawn runs the coroutine to completion; FnOnce close callbacks are at-most-once by type"]

EXE = R.EXECUTOR
STATS = "stream_executor::StreamExecutorStats"
CALLS = ("std::ops::FnOnce::call_once", "std::ops::Fn::call", "std::ops::FnMut::call_mut")


def _closure_arg_keys(body, dg, c):
    return [dg.expr(a)[1] for a in c["args"] if dg.expr(a)[0] == "closure"]


def _coroutine_of(fx, key):
    """coroutine built by an `async fn` wrapper or by a closure returning an async block"""
    f = fx.fn_opt(key)
    if f is None: return None
    b = Body(f)
    for blk in b.reachable:
        for st in b.stmts(blk):
            if st[0] == "A" and st[2][0] == "Agg" and st[2][1][0] == "Coroutine": return st[2][1][1]
    return None


def _divisor_guarded(body, dg, b, t):
    """the `divisor == 0` check of a division cannot fail here: the divisor is a non-zero constant, or a dominating branch tested it against zero"""
    c = strip_casts(dg.expr(t[1]))
    if c[0] == "un" and c[1] == "Not": c = strip_casts(c[2])
    if c[0] != "bin" or c[1] != "Eq": return False
    d = strip_casts(c[2]) if strip_casts(c[3]) == ("const", 0) else strip_casts(c[3]) if strip_casts(c[2]) == ("const", 0) else None
    if d is None: return False
    if d[0] == "const" and d[1] not in (0, "0"): return True
    if d[0] == "gconst": return False
    for gb in body.reachable:
        cmp_ = D.cmp_of_switch(body, dg, gb)
        if not cmp_: continue
        op, x, y, tt, ft = cmp_
        x, y = strip_casts(x), strip_casts(y)
        nz = None                      # the edge on which d != 0 is known
        if D.norm(x) == D.norm(d) and y == ("const", 0): nz = {"Ne": tt, "Gt": tt, "Eq": ft, "Le": ft}.get(op)
        elif D.norm(y) == D.norm(d) and x == ("const", 0): nz = {"Ne": tt, "Lt": tt, "Eq": ft, "Ge": ft}.get(op)
        if nz is not None and nz != (ft if nz == tt else tt) and body.dominates(nz, b): return True
    return False


def check(ctx):
    fx = ctx.fx
    import importlib
    C11 = importlib.import_module("props.C11")
    u = C11.Unit(ctx)
    # ------------------------------------------------------------------ R12.1 executor coroutines
    spawned = []
    for f in fx.fns:
        if f.get("impl_self") != EXE or "{closure" in f["key"]: continue
        body = u.body(f["key"])
        for (b, c) in body.calls:
            if c.get("f") == "tokio::spawn":
                g = u.closure_of(f["key"], c["args"][0])
                if g: spawned.append((f["key"], g))
    ctx.ob("R12.1", f"{EXE}|spawned-executors", len(spawned) == 7, "", f"{len(spawned)} executor coroutines (7 confirmed by reading)", nontrivial=False)
    for (fnk, co) in spawned:
        body = u.body(co); dg = u.dag(co)
        site = f"{body.f['file']}:{body.f['line']}"
        loops = [b for (b, c) in body.calls if c.get("fname") in ("for_each", "for_each_concurrent") and "StreamExt" in (c.get("f") or "")]
        start = [b for (b, c) in body.calls if (c.get("resolved") or c.get("f")) == EXE + "::register_execution_start"]
        fin = [b for (b, c) in body.calls if (c.get("resolved") or c.get("f")) == EXE + "::register_execution_finish"]
        cbs = [(b, c) for (b, c) in body.calls if c.get("f") in CALLS and c["args"] and "stream_ended_callback" in show(dg.expr(c["args"][0]))]
        ok = bool(loops) and len(start) == 1 and len(fin) == 1 and len(cbs) == 1
        ctx.ob("R12.1", f"{co}|parts-present", ok, site, f"{len(loops)} stream loop(s), {len(start)} start, {len(fin)} finish, {len(cbs)} close-callback call(s); required >=1/1/1/1")
        if not ok: continue
        cb, cc = cbs[0]
        lo, hi, inloop = util.count_on_paths(body, lambda b: b == cb)
        ctx.ob("R12.1", f"{co}|callback-exactly-once", (lo, hi) == (1, 1) and not inloop, body.loc(cb), f"the close callback is invoked {lo}..{hi} times per path; required exactly once")
        ctx.ob("R12.1", f"{co}|finish-before-callback", body.dominates(fin[0], cb), body.loc(cb), "register_execution_finish dominates the close callback: the callback finds the executor in an ended state with its finish time set")
        # neither is reachable without passing a stream loop
        avoid = frozenset(loops)
        seen = {0}; st = [0]
        while st:
            x = st.pop()
            for s in body.succ(x):
                if s in avoid or s in seen: continue
                seen.add(s); st.append(s)
        ctx.ob("R12.1", f"{co}|ends-only-after-the-stream-loop", fin[0] not in seen and cb not in seen, body.loc(fin[0]),
               "register_execution_finish and the close callback cannot be reached without passing for_each / for_each_concurrent: they run after the last item")
        # each stream loop's future is awaited before finish: from the loop call, finish is reachable only through the Ready edge of a poll of a `()` future
        awaited = True
        for l in loops:
            readies = set()
            for b in body.reachable:
                vs = util.variant_switch(body, dg, b)
                if vs and body.locals[vs[3]]["ty"].startswith("std::task::Poll<()>") and body.dominates(l, b):
                    readies.add(vs[1].get(0, vs[2]))
            if not readies or fin[0] in body.reach_from(l, avoid=frozenset(readies)): awaited = False
        ctx.ob("R12.1", f"{co}|stream-loop-awaited", awaited, body.loc(fin[0]), "the stream loop's future is awaited to completion (Ready edge) before the executor is declared finished")
        ctx.ob("R12.1", f"{co}|start-before-loop", all(body.dominates(start[0], l) for l in loops), body.loc(start[0]), "register_execution_start dominates the stream loop (start time precedes finish time)")
        arg = show(dg.expr(cc["args"][1])) if len(cc["args"]) > 1 else ""
        ctx.ob("R12.1", f"{co}|callback-receives-the-executor", "self" in arg, body.loc(cb), f"close callback argument `{arg[:70]}`")
        dl = cc["dst"]["l"]
        aw = any(c2.get("fname") == "into_future" and any(op_local(a) == dl for a in c2["args"]) for (_, c2) in body.calls)
        ctx.ob("R12.1", f"{co}|callback-future-awaited", aw, body.loc(cb), "the future returned by the close callback is awaited")
        # R12.7 nothing between the end of the stream loop and the close callback can kill the task: a panic there (end-of-stream logging / statistics) means the
        # close callback -- and, through the latch, the Uni's -- never runs.  Flagged: divisions / remainders / indexings whose compiler-inserted check can fail
        # (the divisor is not a non-zero constant) and explicit panics; checked additions / multiplications on the u32/u64 statistics are not (they need 2^32 events).
        region = set()
        for l in loops: region |= body.reach_from(l)
        region &= {b for b in body.reachable if cb in body.reach_from(b) or b == cb}
        bad = []
        for b in sorted(region):
            t = body.term(b)
            if t[0] == "Assert" and str(t[3]) in ("DivisionByZero", "RemainderByZero", "BoundsCheck"):
                if str(t[3]) != "BoundsCheck" and _divisor_guarded(body, dg, b, t): continue
                bad.append((b, str(t[3])))
        for b in body.diverging:
            if b in body.reachable and any(b in body.reach_from(x) for x in loops) and body.term(b)[0] == "Call" and not body.blocks[b]["cleanup"]:
                # an explicit panic!/unwrap()/expect() reached after the loop, on a path that would otherwise go on to the callback
                if any(p_ in region for p_ in body.pred(b)) : bad.append((b, "panic"))
        ctx.ob("R12.7", f"{co}|nothing-can-kill-the-task-between-the-last-item-and-the-close-callback", not bad, body.loc(bad[0][0]) if bad else site,
               "no fallible division / indexing and no explicit panic between the stream loop and the close callback" if not bad else
               f"{bad[0][1]} can abort the executor task after its last item and before the close callback ({len(bad)} site(s)): the callback would never run")
    # ------------------------------------------------------------------ R12.2 status machine
    k = EXE + "::register_execution_finish"
    body = Body(fx.fn(k)); dg = D.Dag(body)
    site = f"{body.f['file']}:{body.f['line']}"
    cas = [(b, c) for (b, c) in body.calls if c.get("fname") == "compare_exchange" and "executor_status" in show(dg.expr(c["args"][0]))]
    pairs = set()
    for (b, c) in cas:
        pairs.add((_variant(dg.expr(c["args"][1])), _variant(dg.expr(c["args"][2]))))
    want = {("Running", "StreamEnded"), ("ScheduledToFinish", "ProgrammaticallyEnded")}
    ctx.ob("R12.2", f"{k}|transitions", pairs == want, site, f"CAS transitions {sorted(pairs)}; required {sorted(want)}: programmatically-ended only if it had been scheduled to finish")
    hs = [h for h, bl in body.loops.items() if all(b in bl for (b, _) in cas)] if cas else []
    ok_exit = False
    if hs:
        h = max(hs, key=lambda x: len(body.loops[x]))
        exits = [(x, y) for (x, y) in body.loop_exits(h) if y in body.can_return]
        ok_exit = bool(exits)
        # every exit is the Ok edge of a test of one of the two CAS answers (is_ok / !is_err / match, any loop form)
        ok_edges = set()
        for (cb_, c_) in cas:
            if c_["dst"]["p"]: continue
            for (tb, ok_t, err_t) in util.option_test_edges(body, dg, c_["dst"]["l"]):
                if ok_t != err_t: ok_edges.add((tb, ok_t))
        direct = all((x, y) in ok_edges for (x, y) in exits)
        if not direct and exits:
            # the answer of the attempt may travel through a flag (`while !self.try_register_ended_status() {..}` with the helper inlined, `let done = a.is_ok() || b.is_ok()`):
            # flag-aware exploration from the loop header that ends a path wherever one of the two transitions is known to have succeeded -- no loop exit may remain reachable
            cas_blocks = {cb_ for (cb_, _) in cas}
            def _succeeded(facts):
                for (e, truth) in facts:
                    if e[0] == "call" and e[1].split("::")[-1] in ("is_ok", "is_err") and len(e[2]) == 1:
                        a = strip_casts(e[2][0])
                        while a[0] in ("ref?", "deref") and isinstance(a[-1], tuple): a = a[-1]
                        if a[0] == "call" and a[1].endswith("compare_exchange") and len(a) > 3 and a[3] in cas_blocks:
                            if truth == (e[1].split("::")[-1] == "is_ok"): return True
                return False
            reach = util.flag_paths(body, dg, h, cut=_succeeded)
            direct = not (reach & {y for (_, y) in exits})
        ok_exit = ok_exit and direct
    ctx.ob("R12.2", f"{k}|returns-only-after-a-successful-transition", ok_exit, site, "the retry loop is left only on the is_ok() edge of one of the two transitions")
    st_fin = [(b, c) for (b, c) in body.calls if c.get("fname") == "store" and "execution_finish_delta_nanos" in show(dg.expr(c["args"][0]))]
    ok = len(st_fin) == 1 and bool(hs) and st_fin[0][0] not in body.loops[max(hs, key=lambda x: len(body.loops[x]))] and all(body.dominates(b, st_fin[0][0]) for (b, _) in cas[:1])
    ctx.ob("R12.2", f"{k}|finish-time-after-transition", ok, site, "the finish time is stored once, after the status transition")
    kb = Body(fx.fn(EXE + "::register_execution_start")); kd = D.Dag(kb)
    st_start = [(b, c) for (b, c) in kb.calls if c.get("fname") == "store" and "execution_start_delta_nanos" in show(kd.expr(c["args"][0]))]
    run = [(b, c) for (b, c) in kb.calls if c.get("fname") == "store" and "executor_status" in show(kd.expr(c["args"][0])) and _variant(kd.expr(c["args"][1])) == "Running"]
    ctx.ob("R12.2", f"{EXE}::register_execution_start|sets-running-and-start-time", len(st_start) == 1 and len(run) == 1, f"{kb.f['file']}:{kb.f['line']}", "start stores Running and the start time")
    # who writes the status
    for f in fx.fns:
        if "stream_executor" not in f["key"]: continue
        body = Body(f); dg = None
        for (b, c) in body.calls:
            if c.get("fname") in ("store", "swap", "compare_exchange", "fetch_update") and "AtomicExecutorStatus" in (c.get("f") or ""):
                dg = dg or D.Dag(body)
                if "executor_status" not in show(dg.expr(c["args"][0])): continue
                val = _variant(dg.expr(c["args"][2] if c["fname"] == "compare_exchange" else c["args"][1]))
                owner = f["owner_fn"].split("::")[-1]
                allowed = {"Running": {"register_execution_start"}, "StreamEnded": {"register_execution_finish"}, "ProgrammaticallyEnded": {"register_execution_finish"},
                           "ScheduledToFinish": {"report_scheduled_to_finish"}, "NotStarted": {"with_futures_timeout", "new"}}
                ctx.ob("R12.2", f"{f['owner_fn']}|writes|{val}", owner in allowed.get(val, set()), body.loc(b), f"executor_status <- {val} in {owner}; allowed writers: {sorted(allowed.get(val, []))}")
    # ------------------------------------------------------------------ R12.3 latch = executors
    kl = "uni::uni::latch_callback_1p::{closure#0}::{closure#0}"
    body = Body(fx.fn(kl)); dg = D.Dag(body)
    subs = [(b, c) for (b, c) in body.calls if (c.get("f") or "").endswith("Atomic::fetch_sub")]
    usercb = [(b, c) for (b, c) in body.calls if c.get("f") in CALLS and ("take" in show(dg.expr(c["args"][0])) or "expect" in show(dg.expr(c["args"][0])) or "async_callback" in show(dg.expr(c["args"][0])))]
    ok = len(subs) == 1 and len(usercb) == 1 and strip_casts(dg.expr(subs[0][1]["args"][1])) == ("const", 1)
    if ok:
        edges = util.eq_const_edge(body, dg, lambda e: e[0] == "atomic" and e[1] == "fetch_sub" and e[3] == subs[0][0], 1)
        ok = len(edges) == 1 and edges[0][1] != edges[0][2] and util.on_every_return_path(body, subs[0][0])
        if ok:
            # the callback lies on the `== 1` edge: dominated by it, or (flag-aware) unreachable from the `!= 1` edge without a new decrement
            # (the decision may travel through an Option built on that edge and matched afterwards)
            ok = body.dominates(edges[0][1], usercb[0][0]) or usercb[0][0] not in util.flag_paths(body, dg, edges[0][2], stop_blocks={subs[0][0]})
    ctx.ob("R12.3", f"{kl}|fires-on-last-count", ok, f"{body.f['file']}:{body.f['line']}", "the user callback runs only where the single fetch_sub(1) returned 1 (exactly one of the latch_count calls observes it)")
    kl0 = "uni::uni::latch_callback_1p"
    b0 = Body(fx.fn(kl0)); d0 = D.Dag(b0)
    news = [(b, c) for (b, c) in b0.calls if (c.get("f") or "").endswith("Atomic::new")]
    ok0 = len(news) == 1 and strip_casts(d0.expr(news[0][1]["args"][0]))[:2] == ("param", 1)
    ctx.ob("R12.3", f"{kl0}|counter-starts-at-latch-count", ok0, f"{b0.f['file']}:{b0.f['line']}", "the latch counter is initialised with the latch_count parameter")
    # the MAX_STREAMS constant of consumer_stream_internal
    kc = "uni::uni::Uni::consumer_stream_internal"
    bc = Body(fx.fn(kc)); dc = D.Dag(bc)
    rng = None
    for b in bc.reachable:
        for st in bc.stmts(b):
            if st[0] == "A" and st[2][0] == "Agg" and st[2][1][0] == "Adt" and st[2][1][1].endswith("ops::Range"):
                rng = [strip_casts(dc.expr(o)) for o in st[2][2]]
    if rng is None:
        # hand-written index loop: `let mut i = 0; while i < MAX_STREAMS { ..push(stream); i += 1 }`
        for h_, bl_ in bc.loops.items():
            for (x_, y_) in bc.loop_exits(h_):
                c_ = D.cmp_of_switch(bc, dc, x_)
                cb_ = D.canon_branch(c_) if c_ else None
                if cb_ and cb_[0] == "lt" and cb_[4] == y_ and "MAX_STREAMS" in show(cb_[2]):
                    ph_ = strip_casts(cb_[1])
                    if ph_[0] == "phi" and any(strip_casts(a_) == ("const", 0) for a_ in (ph_[3] if len(ph_) > 3 else ())): rng = [("const", 0), strip_casts(cb_[2])]
                    elif ph_[0] == "call" and ph_[1].split("::")[-1] == "len": rng = [("const", 0), strip_casts(cb_[2])]      # `while streams.len() < MAX_STREAMS { streams.push(..) }`
    streams_const = rng[1] if rng else None
    ctx.ob("R12.3", f"{kc}|creates-MAX_STREAMS-streams", rng is not None and rng[0] == ("const", 0) and "MAX_STREAMS" in show(rng[1]), f"{bc.f['file']}:{bc.f['line']}", f"creates streams over range {[show(x) for x in rng] if rng else None}")
    spawners = [k for k in fx.by_key if k.startswith("uni::uni::Uni as uni::uni::GenericUni::spawn") and "{closure" not in k]
    ctx.ob("R12.3", "uni::uni::Uni|four-spawners", len(spawners) == 4, "", f"{len(spawners)} Uni::spawn_* functions", nontrivial=False)
    for k in sorted(spawners):
        body = Body(fx.fn(k)); dg = D.Dag(body)
        site = f"{body.f['file']}:{body.f['line']}"
        lt = [(b, c) for (b, c) in body.calls if (c.get("f") or "").endswith("latch_callback_1p")]
        cs = [(b, c) for (b, c) in body.calls if c.get("fname") == "consumer_stream_internal"]
        ok = len(lt) == 1 and len(cs) == 1
        if ok:
            n = strip_casts(dg.expr(lt[0][1]["args"][0]))
            ok = streams_const is not None and norm(n) == norm(streams_const) and "on_close_callback" in show(dg.expr(lt[0][1]["args"][1]))
        ctx.ob("R12.3", f"{k}|latch-count-equals-streams-created", ok, site, f"latch_callback_1p({show(dg.expr(lt[0][1]['args'][0])) if lt else '?'}, on_close_callback) vs {show(streams_const) if streams_const else '?'} streams created")
        # the per-pair closure spawns one executor and wires the close callback
        fe = [(b, c) for (b, c) in body.calls if c.get("fname") == "for_each" and "Iterator" in (c.get("f") or "")]
        okp = len(fe) == 1 and "zip" in show(dg.expr(fe[0][1]["args"][0])) and "consumer_stream_internal" in show(dg.expr(fe[0][1]["args"][0])) and not util.in_loop(body, fe[0][0])
        if not okp:
            # `for (executor, stream) in executors.zip(streams) { .. }`: the loop's iterator is the same zip
            nx = [(b, c) for (b, c) in body.calls if c.get("fname") == "next" and "::zip" in str(dg.expr(c["args"][0])) and "consumer_stream_internal" in str(dg.expr(c["args"][0]))]
            okp = len(nx) == 1 and util.in_loop(body, nx[0][0])
        ctx.ob("R12.3", f"{k}|one-executor-per-stream", okp, site, "executors are spawned by iterating stream_executors zipped with the created streams (one executor per stream)")
        if okp:
            loop_form = not (len(fe) == 1 and "zip" in show(dg.expr(fe[0][1]["args"][0])))
            clk = [k] if loop_form else _closure_arg_keys(body, dg, fe[0][1])
            if clk:
                cb_ = body if loop_form else Body(fx.fn(clk[0])); cd = dg if loop_form else D.Dag(cb_)
                sp = [(b, c) for (b, c) in cb_.calls if (c.get("fname") or "").startswith("spawn_") and EXE in (c.get("f") or "")]
                if loop_form:
                    hs_ = [h for h, bl in cb_.loops.items() if sp and sp[0][0] in bl]
                    ok1 = len(sp) == 1 and bool(hs_) and util.count_per_iteration(cb_, hs_[0], lambda b: b == sp[0][0]) == (1, 1)
                else:
                    ok1 = len(sp) == 1 and not util.in_loop(cb_, sp[0][0])
                ctx.ob("R12.3", f"{clk[0]}|spawns-once", ok1, f"{cb_.f['file']}:{cb_.f['line']}", "one executor spawned per (executor, stream) pair")
                if ok1:
                    # the close-callback closure -> coroutine: fetch_add(finished_executors_count) then on_close_callback(executor).await
                    cls = _closure_arg_keys(cb_, cd, sp[0][1])
                    found = False
                    for ck in cls:
                        co = _coroutine_of(fx, ck)
                        if not co: continue
                        cob = Body(fx.fn(co)); cod = D.Dag(cob)
                        adds = [b for (b, c) in cob.calls if (c.get("f") or "").endswith("Atomic::fetch_add") and "finished_executors_count" in show(cod.expr(c["args"][0]))]
                        lc = [(b, c) for (b, c) in cob.calls if c.get("f") in CALLS and "on_close_callback" in show(cod.expr(c["args"][0]))]
                        if not adds and not lc: continue
                        found = True
                        ok2 = len(adds) == 1 and len(lc) == 1 and cob.dominates(adds[0], lc[0][0]) and util.count_on_paths(cob, lambda b: b == lc[0][0])[:2] == (1, 1)
                        dl = lc[0][1]["dst"]["l"] if lc else None
                        aw = any(c2.get("fname") == "into_future" and any(op_local(a) == dl for a in c2["args"]) for (_, c2) in cob.calls)
                        ctx.ob("R12.3", f"{co}|counts-then-latches", ok2 and aw, f"{cob.f['file']}:{cob.f['line']}", "the per-executor close callback bumps finished_executors_count, then calls the latched callback exactly once and awaits it")
                    ctx.ob("R12.3", f"{clk[0]}|close-callback-wired", found, f"{cb_.f['file']}:{cb_.f['line']}", "the executor's close callback is the latching closure", nontrivial=False)
    # ------------------------------------------------------------------ R12.4 sequential transition
    olds = [k for k in fx.by_key if k.startswith("multi::multi::Multi::spawn_") and k.endswith("oldies_executor::{closure#0}")]
    ctx.ob("R12.4", "multi::multi::Multi|four-oldies-spawners", len(olds) == 4, "", f"{len(olds)} spawn_*_oldies_executor coroutines", nontrivial=False)
    for k in sorted(olds):
        body = Body(fx.fn(k)); dg = D.Dag(body)
        site = f"{body.f['file']}:{body.f['line']}"
        sw = None
        for b in sorted(body.reachable):
            t = body.term(b)
            if t[0] == "Switch" and t[5] == "bool" and "sequential_transition" in show(dg.expr(t[1])):
                z = [tg for (v, tg) in t[2] if v == 0]
                if z and z[0] != t[3]: sw = (b, t[3], z[0])
        sp = [(b, c) for (b, c) in body.calls if (c.get("fname") or "").endswith("_from_stream")]
        if sw is None:
            ctx.ob("R12.4", f"{k}|transition-switch", False, site, "no test of sequential_transition"); continue
        # the arm is selected by the caller's flag itself: `sequential_transition && <something else>` (e.g. "only for concurrency_limit == 1") silently turns the
        # sequential transition the caller asked for into the parallel one for the other configurations
        e_sw = strip_casts(dg.expr(body.term(sw[0])[1]))
        is_flag = e_sw[0] == "field" and e_sw[1] == "sequential_transition" and strip_casts(e_sw[2])[0] == "param"
        ctx.ob("R12.4", f"{k}|arm-selected-by-the-caller-s-flag", is_flag, body.loc(sw[0]), f"the transition arm is selected by `{show(e_sw)[:80]}`; required: the sequential_transition argument itself")
        R_ = lambda t: {t} | body.reach_from(t)
        seq = [(b, c) for (b, c) in sp if b in R_(sw[1]) and b not in R_(sw[2])]
        par = [(b, c) for (b, c) in sp if b in R_(sw[2]) and b not in R_(sw[1])]
        ctx.ob("R12.4", f"{k}|parallel-arm-spawns-both", len(par) == 2, site, f"{len(par)} executors spawned directly on the non-sequential arm")
        ok = len(seq) == 1 and "oldies" in show(dg.expr(seq[0][1]["args"][3])) + show(dg.expr(seq[0][1]["args"][5] if len(seq[0][1]["args"]) > 5 else seq[0][1]["args"][-1]))
        ctx.ob("R12.4", f"{k}|sequential-arm-spawns-only-oldies", len(seq) == 1, body.loc(seq[0][0]) if seq else site,
               f"{len(seq)} executor(s) spawned directly on the sequential arm; required exactly one (the oldies): a newies executor started here would process new events before the old ones are done")
        if len(seq) == 1:
            cls = _closure_arg_keys(body, dg, seq[0][1])
            found = False
            for ck in cls:
                co = _coroutine_of(fx, ck)
                if not co: continue
                cob = Body(fx.fn(co)); cod = D.Dag(cob)
                nsp = [(b, c) for (b, c) in cob.calls if (c.get("fname") or "").endswith("_from_stream")]
                ocb = [(b, c) for (b, c) in cob.calls if c.get("f") in CALLS and "oldies_on_close_callback" in show(cod.expr(c["args"][0]))]
                if not nsp and not ocb: continue
                found = True
                ok2 = len(nsp) == 1 and len(ocb) == 1 and cob.dominates(nsp[0][0], ocb[0][0]) and "newies" in show(cod.expr(nsp[0][1]["args"][-1])) + show(cod.expr(nsp[0][1]["args"][3]))
                ctx.ob("R12.4", f"{co}|newies-spawned-inside-oldies-close-callback", ok2, f"{cob.f['file']}:{cob.f['line']}",
                       "the oldies' close callback spawns the newies executor and only then runs the user's oldies callback")
            ctx.ob("R12.4", f"{k}|oldies-close-callback-found", found, site, "the sequential arm's close callback was identified", nontrivial=False)
    ctx.floor("R12.1", 50); ctx.floor("R12.2", 8); ctx.floor("R12.3", 18); ctx.floor("R12.4", 16)

    # ------------------------------------------------------------------ R12.5 no suspension while an executor-registry / callback lock guard is held
    # Multi::add_executor takes executor_infos.write(): with a sequential transition it is called from inside the oldies' close callback, and the cancel of
    # one executor (flush_and_cancel_executor) waits for a flush that only ends once that callback has run -- a guard kept across an .await there means the
    # oldies' close callback never runs and the newies never start.
    GUARDS = ("tokio::sync::RwLockWriteGuard", "tokio::sync::RwLockReadGuard", "tokio::sync::MutexGuard", "tokio::sync::OwnedRwLockWriteGuard", "tokio::sync::OwnedMutexGuard",
              "std::sync::MutexGuard", "std::sync::RwLockWriteGuard", "std::sync::RwLockReadGuard", "lock_api::MutexGuard", "lock_api::RwLockWriteGuard", "lock_api::RwLockReadGuard")
    HELD_OK = {"uni::uni::latch_callback_1p": "the latch's mutex guards only the take-once callback slot and is locked only by the one caller that saw the count reach zero"}
    n5 = 0
    for f in fx.fns:
        if not f.get("is_coroutine"): continue
        gl = [i for i, l in enumerate(f["locals"]) if l["ty"].startswith(GUARDS)]
        if not gl: continue
        body = Body(f)
        ys = [b for b in body.reachable if body.term(b)[0] == "Yield"]
        owner = f.get("owner_fn") or f["key"]
        for g in gl:
            if not body.lname(g) or body.lname(g).startswith("_"): pass
            mi = body.maybe_init_at_term(g)
            held = [b for b in ys if b in mi]
            n5 += 1
            name = body.lname(g) or f"_{g}"
            reason = next((r for k_, r in HELD_OK.items() if owner.startswith(k_)), None)
            if held and reason:
                ctx.ob("R12.5", f"{f['key']}|guard-across-await|{name}|listed", True, body.loc(held[0]), f"lock guard `{name}` is held across an .await: listed exception -- {reason}", nontrivial=False)
            else:
                ctx.ob("R12.5", f"{f['key']}|no-await-while-holding|{name}", not held, body.loc(held[0]) if held else f"{f['file']}:{f['line']}",
                       f"lock guard `{name}: {f['locals'][g]['ty'][:60]}` is " + ("released before every suspension point" if not held else
                       "still held at an .await: every other task that needs the lock (add_executor from a close callback, another cancel) waits for this future to be resumed -- which may in turn wait for them"))
    ctx.floor("R12.5", 3)

    # ------------------------------------------------------------------ R12.6 the executor task cannot die before its close callback
    # the callback runs after the stream loop inside the same spawned task: a panic in an item processor kills the task mid-stream, the status stays Running
    # and the callback never runs (the Uni's latch never fires, a sequential Multi never starts its newies).  Shared with C11: no diverging block is reachable
    # in any item processor under either value of the instruments guard (R11.3), and the guard is implied by metrics() for every instruments value (R11.6).
    import importlib
    C11 = importlib.import_module("props.C11")
    class OnlyPanics(util.PrefixedCtx):
        def ob(self, rule, key, ok, site="", detail="", nontrivial=True, undecided=False):
            if rule in ("R11.3", "R11.6", "R11.2"): return super().ob(rule, key, ok, site, detail, nontrivial, undecided)      # (R11.2: the error callback is awaited -- the last item is fully processed before the close callback)
            return ok
        def undecided(self, rule, key, site="", detail=""):
            if rule in ("R11.3", "R11.6", "R11.2"): return super().undecided(rule, key, site, detail)
    C11.check(OnlyPanics(ctx, "R12.6"))
    ctx.floor("R12.6", 10)

    check_executor_stream_pairing(ctx, "R12.10")
    ctx.floor("R12.10", 10)
    # ------------------------------------------------------------------ R12.8 what the close callback can see of the executor is what the executor recorded
    # the callback receives `Arc<dyn StreamExecutorStats>`: the status and the two times reach it only through these accessors.  Each answers the atomic load of its
    # own field and nothing else (a finish accessor turned into "finish - start" is no longer on the start accessor's time base: the callback finds a finish
    # time before the start time for an executor that ran for less time than it waited to start)
    n8 = 0
    for fld in ("execution_start_delta_nanos", "execution_finish_delta_nanos", "executor_status"):
        k8 = f"{EXE} as {STATS}::{fld}"
        f8 = fx.fn_opt(k8)
        if f8 is None: continue
        b8 = Body(f8); d8 = D.Dag(b8)
        r = strip_casts(d8.local(0))
        ok8 = (r[0] == "atomic" and r[1] == "load" and tuple(r[2])[-1:] == (fld,)) or (r[0] == "ref" and tuple(r[1])[-1:] == (fld,))
        n8 += 1
        ctx.ob("R12.8", f"{k8}|answers-its-own-field", ok8, f"{f8['file']}:{f8['line']}", f"answers `{show(r)[:90]}`; required: the atomic load of (or a reference to) `{fld}`, unchanged")
    ctx.floor("R12.8", 3)

    # ------------------------------------------------------------------ R12.9 'scheduled to finish' is reported BEFORE the stream is told to end
    # report_scheduled_to_finish() is a plain store: issued after the end request it lands on an executor that already went Running -> StreamEnded and entered its
    # close callback, and overwrites the ended state for good (the still-running callback finds its executor in a non-ended state)
    ENDERS = ("gracefully_end_stream", "gracefully_end_all_streams", "cancel_all_streams", "cancel_stream", "end_stream", "end_all_streams", "close")
    n9 = 0
    for f in fx.fns:
        rep = [blk for blk in f["blocks"] if blk["term"][0] == "Call" and blk["term"][1].get("fname") == "report_scheduled_to_finish"]
        if not rep or f["key"].startswith(EXE): continue
        body = Body(f)
        reps = [b for (b, c) in body.calls if c.get("fname") == "report_scheduled_to_finish"]
        ends = [b for (b, c) in body.calls if c.get("fname") in ENDERS]
        for rb in reps:
            late = [eb for eb in ends if rb in body.reach_from(eb)]
            n9 += 1
            ctx.ob("R12.9", f"{f['key']}|scheduled-before-end-request", not late, body.loc(rb),
                   "the executor is marked ScheduledToFinish before its stream is asked to end" if not late else
                   "report_scheduled_to_finish() can run after the end request: by then the executor may already be in an ended state, which this plain store overwrites")
    ctx.floor("R12.9", 1)


def _variant(e):
    e = strip_casts(e)
    if e[0] == "adt": return e[1]
    if e[0] == "const": return str(e[1]).split("::")[-1]
    return show(e)



def check_executor_stream_pairing(ctx, rule):
    """every executor the old/new spawners start is registered under the id of the very stream it consumes: in each `spawn_*_from_stream(.., stream_id, stream, ..)` call of
    the `spawn_*_oldies_executor` family (the calls inside the oldies' close callback included -- captures are resolved to what they were filled with) the id is
    `create_streams_for_old_and_new_events().K.1` and the stream is built from `.K.0` of the same K.  A newies executor registered under the oldies' id makes a later
    cancel-by-name (`flush_and_cancel_executor`) end whichever stream holds that recycled id -- an unrelated listener -- while the targeted one keeps running and its close
    callback never comes."""
    fx = ctx.fx
    def comp_of(e, want_last):
        """K such that e mentions `create_streams_for_old_and_new_events(..).K.<want_last>`"""
        found = set()
        def walk(x, depth=0):
            if not isinstance(x, tuple) or depth > 40: return
            if x and x[0] == "field" and str(x[1]) == want_last:
                y = strip_casts(x[2])
                if y[0] == "field" and strip_casts(y[2])[0] == "call" and strip_casts(y[2])[1].split("::")[-1] == "create_streams_for_old_and_new_events":
                    found.add(str(y[1]))
            for z in x:
                if isinstance(z, tuple): walk(z, depth + 1)
        walk(e)
        return found
    for f in fx.fns:
        if not ("multi::multi::Multi::spawn_" in f["key"] and "oldies_executor" in f["key"]): continue
        body = Body(f); dg = D.Dag(body)
        for (b, c) in body.calls:
            if not (c.get("fname") or "").endswith("_from_stream"): continue
            ids = []; streams = []
            for a in c["args"]:
                if a[0] not in ("c", "m"): continue
                ty = body.locals[a[1]["l"]]["ty"]
                _, e = util.resolve_capture(fx, f["key"], dg.expr(a))
                if ty == "u32":
                    k1 = comp_of(e, "1")
                    if k1: ids.append(k1)
                elif "Stream" in ty:
                    k0 = comp_of(e, "0")
                    if k0: streams.append(k0)
            if not ids and not streams: continue
            ok = len(ids) == 1 and len(streams) == 1 and ids[0] == streams[0] and len(ids[0]) == 1
            ctx.ob(rule, f"{f['key']}|{c['fname']}|id-and-stream-of-the-same-pair|{sorted(streams[0])[0] if streams and streams[0] else '?'}", ok, body.loc(b),
                   f"registered under the id of pair component {sorted(ids[0]) if ids else '?'}, consuming the stream of component {sorted(streams[0]) if streams else '?'}; required: the same")
