"""C14 - OgreArc / OgreUnique handles act as shared / unique owners of one pooled value."""
import dag as D, guards, util, lockrules, roles as R, facts as F
from dag import strip_casts, show
from mir import Body, op_local

LEVEL = "other"
EXPLANATION = ("Sufficient conditions for exactly-once destruction under every interleaving: (R14.1) the reference count is only ever "
               "changed by single atomic RMWs (fetch_add in clone / increment_references, fetch_sub(1, >=Release) in drop; initialised with the "
               "number of handles returned); (R14.2) in drop, the pool deallocation and the control-block free are reachable only on the edge "
               "where the value returned by *that* fetch_sub equals 1, after fence(>=Acquire), once each; (R14.3) constructor pre-load = number "
               "of handles handed out, clone = one increment per handle, the unsafe bulk API has only the listed in-crate users; (R14.4) the "
               "control block's data_id/allocator are immutable and every Deref-like impl resolves through them; (R14.5) unique->shared "
               "conversion suppresses the unique handle's Drop (ManuallyDrop) and OgreUnique is neither Clone nor Copy; (R14.6) the pool's dealloc_id -- the only "
               "thing the last handle's drop calls -- destroys the payload strictly before the slot re-enters the free list. (R14.7) the safe constructors allocate once, run the setter on the allocated reference and wrap exactly the allocated id (new_with = new_with_clones::<1>); references_count() answers a load of the counter.")
EXPLANATION += " (R14.9) the constructors (OgreArc::new_with / new_with_clones, OgreUnique::new, the pool's alloc_with*) invoke the setter they were given on every path that answers a handle: every handle dereferences to the value written at creation (shared with C01 R01.9); R14.6 inherits R13.1's payload-type and needs_drop conditions."
EXPLANATION += ' R14.6 also requires dealloc_ref (what OgreUnique::drop calls) to release through dealloc_id.'
ASSUMPTIONS = ["the count equals the number of live handles given R14.3 and that unsafe raw_copy/increment_references are used as paired in R03.4",
               "DerefMut on a shared handle (safe mutation of shared data) is outside the statement"]

ARC, INNER, UNIQ = R.ARC, R.INNER_ARC, R.UNIQUE

def check(ctx):
    fx = ctx.fx
    # ------------------------------------------------------------------ R14.1 who writes references_count and how
    for f in fx.fns:
        body = None
        for blk in f["blocks"]:
            t = blk["term"]
            if t[0] == "Call" and (t[1].get("f") or "").startswith(R.ATOMIC):
                body = Body(f); break
        if body is None: continue
        dg = None
        for (b, c) in body.calls:
            at = R.atomic_target(body, c)
            if not at or at[0] != INNER or at[1] != "references_count": continue
            meth = at[2]
            fname = f["key"].split("::")[-1]
            key = f"{f['key']}|references_count.{meth}"
            dg = dg or D.Dag(body)
            if meth == "load":
                continue
            if meth == "fetch_add" and f.get("impl_self") == ARC and fname == "clone":
                ok = strip_casts(dg.expr(c["args"][1])) == ("const", 1)
                ctx.ob("R14.1", key, ok, body.loc(b), "clone increments the count by exactly 1 with one atomic RMW")
            elif meth == "fetch_add" and f.get("impl_self") == ARC and fname == "increment_references":
                ok = strip_casts(dg.expr(c["args"][1]))[0] == "param" and f.get("unsafe")
                ctx.ob("R14.1", key, ok, body.loc(b), "bulk increment adds its (caller-supplied) count with one atomic RMW and is an unsafe fn")
            elif meth == "fetch_sub" and f.get("impl_self") == ARC and f.get("impl_trait") == "std::ops::Drop":
                o = lockrules.ordering_of(body, c["args"][2])
                ok = strip_casts(dg.expr(c["args"][1])) == ("const", 1) and o in lockrules.ORD_OK_REL
                ctx.ob("R14.1", key, ok, body.loc(b), f"drop decrements by 1 with fetch_sub(_, {o}); needs a single atomic RMW with >= Release")
            else:
                ctx.ob("R14.1", key + "|unexpected", False, body.loc(b), f"`references_count.{meth}` in {fname}: the count may only be moved by clone / increment_references / drop through single atomic RMWs")
    ctx.floor("R14.1", 2)
    # every function of OgreArc that creates a handle value (aggregate OgreArc{inner}) from an existing one must increment
    # ------------------------------------------------------------------ R14.2 drop protocol
    kdrop = f"{ARC} as std::ops::Drop::drop"
    body = Body(fx.fn(kdrop)); dg = D.Dag(body)
    subs = [(b, c) for (b, c) in body.calls if (R.atomic_target(body, c) or (None, None, None))[1:] == ("references_count", "fetch_sub")]
    if len(subs) != 1:
        ctx.ob("R14.2", f"{kdrop}|single-decrement", False, f"{body.f['file']}:{body.f['line']}", f"{len(subs)} fetch_sub on the count in drop; exactly one atomic decrement must decide")
    else:
        sb = subs[0][0]
        ctx.ob("R14.2", f"{kdrop}|single-decrement", not util.in_loop(body, sb) and util.on_every_return_path(body, sb), body.loc(sb), "exactly one decrement on every path")
        edges = util.eq_const_edge(body, dg, lambda e: e[0] == "atomic" and e[1] == "fetch_sub" and e[3] == sb, 1)
        if len(edges) != 1:
            ctx.ob("R14.2", f"{kdrop}|last-owner-test", False, body.loc(sb), "no test `value returned by the fetch_sub == 1` found: the freeing decision must use the RMW's own result (a separate load is a check-then-act race)")
        else:
            (swb, eq_t, ne_t, _) = edges[0]
            ctx.ob("R14.2", f"{kdrop}|last-owner-test", True, body.loc(swb), "freeing is decided by the value the decrement itself returned (== 1)")
            frees = [(b, c) for (b, c) in body.calls if c.get("fname") in ("dealloc_id", "dealloc_ref", "from_raw", "drop_in_place")]
            names = sorted({c.get("fname") for (_, c) in frees})
            ctx.ob("R14.2", f"{kdrop}|frees-present", {"dealloc_id", "from_raw"} <= set(names) or {"dealloc_ref", "from_raw"} <= set(names), body.loc(swb), f"drop frees the pool slot and the control block ({names})")
            for (b, c) in frees:
                ok = body.dominates(eq_t, b) and eq_t != ne_t and not util.in_loop(body, b)
                ctx.ob("R14.2", f"{kdrop}|{c.get('fname')}|only-last-owner", ok, body.loc(b), f"`{c.get('fname')}` must be reachable only on the edge where the decrement observed 1, once")
            # the non-last path frees nothing: ne_t reaches Return without any free -> implied by dominance above
            fences = [(b, c) for (b, c) in body.calls if c.get("fname") == "fence" and "atomic" in (c.get("f") or "")]
            okf = False
            for (b, c) in fences:
                o = lockrules.ordering_of(body, c["args"][0])
                if o in lockrules.ORD_OK_ACQ and body.dominates(eq_t, b) and all(body.dominates(b, fb) for (fb, _) in frees): okf = True
            ctx.ob("R14.2", f"{kdrop}|acquire-fence", okf, body.loc(eq_t), "fence(>= Acquire) sits on the last-owner edge before the frees (pairs with the Release decrements of the other handles)")
            # data freed is this handle's: dealloc_id(inner.allocator, inner.data_id)
            for (b, c) in frees:
                if c.get("fname") == "dealloc_id":
                    e = strip_casts(dg.expr(c["args"][1]))
                    ctx.ob("R14.2", f"{kdrop}|dealloc-own-id", e[0] == "mem" and e[1][-1] == "data_id", body.loc(b), f"deallocates `{show(e)}`; must be the control block's data_id")
    # ------------------------------------------------------------------ R14.3 constructor preload, clone result
    kc = f"{ARC}::from_allocated_with_clones"
    body = Body(fx.fn(kc)); dg = D.Dag(body)
    inits = []
    for b in body.reachable:
        for st in body.stmts(b):
            if st[0] == "A" and st[2][0] == "Agg" and st[2][1][0] == "Adt" and st[2][1][1] == INNER:
                fields = st[2][1][4]; ops = st[2][2]
                e = dg.expr(ops[fields.index("references_count")])
                inits.append((b, e))
    ok = len(inits) == 1
    detail = "control block built once"
    if ok:
        e = inits[0][1]
        # AtomicU32::new(COUNT as u32)
        ok = e[0] == "call" and e[1].endswith("::new") and strip_casts(e[2][0]) == ("gconst", "COUNT")
        detail = f"count initialised with `{show(e)}`; must be the same const that sizes the returned array"
    ctx.ob("R14.3", f"{kc}|preload-equals-handles", ok, f"{body.f['file']}:{body.f['line']}", detail)
    ok_ret = "COUNT]" in body.locals[0]["ty"]
    ctx.ob("R14.3", f"{kc}|returns-COUNT-handles", ok_ret, f"{body.f['file']}:{body.f['line']}", f"return type {body.locals[0]['ty']}", nontrivial=False)
    kcl = f"{ARC} as std::clone::Clone::clone"
    body = Body(fx.fn(kcl))
    from mir import op_int as _op_int
    adds = [(b, c) for (b, c) in body.calls if (R.atomic_target(body, c) or (None, None, None))[1:] == ("references_count", "fetch_add") and _op_int(c["args"][1]) == 1]
    # the same thing through the bulk API: `increment_references(1)` (one reference) + one `raw_copy()` (one handle)
    bulk = [(b, c) for (b, c) in body.calls if c.get("f") == ARC + "::increment_references"]
    copies = [(b, c) for (b, c) in body.calls if c.get("f") == ARC + "::raw_copy"]
    clone_via_bulk = not adds and len(bulk) == 1 and _op_int(bulk[0][1]["args"][1]) == 1 and len(copies) == 1 and util.on_every_return_path(body, copies[0][0])
    if clone_via_bulk: adds = bulk
    ok = len(adds) == 1 and util.on_every_return_path(body, adds[0][0]) and not util.in_loop(body, adds[0][0]) and (clone_via_bulk or not (bulk or copies))
    ctx.ob("R14.3", f"{kcl}|one-increment-per-handle", ok, f"{body.f['file']}:{body.f['line']}", "clone performs exactly one increment (by one) on every path before returning the one new handle")
    clone_ok = ok and clone_via_bulk
    # who may call the unsafe bulk API
    allowed = {R.MULTI_CHANNELS["multi.ogre_arc.atomic"] + " as " + R.T_PROD + "::send_derived", R.MULTI_CHANNELS["multi.ogre_arc.full_sync"] + " as " + R.T_PROD + "::send_derived"}
    for f in fx.fns:
        for blk in f["blocks"]:
            t = blk["term"]
            if t[0] == "Call" and t[1].get("f") in (ARC + "::raw_copy", ARC + "::increment_references"):
                owner = f["owner_fn"]
                if owner == kcl and clone_ok: continue      # Clone::clone built on increment_references(1) + raw_copy(): the pairing was just checked
                ctx.ob("R14.3", f"{owner}|uses|{t[1]['fname']}", owner in allowed, f"{f['file']}:{t[1]['line']}",
                       f"unsafe `{t[1]['fname']}` used in {owner}; the only users whose pairing is checked (R03.4) are the two ogre_arc send_derived")
    for n in ("raw_copy", "increment_references"):
        f = fx.fn(f"{ARC}::{n}")
        ctx.ob("R14.3", f"{ARC}::{n}|is-unsafe", bool(f.get("unsafe")), f"{f['file']}:{f['line']}", "bulk reference API stays `unsafe`", nontrivial=False)
    # ------------------------------------------------------------------ R14.4 immutable control block + deref through it
    nw = 0
    for f in fx.fns:
        if f.get("impl_self") not in (ARC, INNER) and "ogre_arc" not in f["key"]: continue
        body = Body(f)
        for a in guards.accesses(body, INNER, {"data_id", "allocator"}):
            if a["kind"] == "w":
                nw += 1
                ctx.ob("R14.4", f"{f['key']}|writes|{a['field']}", False, a["site"], f"control block field `{a['field']}` is written after construction")
    ctx.ob("R14.4", f"{INNER}|data_id-allocator-immutable", nw == 0, "", "no write to data_id / allocator outside construction")
    for tr, m in (("std::ops::Deref", "deref"), ("std::ops::DerefMut", "deref_mut"), ("std::convert::AsRef", "as_ref"), ("std::borrow::Borrow", "borrow")):
        k = f"{ARC} as {tr}::{m}"
        f = fx.fn_opt(k)
        if f is None:
            ctx.ob("R14.4", f"{k}|present", False, "", "Deref-like impl missing (role drift)"); continue
        body = Body(f); dg = D.Dag(body)
        e = strip_casts(dg.local(0))
        while e[0] in ("ref", "deref"): e = e[1] if isinstance(e[1], tuple) else e
        ok = e[0] == "call" and e[1].endswith("ref_from_id") and len(e[2]) == 2 and strip_casts(e[2][1])[0] == "mem" and strip_casts(e[2][1])[1][-1] == "data_id" \
             and strip_casts(e[2][0])[0] in ("mem", "ref") and "allocator" in strip_casts(e[2][0])[1]
        ctx.ob("R14.4", f"{k}|resolves-through-control-block", ok, f"{f['file']}:{f['line']}", f"returns `{show(dg.local(0))}`; must be allocator.ref_from_id(data_id) of the control block")
    # ------------------------------------------------------------------ R14.5 unique -> shared, OgreUnique !Clone
    k = f"{UNIQ}::into_ogre_arc"
    body = Body(fx.fn(k)); dg = D.Dag(body)
    # ownership sinks that suppress the destructor: ManuallyDrop::new(self) or mem::forget(self)
    md = [(b, c) for (b, c) in body.calls if c["args"] and dg.expr(c["args"][0])[:2] == ("param", 1) and c["args"][0][0] == "m"
          and ((c.get("fname") == "new" and "ManuallyDrop" in (c.get("f") or "")) or (c.get("f") or "") in ("std::mem::forget", "core::mem::forget"))]
    drops_self = body.live_drops(1)
    okm = len(md) == 1 and body.dominates(md[0][0], body.returns[0]) if body.returns else False
    ctx.ob("R14.5", f"{k}|suppresses-unique-drop", bool(okm) and not drops_self, f"{body.f['file']}:{body.f['line']}",
           "self is moved into ManuallyDrop / mem::forget on every path and never dropped (otherwise the value is destroyed while the new shared handle points at it)")
    mk = [(b, c) for (b, c) in body.calls if c.get("fname") in ("from_allocated", "from_allocated_with_clones")]
    ctx.ob("R14.5", f"{k}|one-shared-handle", len(mk) == 1 and not util.in_loop(body, mk[0][0]), f"{body.f['file']}:{body.f['line']}", "creates exactly one shared control block for the value")
    if mk:
        e = strip_casts(dg.expr(mk[0][1]["args"][0]))
        ok = e[0] == "call" and e[1].endswith("id_from_ref")
        ctx.ob("R14.5", f"{k}|same-slot", ok, body.loc(mk[0][0]), f"shared handle is created for `{show(e)}`; must be the id of the unique handle's own slot")
    for tr in ("std::clone::Clone", "std::marker::Copy"):
        has = [i for i in fx.impls_of(tr) if i["self"] == UNIQ]
        ctx.ob("R14.5", f"{UNIQ}|not-{tr.split('::')[-1]}", not has, has[0]["file"] + ":" + str(has[0]["line"]) if has else "", f"OgreUnique must not implement {tr}", nontrivial=False)
    kd = f"{UNIQ} as std::ops::Drop::drop"
    body = Body(fx.fn(kd))
    de = [(b, c) for (b, c) in body.calls if c.get("fname") in ("dealloc_ref", "dealloc_id")]
    ok = len(de) == 1 and util.on_every_return_path(body, de[0][0]) and not util.in_loop(body, de[0][0])
    ctx.ob("R14.5", f"{kd}|deallocates-once", ok, f"{body.f['file']}:{body.f['line']}", "dropping the unique handle returns its slot exactly once")
    # ------------------------------------------------------------------ R14.7 constructors and the reported count
    # `new` / `new_with` / `new_with_clones` allocate once, write through the allocated reference and wrap exactly the allocated id; `references_count()` is a
    # load of the counter the clone / drop protocol maintains
    def fam(k): return [f for f in fx.fns if f["key"] == k or f["key"].startswith(k + "::{closure#")]
    def calls_of(k, name): return [(f, blk["term"][1]) for f in fam(k) for blk in f["blocks"] if blk["term"][0] == "Call" and blk["term"][1].get("fname") == name]
    for ctor, wrap in (("new", "from_allocated"), ("new_with_clones", "from_allocated_with_clones")):
        k = f"{ARC}::{ctor}"
        al = calls_of(k, "alloc_ref"); wr = calls_of(k, wrap)
        ok = len(al) == 1 and len(wr) == 1
        det = f"{len(al)} alloc_ref, {len(wr)} {wrap}"
        if ok:
            wf, wc = wr[0]
            wd = D.Dag(Body(wf))
            ide = strip_casts(wd.expr(wc["args"][0]))
            # the id handed to the wrapper is component 1 of the (reference, id) pair alloc_ref answered (the closure's parameter, or the Some payload)
            ok = ide[0] == "field" and str(ide[1]) == "1"
            det += f"; wraps id `{show(ide)[:60]}` (required: the id alloc_ref answered)"
        ctx.ob("R14.7", f"{k}|wraps-the-allocated-id", ok, f"{fam(k)[0]['file']}:{fam(k)[0]['line']}", det)
    k = f"{ARC}::new_with_clones"
    st = [(f, c) for f in fam(k) for blk in f["blocks"] if blk["term"][0] == "Call" for c in [blk["term"][1]] if c.get("f") == "std::ops::FnOnce::call_once"]
    ok = len(st) == 1
    if ok:
        sf, sc = st[0]; sd = D.Dag(Body(sf))
        tup = sd.expr(sc["args"][1])
        a0 = strip_casts(tup[1][0]) if tup[0] == "tuple" and tup[1] else ("?",)
        ok = a0[0] == "field" and str(a0[1]) == "0"
    ctx.ob("R14.7", f"{k}|setter-writes-the-allocated-slot", ok, f"{fam(k)[0]['file']}:{fam(k)[0]['line']}", "the setter runs once, on the reference alloc_ref answered (component 0 of the pair)")
    k = f"{ARC}::new_with"
    nb = Body(fx.fn(k))
    cw = [(b, c) for (b, c) in nb.calls if c.get("fname") == "new_with_clones"]
    one = cw and any(str(g[-1]) in ("1", "1_usize") for g in cw[0][1].get("gargs", []) if g and g[0] == "C")
    ctx.ob("R14.7", f"{k}|is-new_with_clones-of-one", len(cw) == 1 and bool(one), f"{nb.f['file']}:{nb.f['line']}", f"new_with = new_with_clones::<1> ({[g for g in (cw[0][1].get('gargs') if cw else [])]})")
    k = f"{ARC}::references_count"
    rb = Body(fx.fn(k)); rd = D.Dag(rb)
    r0 = strip_casts(rd.local(0))
    ctx.ob("R14.7", f"{k}|answers-the-counter", r0[0] == "atomic" and r0[1] == "load" and r0[2][-1:] == ("references_count",), f"{rb.f['file']}:{rb.f['line']}",
           f"answers `{show(r0)[:60]}`; required: a load of the control block's references_count")
    ctx.floor("R14.7", 5)
    # ------------------------------------------------------------------ R14.8 the unique handle resolves to its own slot; From<OgreUnique> is into_ogre_arc
    import delegation
    for tr, fn in (("std::ops::Deref", "deref"), ("std::convert::AsRef", "as_ref"), ("std::borrow::Borrow", "borrow")):
        k = f"{UNIQ} as {tr}::{fn}"
        f_ = fx.fn_opt(k)
        if f_ is None: continue
        ub = Body(f_); ud = D.Dag(ub)
        e = strip_casts(ud.local(0))
        while e[0] in ("deref",) and isinstance(e[1], tuple): e = strip_casts(e[1])
        ctx.ob("R14.8", f"{k}|answers-its-own-slot", e[0] in ("mem", "ref") and e[1][-1:] == ("data_ref",), f"{f_['file']}:{f_['line']}", f"returns `{show(ud.local(0))[:60]}`; required: self.data_ref")
    kb = Body(fx.fn(f"{UNIQ}::from_allocated_id")); kd = D.Dag(kb)
    far = [(b, c) for (b, c) in kb.calls if c.get("fname") == "from_allocated_ref"]
    ok = len(far) == 1
    if ok:
        e = strip_casts(kd.expr(far[0][1]["args"][0]))
        while e[0] in ("ref", "deref") and isinstance(e[1], tuple): e = strip_casts(e[1])
        ok = e[0] == "call" and e[1].endswith("ref_from_id") and strip_casts(e[2][-1])[:2] == ("param", 1)
    ctx.ob("R14.8", f"{UNIQ}::from_allocated_id|wraps-ref_from_id-of-its-id", ok, f"{kb.f['file']}:{kb.f['line']}", "from_allocated_id(id) wraps allocator.ref_from_id(id)")
    kfr = [k_ for k_ in fx.by_key if k_.startswith(ARC + " as std::convert::From") and k_.endswith("::from")]
    for k_ in kfr:
        delegation.thin(ctx, "R14.8", k_, "into_ogre_arc", "converting with From is the same transfer as into_ogre_arc")
    ctx.floor("R14.8", 4)
    ctx.floor("R14.2", 6); ctx.floor("R14.3", 5); ctx.floor("R14.4", 5); ctx.floor("R14.5", 5)


# ---------------------------------------------------------------------------------------------- R14.6 (added after seed C14-s1)
_check_c14 = check
def check(ctx):
    _check_c14(ctx)
    # 'the value is destroyed and its slot returned exactly when the last handle is dropped': the pool's dealloc_id -- the only thing the last
    # handle's drop calls -- destroys the payload strictly BEFORE the slot re-enters the free list (otherwise a concurrent allocation owns the slot
    # while the old destructor still runs over it).  Shared with C13 R13.1 / C05 R05.4.
    import importlib
    C13 = importlib.import_module("props.C13")
    class OnlyDealloc(util.PrefixedCtx):
        def ob(self, rule, key, ok, site="", detail="", nontrivial=True, undecided=False):
            if rule == "R13.1" and "dealloc_id" in key: return super().ob(rule, key, ok, site, detail, nontrivial, undecided)
            if rule == "R13.2" and "dealloc_ref" in key: return super().ob(rule, key, ok, site, detail, nontrivial, undecided)   # OgreUnique::drop releases by reference
            return ok
    C13.check(OnlyDealloc(ctx, "R14.6"))
    ctx.floor("R14.6", 2)
    # R14.9 'every handle dereferences to the value written at creation': the constructors (OgreArc::new_with / new_with_clones, OgreUnique::new, the pool's
    # alloc_with*) invoke the setter they were given on every path that answers a handle (shared with C01 R01.9)
    class OnlyAlloc(util.PrefixedCtx):
        def ob(self, rule, key, ok, site="", detail="", nontrivial=True, undecided=False):
            if "ogre_alloc" in key or "instances" in key: return super().ob(rule, key, ok, site, detail, nontrivial, undecided)
            return ok
    importlib.import_module("props.C01").check_setters_consumed(OnlyAlloc(ctx, "R14.9"), "R01.9")



def check_unique_to_shared(ctx, rule):
    """one owner per slot across the OgreUnique -> OgreArc conversion (R14.5 into_ogre_arc suppresses the unique handle's drop; R14.8 `From<OgreUnique> for OgreArc` goes
    through it): imported by every property that stands on 'a pool slot has exactly one owner' (C01, C02, C05, C08, C13, C16)"""
    sub = util.fresh_ctx(ctx, "C14")
    util.guarded(ctx, check, sub)
    n = 0
    for o in sub.obs:
        if o["rule"] in ("R14.5", "R14.8") and ("into_ogre_arc" in o["key"] or "From::from" in o["key"]):
            n += 1
            ctx.ob(rule, o["key"], o["ok"], o["site"], o["detail"], o["nontrivial"])
    return n
