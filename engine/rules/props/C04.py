"""C04 - no lost wake-up: an accepted event reaches a driven stream without further sends."""
import dag as D, util, guards, ts, roles as R, facts as F
from dag import strip_casts, show, norm
from mir import Body, op_local

LEVEL = "other"
EXPLANATION = ("Protocol shape + classification of every wake decision, decided on all paths of the built MIR: (R04.1) MutinyStream::poll_next answers Pending only after "
               "register_stream_waker(its id, cx.waker()), which it reaches only on the None edge of the consume attempt; (R04.2) register_stream_waker: every path that "
               "stores a waker goes on to invoke the stored waker after the store (closes the window in which a producer found no / an old waker); wake_stream re-reads the "
               "slot under wakers_lock when it found it empty; (R04.3) each of the wake_stream sites in channel code is dominated by the publication of its path (or the "
               "container invokes the length callback after its own publication); (R04.4) under its guards the wake target is a valid stream index (0 <= target < MAX_STREAMS) "
               "or an entry of the live-listener list; (R04.5) every accept path is classified: A = unconditional wake of every listener after publication; B = exact "
               "empty->non-empty detection (length computed inside the critical section that contains the publication -- or sampled after the publication CAS -- the guard "
               "holds at the transition value and the target at that value is stream 0 / the queue's own listener) -- A and B are sound sufficient conditions for 'a parked, "
               "driven stream is woken'; C = heuristic: the length was sampled before publication without a lock, or the target need not exist -- reported (listed genuine "
               "findings, DESIGN 5-D4); (R04.6) every implemented accept entry point reaches a wake site. Every channel's register_stream_waker / keep_stream_running forward to the manager with the same id / waker (R04.1).")
EXPLANATION += " R04.2 also requires every store into the wakers table to happen with wakers_lock held and every function of the streams manager to return with no spin lock held; R04.5 rejects a wake that sits on the is-the-sentinel side of an end-of-list test and, for entry points that only wake unconditionally, requires one of those wakes to follow a SUCCESSFUL publication; (R04.7) the wake primitive is complete: wake_stream returns only after waking the waker registered under the id it was given or after finding that slot empty under wakers_lock (no early-out on a busy lock / coalescing flag / count); (R04.8) the rings report the reservation's length-before + 1 on acceptance (the lengths the wake guards are judged against)."
EXPLANATION += ' Lengths handed across layers (what leak_slot_internal / publish_movable / the report_len callback answer) are not assumed to mean "before" or "after": their offset from the true queue length is inferred from the producing code (len_offset) and the wake guards / targets are evaluated against it; R04.8 requires the reported length to be the reservation\'s length + 1 wherever the 1 is added, exactly once. For the log channel the class-A sweep must read the listener list / count AFTER the publication.'
EXPLANATION += " A listed heuristic entry point is not a free pass: known_findings.json records, per listed entry point, which stream is woken for which (MAX_STREAMS, queue length) -- evaluated from the guards and targets, so refactor-proof; the check requires today's table to be a superset (waking more is fine, a wake that disappears for some length / MAX_STREAMS is a new violation: heuristic-wake-not-weakened)."
ASSUMPTIONS = ["executors honour the Waker contract (a woken task is re-polled)",
               "class C sites are reported as findings: that they lose a wake-up in one particular run is not decided",
               "class B relies on the full-sync containers computing the returned length inside their critical section (C02 R02.4)"]
TRUSTED = ["crossbeam-channel len()/try_send()"]

SM, STREAM = R.SM, R.STREAM
WAKE = SM + "::wake_stream"
PUB = {"publish_movable", "publish", "publish_leaked_internal", "publish_leaked_ref", "publish_leaked_id", "try_publish_leaked_internal_index",
       "try_publish_leaked_internal", "try_send"}
ENTRY = ("send", "send_with", "send_with_async", "try_send_reserved", "send_derived")
KIND = {"uni.movable.atomic": "atomic", "uni.movable.full_sync": "full_sync", "uni.movable.crossbeam": "crossbeam", "uni.zero_copy.atomic": "atomic",
        "uni.zero_copy.full_sync": "full_sync", "multi.arc.atomic": "atomic", "multi.arc.full_sync": "full_sync", "multi.arc.crossbeam": "crossbeam",
        "multi.ogre_arc.atomic": "atomic", "multi.ogre_arc.full_sync": "full_sync", "multi.mmap_log": "log"}
MS = range(1, 17)


# ---------------------------------------------------------------------------------------------- tiny evaluator over dag trees
class NoVal(Exception):
    pass

def atoms(e, out):
    e0 = e
    if not isinstance(e, tuple): return
    k = e[0]
    if k in ("const", "gconst"): return
    if k == "cast": return atoms(e[2], out)
    if k == "pair": return atoms(e[1], out)
    if k == "bin":
        atoms(e[2], out); atoms(e[3], out); return
    if k == "un": return atoms(e[2], out)
    if k == "call" and e[1].endswith("::get") and len(e[2]) == 1 and "NonZero" in e[1]:
        return atoms(e[2][0], out)
    n = norm(e)
    if n not in out: out.append(n)

def ev(e, env, m):
    k = e[0]
    if k == "const":
        if isinstance(e[1], int): return e[1]
        raise NoVal(str(e))
    if k == "gconst":
        if str(e[1]).split("::")[-1] == "MAX_STREAMS": return m
        if str(e[1]).endswith("u32::MAX"): return 0xFFFFFFFF
        raise NoVal(str(e))
    if k == "cast": return ev(e[2], env, m)
    if k == "pair": return ev(e[1], env, m)
    if k == "call" and e[1].endswith("::get") and len(e[2]) == 1 and "NonZero" in e[1]: return ev(e[2][0], env, m)
    if k == "bin":
        a, b = ev(e[2], env, m), ev(e[3], env, m)
        op = e[1].rstrip("!~")
        if op == "Add": return a + b
        if op == "Sub": return a - b
        if op == "Mul": return a * b
        if op == "Rem":
            if b == 0: raise NoVal("rem 0")
            return a % b
        if op == "Div":
            if b == 0: raise NoVal("div 0")
            return a // b
        return {"Lt": a < b, "Le": a <= b, "Gt": a > b, "Ge": a >= b, "Eq": a == b, "Ne": a != b}[op]
    n = norm(e)
    if n in env: return env[n]
    raise NoVal(show(e))


class Site:
    pass


WAKE_ALL = SM + "::wake_all_streams"
ALL = ("allstreams",)

def _conds_at(body, dg, b):
    out = []
    for x in sorted(body.dom[b]):
        cc = D.cmp_of_switch(body, dg, x)
        if not cc: continue
        op, l, r, tt, ft = cc
        if tt == ft: continue
        if body.dominates(tt, b): out.append((op, l, r, True))
        elif body.dominates(ft, b): out.append((op, l, r, False))
    return out


def subst(e, pmap, depth=0):
    """replaces the callee's parameters by the caller's argument expressions"""
    if not isinstance(e, tuple) or depth > 40: return e
    if e and e[0] == "param" and e[1] in pmap: return pmap[e[1]]
    return tuple(subst(x, pmap, depth + 1) if isinstance(x, tuple) else x for x in e)


def wake_sites(fx):
    """every wake decision of channel code, in the context of the accept entry point (or closure of one) that takes it: a call of wake_stream /
    wake_all_streams directly in that function, or inside a crate-local helper it calls -- then the helper's guards and target are rewritten over the
    caller's argument expressions and joined with the caller's own guards at the call (bound: 3 levels)."""
    direct = {}
    bodies = {}
    def bd(f):
        k = id(f)
        if k not in bodies:
            b = Body(f); bodies[k] = (b, D.Dag(b))
        return bodies[k]
    for f in fx.fns:
        if f.get("impl_self") == SM: continue
        has = any(blk["term"][0] == "Call" and (blk["term"][1].get("resolved") or blk["term"][1].get("f")) in (WAKE, WAKE_ALL) for blk in f["blocks"])
        if not has: continue
        body, dg = bd(f)
        for (b, c) in body.calls:
            tgt = c.get("resolved") or c.get("f")
            if tgt not in (WAKE, WAKE_ALL): continue
            s = Site(); s.f = f; s.key = f["key"]; s.body = body; s.dg = dg; s.b = b
            s.target = dg.expr(c["args"][1]) if tgt == WAKE else ALL
            s.conds = _conds_at(body, dg, b)
            s.via = None
            s.in_loop = util.in_loop(body, b)
            direct.setdefault(f["key"], []).append(s)
    def is_context(key):
        return channel_of(fx, key) is not None and entry_of(key) is not None
    callers_memo = {}
    def callers_of(key):
        if key not in callers_memo:
            res = []
            for f in fx.fns:
                if not any(blk["term"][0] == "Call" and (blk["term"][1].get("resolved") or blk["term"][1].get("f")) == key for blk in f["blocks"]): continue
                body, dg = bd(f)
                for (b, c) in body.calls:
                    if (c.get("resolved") or c.get("f")) == key: res.append((f, body, dg, b, c))
            callers_memo[key] = res
        return callers_memo[key]
    out = []
    def place(s, depth):
        if is_context(s.key) or depth >= 3 or len(fx.by_key.get(s.key, [])) != 1 or "::{closure#" in s.key:
            out.append(s); return
        cs = callers_of(s.key)
        if not cs:
            out.append(s); return
        for (f, body, dg, b, c) in cs:
            pmap = {i + 1: dg.expr(a) for i, a in enumerate(c["args"])}
            t = Site(); t.f = f; t.key = f["key"]; t.body = body; t.dg = dg; t.b = b
            t.target = s.target if s.target == ALL else subst(s.target, pmap)
            t.conds = _conds_at(body, dg, b) + [(op, subst(l, pmap), subst(r, pmap), pol) for (op, l, r, pol) in s.conds]
            t.via = s.key if s.via is None else s.via
            t.in_loop = s.in_loop or util.in_loop(body, b)
            place(t, depth + 1)
    for k in sorted(direct):
        for s in direct[k]: place(s, 0)
    return out


def channel_of(fx, key):
    owner = fx.by_key[key][0].get("owner_fn") or key
    for name, path in R.CHANNELS.items():
        if owner.startswith(path + " as ") or owner.startswith(path + "::"): return name
    return None


def entry_of(key):
    for part in key.split(" as ")[-1].split("::"):
        if part in ENTRY: return part
    return None


def mentions(e, sub, depth=0):
    if isinstance(e, str): return sub in e
    if not isinstance(e, tuple) or depth > 40: return False
    return any(mentions(x, sub, depth + 1) for x in e)

def _walk(e, depth=0):
    if isinstance(e, tuple) and depth < 40:
        yield e
        for x in e:
            if isinstance(x, tuple): yield from _walk(x, depth + 1)

def is_listener_id(e):
    return mentions(e, "used_streams") or mentions(e, "slice::Iter")

def is_sentinel(e):
    e = strip_casts(e)
    return e == ("const", 0xFFFFFFFF) or (e[0] == "gconst" and str(e[1]).endswith("u32::MAX"))

def _is_loop_counter(e):
    """a loop-carried local whose alternatives are a start value and itself + 1 (`let mut i = 0; while i < N { ..; i += 1 }`)"""
    e = strip_casts(e)
    if e[0] != "phi" or len(e) < 4: return False
    for a in e[3]:
        a = strip_casts(a)
        if a[0] == "pair": a = a[1]
        if a[0] == "bin" and a[1].rstrip("!~") == "Add":
            x, y = strip_casts(a[2]), strip_casts(a[3])
            if (x[:2] == ("phi", e[1]) and y == ("const", 1)) or (y[:2] == ("phi", e[1]) and x == ("const", 1)): return True
    return False

def sentinel_test(l, r):
    """conditions that only steer the iteration over the listener list, not the wake decision: the end-of-list sentinel and the bound test of an index loop"""
    return is_sentinel(l) or is_sentinel(r) or _is_loop_counter(l) or _is_loop_counter(r)


def sentinel_wrong_side(op, l, r, pol):
    """the condition is a comparison with the end-of-list sentinel and the path is on the side where the id IS the sentinel (`if id == u32::MAX` taken,
    `if id != u32::MAX` not taken): nothing issued there reaches a live listener"""
    if not (is_sentinel(l) or is_sentinel(r)): return False
    return (op == "Eq" and pol) or (op == "Ne" and not pol)


def _alts(e):
    e = strip_casts(e)
    if e[0] == "phi" and len(e) > 3:
        out = []
        for a in e[3]: out += _alts(a)
        return out
    return [e]


_OFF_MEMO = {}
def len_offset(fx, e, depth=0):
    """`e` == D + k with D a wrapping difference of two positions (a queue length sample) and k a constant: returns k, following the value through NonZero wrappers,
    checked / wrapping +-const and -- interprocedurally -- through the answers (Option / tuple components) of the crate functions that produced it.  None when `e`
    is not of that shape.  This is what a length handed across a layer MEANS (length before: 0, length after: 1), read from the code that produces it, so that the
    wake decisions are judged against the real queue length whichever side of the boundary adds the 1."""
    if depth > 14 or not isinstance(e, tuple): return None
    e = strip_casts(e)
    k = e[0]
    if k == "pair": return len_offset(fx, e[1], depth + 1)
    if k == "bin":
        op = e[1].rstrip("!~")
        a, b = strip_casts(e[2]), strip_casts(e[3])
        if op in ("Add", "Sub") and b[0] == "const" and isinstance(b[1], int):
            r = len_offset(fx, a, depth + 1)
            return None if r is None else r + (b[1] if op == "Add" else -b[1])
        if op == "Add" and a[0] == "const" and isinstance(a[1], int):
            r = len_offset(fx, b, depth + 1)
            return None if r is None else r + a[1]
        if op == "Sub" and e[1].endswith("~"): return 0
        return None
    if k == "call" and "NonZero" in e[1] and e[1].split("::")[-1] in ("get", "new_unchecked") and len(e[2]) == 1: return len_offset(fx, e[2][0], depth + 1)
    if k == "call" and e[1].split("::")[-1] in ("unwrap", "unwrap_unchecked", "expect") and e[2]:
        return len_offset(fx, ("field", "0", ("variant", "Some", e[2][0])), depth + 1)
    path = []; x = e
    while x[0] in ("field", "variant"):
        path.append(x); x = strip_casts(x[2])
    if x[0] == "call" and path:
        key = (x[1], tuple((q[0], str(q[1])) for q in path))
        if key in _OFF_MEMO: return _OFF_MEMO[key]
        _OFF_MEMO[key] = None
        g = fx.fn_opt(x[1])
        if g is None and "NonZero" in x[1] and x[1].split("::")[-1] == "new" and len(x[2]) == 1:
            # NonZeroU32::new(X) as Some .0
            return len_offset(fx, x[2][0], depth + 1)
        if g is None: return None
        gd = D.Dag(Body(g))
        alts = _alts(gd.local(0))
        for step in reversed(path):
            nxt = []
            for a in alts:
                if step[0] == "variant":
                    if a[0] == "adt":
                        if a[1] == step[1]: nxt.append(a)
                    elif a[0] == "call" and "NonZero" in a[1] and a[1].split("::")[-1] == "new" and step[1] == "Some": nxt.append(("adt", "Some", (a[2][0],), "std::option::Option"))
                    else: nxt.append(("variant", step[1], a))
                else:
                    i = str(step[1])
                    if a[0] in ("adt", "tuple") and i.isdigit() and int(i) < len(a[1] if a[0] == "tuple" else a[2]):
                        nxt += _alts((a[1] if a[0] == "tuple" else a[2])[int(i)])
                    else: nxt.append(("field", step[1], a))
            alts = nxt
        ks = {len_offset(fx, a, depth + 1) for a in alts}
        r = ks.pop() if len(ks) == 1 else None
        _OFF_MEMO[key] = r
        return r
    return None


def callback_len_offset(fx, callee_key, param_name_part="report_len"):
    """offset of the length a container function hands to its `report_len_after_*` callback"""
    g = fx.fn_opt(callee_key)
    if g is None: return None
    gb = Body(g); gd = D.Dag(gb)
    ks = set()
    for (b, c) in gb.calls:
        if c.get("f") in ("std::ops::FnOnce::call_once", "std::ops::Fn::call", "std::ops::FnMut::call_mut") and len(c["args"]) > 1 and param_name_part in show(gd.expr(c["args"][0])):
            a_ = strip_casts(gd.expr(c["args"][1]))
            a_ = a_[1][0] if a_[0] == "tuple" and a_[1] else a_
            ks.add(len_offset(fx, a_))
    return ks.pop() if len(ks) == 1 else None


def length_source(fx, s, atom):
    src, trans = _length_source(fx, s, atom)
    if src in ("reserve", "publish", "post"):
        # what the sample means (length before / after) is read from the code that produced it, not assumed from the producer's name
        k = None
        if atom[0] == "param" and "::{closure#" in s.key:
            parent = s.key.rsplit("::{closure#", 1)[0]
            pb = Body(fx.fn(parent)); pd = D.Dag(pb)
            for (b, c) in pb.calls:
                if not any(pd.expr(a) == ("closure", s.key) for a in c["args"]): continue
                if c.get("fname") == "publish":
                    k = callback_len_offset(fx, c.get("resolved") or c.get("f"))
                elif c.get("fname") in ("map", "map_or", "and_then", "map_or_else", "is_some_and", "is_ok_and", "is_none_or", "inspect") and c["args"]:
                    k = len_offset(fx, ("field", "0", ("variant", "Some", pd.expr(c["args"][0]))))
        else:
            k = len_offset(fx, atom)
        if k is not None: trans = k
    return (src, trans)


def _length_source(fx, s, atom):
    """(kind, transition value): 'reserve' (length before, 0), 'publish' (length after, 1), 'post' (sampled after the publication CAS, 1), 'presend' (0)"""
    txt = show(atom)
    if "leak_slot_internal" in txt: return ("reserve", 0)
    if "try_publish_leaked_internal_index" in txt: return ("post", 1)
    if any(p + "@" in txt for p in ("publish_movable", "publish_leaked_ref", "publish_leaked_id", "publish")): return ("publish", 1)
    if atom[0] == "param" and "::{closure#" in s.key:
        parent = s.key.rsplit("::{closure#", 1)[0]
        pb = Body(fx.fn(parent)); pd = D.Dag(pb)
        for (b, c) in pb.calls:
            for i, a in enumerate(c["args"]):
                if pd.expr(a) == ("closure", s.key):
                    if c.get("fname") == "publish": return ("publish", 1)
                    if c.get("fname") in ("map", "map_or", "and_then", "map_or_else", "is_some_and", "is_ok_and", "is_none_or", "inspect"):
                        rc = show(pd.expr(c["args"][0]))
                        if "try_publish_leaked_internal_index" in rc: return ("post", 1)
                        if any(p + "@" in rc for p in ("publish_movable", "publish_leaked_ref", "publish_leaked_id")): return ("publish", 1)
    # crossbeam: tx.len() sampled before try_send
    if atom[0] in ("deref", "ref?", "call"):
        for (b, c) in s.body.calls:
            if c.get("fname") == "len" and "crossbeam" in (c.get("f") or "") + (c.get("resolved") or ""):
                return ("presend", 0)
    return (None, None)


def check(ctx):
    fx = ctx.fx
    check_poll_protocol(ctx)
    check_reported_lengths(ctx)
    check_wake_sites(ctx)


def check_poll_protocol(ctx):
    fx = ctx.fx
    # ------------------------------------------------------------------ R04.1 poll_next
    k = f"{STREAM} as futures::Stream::poll_next"
    f = fx.fn_opt(k) or [x for x in fx.fns if x.get("impl_self") == STREAM and x["key"].endswith("::poll_next")][0]
    body = Body(f); dg = D.Dag(body); k = f["key"]
    site = f"{f['file']}:{f['line']}"
    cons = [(b, c) for (b, c) in body.calls if c.get("fname") == "consume"]
    regs = [(b, c) for (b, c) in body.calls if c.get("fname") == "register_stream_waker"]
    pend = [b for b in body.reachable for st in body.stmts(b) if st[0] == "A" and not st[1]["p"] and st[1]["l"] == 0 and st[2][0] == "Agg" and st[2][1][0] == "Adt" and st[2][1][2] == "Pending"]
    ctx.ob("R04.1", f"{k}|pending-paths-found", len(cons) == 1 and bool(regs) and bool(pend), site, f"{len(cons)} consume, {len(regs)} register_stream_waker, {len(pend)} Pending sites", nontrivial=False)
    if len(cons) == 1 and regs and pend:
        cb = cons[0][0]
        none_t = None
        for (tb, has_t, empty_t) in util.option_test_edges(body, dg, cons[0][1]["dst"]["l"]):
            none_t = empty_t
        for p in pend:
            ok = any(body.dominates(rb, p) for (rb, _) in regs)
            ctx.ob("R04.1", f"{k}|pending-only-after-registration", ok, body.loc(p), "Poll::Pending is produced only on paths that registered the task's waker first")
        for (rb, rc) in regs:
            ok = none_t is not None and body.dominates(none_t, rb) and body.dominates(cb, rb)
            ctx.ob("R04.1", f"{k}|registers-after-empty-consume", ok, body.loc(rb), "the waker is registered on the None edge of the consume attempt")
            a1 = strip_casts(dg.expr(rc["args"][1])); a2 = show(dg.expr(rc["args"][2]))
            sid_ok = a1[0] == "mem" and a1[1][-1] == "stream_id"
            ctx.ob("R04.1", f"{k}|registers-own-id-and-task-waker", sid_ok and "waker" in a2, body.loc(rb), f"register_stream_waker({show(a1)}, {a2[:60]}); required: own stream id and the context's waker")
    # ------------------------------------------------------------------ R04.2 register_stream_waker self-wake ; wake_stream retry
    k = SM + "::register_stream_waker"
    body = Body(fx.fn(k)); dg = D.Dag(body)
    stores = [(b, c) for (b, c) in body.calls if c.get("fname") in ("insert", "replace", "get_or_insert", "get_or_insert_with", "write") and "wakers" in str(ts.access_path(body, c["args"][0]) or show(dg.expr(c["args"][0])))]
    for a in guards.accesses(body, SM, {"wakers"}):
        if a["kind"] == "w" and a["how"] != "direct": stores.append((a["b"], None))
    wakes = {b for (b, c) in body.calls if c.get("fname") in ("wake_by_ref", "wake")}
    unlocks = {b for (b, c) in body.calls if (c.get("resolved") or c.get("f")) == R.SPIN_UNLOCK}
    ctx.ob("R04.2", f"{k}|stores-found", bool(stores), f"{body.f['file']}:{body.f['line']}", f"{len(stores)} waker store site(s)", nontrivial=False)
    # (a) a store OVERWRITES the slot with a clone of the caller's waker (get_or_insert* keeps a stale waker that belongs to a task no longer polling the stream)
    for n_, (sb_, c_) in enumerate(stores):
        if c_ is None: continue
        overwrites = c_.get("fname") in ("insert", "replace", "write")
        val = dg.expr(c_["args"][1]) if len(c_["args"]) > 1 else ("?",)
        from_param = mentions(val, "clone") and any(isinstance(x, tuple) and x[:1] == ("param",) and x[2] == "waker" for x in _walk(val))
        ctx.ob("R04.2", f"{k}|store-overwrites-with-the-caller-s-waker|{n_ + 1}", overwrites and from_param, body.loc(sb_),
               f"`{c_.get('fname')}({show(val)[:60]})`; required: the slot is overwritten (insert / replace) with a clone of the waker passed in")
    # (b) the only path that stores nothing is `Some(registered) && registered.will_wake(waker)`
    store_blocks = {sb_ for (sb_, _) in stores}
    n_ww = [0]
    def _cut(facts):
        for (e, truth) in facts:
            if isinstance(e, tuple) and e and e[0] == "call" and e[1].endswith("will_wake"):
                n_ww[0] += 1
                if truth: return True     # the edge on which `registered.will_wake(waker)` answered true (directly, or read through a flag)
        return False
    seen = util.flag_paths(body, dg, 0, store_blocks, _cut)
    ww_true = n_ww[0]
    escapes = [r for r in body.returns if r in seen]
    ctx.ob("R04.2", f"{k}|re-registers-unless-same-waker", bool(ww_true) and not escapes, f"{body.f['file']}:{body.f['line']}",
           "every path that returns without storing the waker lies on the true edge of `registered.will_wake(waker)`" if not escapes else
           "a path returns without storing the caller's waker although the stored one would not wake it (or none was stored): producers and cancels keep waking a task that no longer polls the stream")
    seen = set()
    for (sb, c) in stores:
        if sb in seen: continue
        seen.add(sb)
        lo, hi, _ = util.count_on_paths(body, lambda b: b in wakes and b != sb, start=sb)
        ctx.ob("R04.2", f"{k}|self-wake-after-store|{len(seen)}", lo >= 1, body.loc(sb),
               f"between {lo} and {hi} wake-ups of the stored waker on the paths after this store; required >= 1 on every path (a producer that published while the slot was empty / held the "
               "previous waker woke nobody: only this self-wake makes the stream re-poll)")
        lo2, _, _ = util.count_on_paths(body, lambda b: b in unlocks, start=sb)
        after_unlock = all(any(body.dominates(ub, wb) for ub in unlocks) for wb in wakes if body.dominates(sb, wb)) if unlocks else True
        ctx.ob("R04.2", f"{k}|wake-outside-wakers_lock|{len(seen)}", after_unlock, body.loc(sb), "the self-wake happens after wakers_lock was released (a waker that polls inline would otherwise self-deadlock)")
    # (c) every store into the wakers table happens with wakers_lock held (typestate): the locked re-check of wake_stream (R04.7) only means "the stream has
    # not parked yet" if a registration cannot be half-way through its store at that moment; the same for the slot being cleared when a stream is dropped
    eng_ = ts.Engine(fx)
    lockp = lambda r: r[0] == "lock" and r[1] and r[1][-1] == "wakers_lock"
    for kk in (SM + "::register_stream_waker", SM + "::report_stream_dropped"):
        bb_ = Body(fx.fn(kk)); dd_ = D.Dag(bb_)
        sts_ = [(b, c) for (b, c) in bb_.calls if c.get("fname") in ("insert", "replace", "get_or_insert", "get_or_insert_with", "write", "take") and "wakers" in str(ts.access_path(bb_, c["args"][0]) or show(dd_.expr(c["args"][0])))]
        for a in guards.accesses(bb_, SM, {"wakers"}):
            if a["kind"] == "w" and a["how"] != "direct": sts_.append((a["b"], None))
        an_ = eng_.analyse(kk)
        for n_, sb_ in enumerate(sorted({x[0] for x in sts_})):
            okl = an_.must_hold(sb_, lockp) and not an_.undecided
            ctx.ob("R04.2", f"{kk}|waker-slot-written-under-wakers_lock|{n_ + 1}", okl, bb_.loc(sb_), "the waker slot is written with wakers_lock held")
    # (d) no function of the streams manager returns with one of its spin locks still held (the next registration / wake / listener change would spin forever)
    for f_ in fx.fns:
        if f_.get("impl_self") != SM or "::{closure#" in f_["key"]: continue
        if not any(blk["term"][0] == "Call" and (blk["term"][1].get("resolved") or blk["term"][1].get("f")) == R.SPIN_LOCK for blk in f_["blocks"]): continue
        an_ = eng_.analyse(f_["key"])
        leaks = [o for o in an_.outcomes if o[1]]
        ctx.ob("R04.2", f"{f_['key']}|returns-with-no-lock-held", not leaks and not an_.undecided, f"{f_['file']}:{f_['line']}",
               "every exit releases the spin lock(s) taken" if not leaks else f"returns holding {sorted(leaks[0][1])}")
    k = WAKE
    body = Body(fx.fn(k)); dg = D.Dag(body)
    wk = [(b, c) for (b, c) in body.calls if c.get("fname") in ("wake_by_ref", "wake")]
    lk = [(b, c) for (b, c) in body.calls if (c.get("resolved") or c.get("f")) == R.SPIN_LOCK]
    retry = any(body.dominates(lb, wb) for (lb, _) in lk for (wb, _) in wk)
    ctx.ob("R04.2", f"{k}|retries-under-lock-when-empty", len(wk) >= 2 and retry, f"{body.f['file']}:{body.f['line']}", "wake_stream wakes the registered waker and, when it found the slot empty, looks again under wakers_lock")
    # R04.7 the wake primitive is complete: wake_stream returns only after it woke the waker registered under the id it was given, or after it found that slot
    # empty while holding wakers_lock (the lock the registration holds while it stores: an empty slot seen under it means the stream has not parked yet and will
    # self-wake after its store, R04.2).  An early-out on any other condition (a busy lock, a 'wake already requested' flag, a count) drops wake-ups.
    slot_locals = set()
    for (gb, gc) in body.calls:
        if gc.get("fname") in ("get_unchecked", "get_unchecked_mut", "get", "get_mut") and len(gc["args"]) > 1 and not gc["dst"]["p"]:
            base_ = str(ts.access_path(body, gc["args"][0]) or show(dg.expr(gc["args"][0])))
            i_ = strip_casts(dg.expr(gc["args"][1]))
            if "wakers" in base_ and i_[:2] == ("param", 2): slot_locals.add(gc["dst"]["l"])
    def _root(l, depth=0):
        """the slot local a reference / value was derived from (`&((*slot) as Some).0`, re-borrows, copies, a clone of the slot's Option or of its waker):
        (slot local, block where the slot's content was observed through a clone -- None when it is read in place)"""
        seen_at = None
        while depth < 12 and l is not None and l not in slot_locals:
            d = body.single_def(l)
            if d is None: return None
            rv = d[2]
            if d[1] == "T":
                c_ = rv[1] if rv[0] == "CallRes" else None
                if c_ is not None and c_.get("fname") in ("clone", "cloned", "as_ref", "as_deref") and c_["args"]:
                    if c_.get("fname") in ("clone", "cloned") and seen_at is None: seen_at = d[0]
                    l = op_local(c_["args"][0])
                else: return None
            elif rv[0] in ("Ref", "RawPtr"): l = rv[2]["l"]
            elif rv[0] == "Use" and rv[1][0] in ("c", "m"): l = rv[1][1]["l"]
            else: return None
            depth += 1
        return (l, seen_at) if l is not None else None
    unlocks_ = [b for (b, c_) in body.calls if (c_.get("resolved") or c_.get("f")) == R.SPIN_UNLOCK]
    def _locked_at(b):
        return any(body.dominates(lb, b) for (lb, _) in lk) and not any(body.dominates(ub_, b) for ub_ in unlocks_)
    slot_tests = []
    for b in sorted(body.reachable):
        vs = util.variant_switch(body, dg, b)
        r_ = _root(vs[3]) if vs else None
        if not vs or r_ is None: continue
        some_t, none_t = util.arm(vs[1], vs[2], 1), util.arm(vs[1], vs[2], 0)
        slot_tests.append((b, some_t, none_t, _locked_at(r_[1] if r_[1] is not None else b)))
    wake_ok = {wb for (wb, wc) in wk if _root(op_local(wc["args"][0])) is not None}
    cut_edges = {(tb, none_t) for (tb, some_t, none_t, locked) in slot_tests if locked and some_t != none_t}
    seen_, st_ = set(), [0]
    while st_:
        x = st_.pop()
        if x in seen_ or x in wake_ok: continue
        seen_.add(x)
        for y in body.succ(x):
            if (x, y) not in cut_edges: st_.append(y)
    escapes = sorted(r for r in body.returns if r in seen_)
    ctx.ob("R04.7", f"{k}|returns-only-after-waking-or-finding-the-slot-empty-under-the-lock", bool(wake_ok) and bool(slot_tests) and not escapes,
           body.loc(escapes[0]) if escapes else f"{body.f['file']}:{body.f['line']}",
           f"{len(wake_ok)} wake(s) of wakers[stream_id], {len(slot_tests)} test(s) of that slot ({sum(1 for t in slot_tests if t[3])} under wakers_lock); " +
           ("every return lies after a wake of the addressed waker or on the empty edge of the locked re-check" if not escapes else
            "a path returns without waking the registered waker and without having seen the slot empty under wakers_lock: that wake-up is dropped"))
    # the stream's poll reaches the manager through the channel's ChannelConsumer plumbing: forwarded with the same id / waker
    import delegation
    for name, path in R.CHANNELS.items():
        delegation.thin(ctx, "R04.1", f"{path} as {R.T_CONS}::register_stream_waker", "register_stream_waker", "poll_next registers its waker with the streams manager under its own id")
        delegation.thin(ctx, "R04.1", f"{path} as {R.T_CONS}::keep_stream_running", "keep_stream_running", "poll_next consults the manager's keep-running flag of its own id")
    ctx.floor("R04.2", 4); ctx.floor("R04.1", 4)


def check_reported_lengths(ctx):
    """R04.8 the length the rings report on acceptance is the reservation's length-before plus one: the wake decisions of the channels (guards like `len_after <= MAX_STREAMS`,
    targets like `len_after - 1`) are judged by R04.5 against the true queue length; a ring that reports length+2 (or the length before) shifts every one of them"""
    fx = ctx.fx
    n = 0
    for adt in (R.AM, R.FSM):
        for fn in ("publish_movable", "publish"):
            for k in [x for x in fx.by_key if x.startswith(adt + " as ") and x.endswith("::" + fn)]:
                body = Body(fx.fn(k)); dg = D.Dag(body)
                exprs = []
                for (b, c) in body.calls:
                    if c.get("fname") == "new" and "NonZero" in (c.get("f") or "") and c["args"]: exprs.append((b, dg.expr(c["args"][0])))
                    if c.get("f") in ("std::ops::FnOnce::call_once", "std::ops::Fn::call", "std::ops::FnMut::call_mut") and len(c["args"]) > 1 and "report_len" in show(dg.expr(c["args"][0])):
                        a_ = strip_casts(dg.expr(c["args"][1]))
                        exprs.append((b, a_[1][0] if a_[0] == "tuple" and a_[1] else a_))
                for (b, e) in exprs:
                    e = strip_casts(e)
                    while e[0] == "tuple" and len(e[1]) == 1: e = strip_casts(e[1][0])
                    ok = e[0] == "bin" and e[1].rstrip("!~") == "Add" and ((strip_casts(e[3]) == ("const", 1) and mentions(e[2], "leak_slot_internal")) or (strip_casts(e[2]) == ("const", 1) and mentions(e[3], "leak_slot_internal")))
                    off = len_offset(fx, e) if mentions(e, "leak_slot_internal") else None
                    if off is not None: ok = off == 1      # the +1 may be added on either side of the reservation's answer -- but exactly once
                    n += 1
                    ctx.ob("R04.8", f"{k}|reports-length-before-plus-one", ok, body.loc(b), f"reports `{show(e)[:90]}`; required: the reservation's length-before + 1")
    ctx.ob("R04.8", "reported-lengths|instances", n >= 4, "", f"{n} reported lengths", nontrivial=False)


def check_wake_sites(ctx):
    fx = ctx.fx
    # ------------------------------------------------------------------ wake sites
    sites = wake_sites(fx)
    ctx.ob("R04.3", "wake-sites|count", len(sites) >= 15, "", f"{len(sites)} wake decisions in channel code (32 on the tree this was written against; every accept entry point must reach one: R04.6)", nontrivial=False)
    per_fn = {}
    for s in sites:
        ch = channel_of(fx, s.key); en = entry_of(s.key)
        s.ch, s.entry = ch, en
        per_fn.setdefault((ch, s.f.get("owner_fn") or s.key), []).append(s)
        tag = f"{s.key}|wake({_short(show(s.target))})"
        # ---------------- R04.3 after publication
        pubs = [b for (b, c) in s.body.calls if c.get("fname") in PUB]
        ok = any(s.body.dominates(pb, s.b) for pb in pubs)
        how = "dominated by the publication call of its path"
        if not ok and "::{closure#" in s.key:
            parent = s.key.rsplit("::{closure#", 1)[0]
            pb_ = Body(fx.fn(parent)); pd = D.Dag(pb_)
            for (b, c) in pb_.calls:
                if any(pd.expr(a) == ("closure", s.key) for a in c["args"]):
                    if c.get("fname") == "publish":
                        ok = _container_calls_back_after_publication(ctx, fx, c); how = "length callback: the container invokes it after its own publication"
                    elif c.get("fname") in ("map", "map_or", "and_then", "map_or_else", "is_some_and", "is_ok_and", "is_none_or", "inspect"):
                        ok = any(p + "@" in show(pd.expr(c["args"][0])) for p in PUB); how = "runs on the Some(len) answer of the publication"
        ctx.ob("R04.3", f"{tag}|after-publication", ok, s.body.loc(s.b), how if ok else "this wake is not ordered after the publication of its path: a consumer woken early finds nothing, parks, and the event published afterwards wakes nobody")
        # ---------------- R04.4 / R04.5
        s.verdict = _classify(ctx, fx, s, tag)
    for (ch, owner), ss in sorted(per_fn.items(), key=lambda x: str(x[0])):
        cls = [x.verdict[0] for x in ss]
        loc = ss[0].body.loc(ss[0].b)
        if "A" in cls or "B" in cls:
            best = [x for x in ss if x.verdict[0] in ("A", "B")][0]
            ctx.ob("R04.5", f"{owner}|sound-wake|class-{best.verdict[0]}", True, best.body.loc(best.b), f"{best.verdict[2]}: {best.verdict[1]} ({len(ss)} wake site(s) in this entry point)")
        elif "U" in cls and "C" not in cls:
            u = [x for x in ss if x.verdict[0] == "U"][0]
            ctx.ob("R04.5", f"{owner}|unclassifiable-wake", False, u.body.loc(u.b), f"{u.verdict[2]}: {u.verdict[1]}: cannot be shown to be a sound wake")
        elif "C" in cls:
            cs = [x for x in ss if x.verdict[0] == "C"]
            primary = sorted(cs, key=lambda x: ("guard-misses-transition" in x.verdict[1], x.verdict[1]))[0]
            reason = primary.verdict[1]
            ctx.ob("R04.5", f"{owner}|heuristic-wake|{reason}", False, primary.body.loc(primary.b),
                   f"{primary.verdict[2]}: " + "; ".join(WHY.get(r, r) for r in reason.split("+")))
            # a listed heuristic entry point is not a free pass: whatever it wakes today (which stream, for which queue length and MAX_STREAMS -- evaluated from its
            # guards and targets, so refactor-proof) it must keep waking.  Waking MORE is fine; a wake that disappears for some (length, MAX_STREAMS) -- the
            # `len == MAX_STREAMS + 1` work-around narrowed to a special case, a guard tightened -- turns a rare lost wake-up into a common one and is a new violation.
            import runner as _runner
            base = next((k_.get("wake_table") for k_ in _runner.load_known().get("findings", []) if k_.get("key") == f"R04.5|{owner}|heuristic-wake|{reason}"), None)
            if base is not None:
                cur = entry_wake_table(fx, ss)
                if cur is None:
                    ctx.ob("R04.5", f"{owner}|heuristic-wake-still-evaluable", False, primary.body.loc(primary.b), "the wake decisions of this listed entry point can no longer be evaluated over (length, MAX_STREAMS)")
                else:
                    curj = table_to_json(cur)
                    lost = [(k_, sorted(set(v_) - set(curj.get(k_, [])))) for k_, v_ in base.items() if not set(v_) <= set(curj.get(k_, [])) and "all" not in curj.get(k_, [])]
                    ctx.ob("R04.5", f"{owner}|heuristic-wake-not-weakened", not lost, primary.body.loc(primary.b),
                           "wakes at least what the listed finding's entry point wakes, for every queue length and MAX_STREAMS" if not lost else
                           f"for (MAX_STREAMS, queue length before) = ({lost[0][0]}) stream(s) {lost[0][1]} used to be woken and no longer are ({len(lost)} such cases): the listed heuristic got weaker")
        else:
            # only wakes without a length condition: sound (like class A) only if one of them follows a SUCCESSFUL publication -- the extra wake issued before
            # retrying a full queue sits on the failure edge and tells the consumer nothing about the event that is published later
            import importlib
            C01 = importlib.import_module("props.C01")
            def after_success(x):
                sw = [p_ for p_ in C01.pub_switches(x.body, x.dg) if p_["role"] != "is_full" and x.body.dominates(p_["b"], x.b)]
                if not sw: return True        # no publication outcome is tested on the way (crossbeam's ignored try_send, container callbacks): R04.3 orders it
                pubs_ = {b for (b, c) in x.body.calls if c.get("fname") in PUB}
                return any(x.b not in ({p_["failure"]} | x.body.reach_from(p_["failure"], avoid=frozenset(pubs_))) for p_ in sw)
            okx = any(after_success(x) for x in ss)
            ctx.ob("R04.5", f"{owner}|only-unconditioned-wakes", okx, loc, "wakes unconditionally after a successful publication" if okx else
                   "the only wake of this accept path is the one issued when the publication FAILED (queue full, before retrying): the successful publication wakes nobody", nontrivial=not okx)
    # ------------------------------------------------------------------ R04.6 every implemented accept entry point reaches a wake
    reach = {}
    def wake_reach(key, depth=0):
        if key in reach: return reach[key]
        reach[key] = False
        owner = key
        fams = [f for f in fx.fns if (f.get("owner_fn") or f["key"]) == owner]
        r = any(s.f in fams for s in sites)
        if not r and depth < 3:
            for f in fams:
                for blk in f["blocks"]:
                    t = blk["term"]
                    if t[0] != "Call": continue
                    tgt = t[1].get("resolved") or t[1].get("f") or ""
                    if t[1].get("fname") in ENTRY and tgt != key:
                        cands = [tgt] if fx.fn_opt(tgt) else [k2 for k2 in fx.by_key if k2.endswith(" as " + R.T_PROD + "::" + t[1]["fname"]) and k2.split(" as ")[0] == key.split(" as ")[0]]
                        if any(wake_reach(c2, depth + 1) for c2 in cands): r = True
        reach[key] = r
        return r
    n6 = 0
    for name, path in R.CHANNELS.items():
        for en in ("send", "send_with", "send_with_async", "try_send_reserved"):
            key = f"{path} as {R.T_PROD}::{en}"
            f = fx.fn_opt(key)
            if f is None: continue
            if _unimplemented(fx, key): continue
            n6 += 1
            ctx.ob("R04.6", f"{key}|reaches-a-wake", wake_reach(key), f"{f['file']}:{f['line']}", "this accept entry point (or the send it delegates to) contains a wake decision")
    ctx.floor("R04.6", 30); ctx.floor("R04.5", 28); ctx.floor("R04.3", 16)


def _short(s):
    return s if len(s) < 50 else s[:24] + ".." + s[-22:]


def _unimplemented(fx, key, depth=0):
    """the entry point cannot accept anything: it never returns (unimplemented!/todo!/panic!), or every return is dominated by a call of a
    crate function that never returns (e.g. the mmap log's reserve API, whose container functions are todo!())"""
    f = fx.fn(key)
    body = Body(f)
    if _async_wrapper(body):
        co = [st[2][1][1] for b in body.reachable for st in body.stmts(b) if st[0] == "A" and st[2][0] == "Agg" and st[2][1][0] == "Coroutine"]
        return bool(co) and fx.fn_opt(co[0]) is not None and _unimplemented(fx, co[0], depth + 1)
    if not body.returns: return True
    if depth > 2: return False
    for (b, c) in body.calls:
        tgt = c.get("resolved") or c.get("f") or ""
        cands = [tgt] if fx.fn_opt(tgt) else []
        if not cands and c.get("trait") and c.get("fcrate") == fx.meta["crate"]:
            cands = [k2 for k2 in fx.by_key if k2.endswith(" as " + c["trait"] + "::" + c["fname"])]
            # only when the receiver type pins the impl (field type of the channel): keep impls whose self type is named in the receiver local's type
            rty = body.locals[op_local(c["args"][0])]["ty"] if c["args"] and op_local(c["args"][0]) is not None else ""
            cands = [k2 for k2 in cands if k2.split(" as ")[0].split("::")[-1] in rty]
        if cands and all(not Body(fx.fn(k2)).returns for k2 in cands) and all(body.dominates(b, r) for r in body.returns):
            return True
    return False


def _async_wrapper(body):
    return any(st[0] == "A" and st[2][0] == "Agg" and st[2][1][0] == "Coroutine" for b in body.reachable for st in body.stmts(b))


_cb_memo = {}
def _container_calls_back_after_publication(ctx, fx, c):
    """MovePublisher::publish impls: the call of the `report_len_after_enqueueing_fn` parameter is dominated by the publication"""
    name = c.get("fname")
    ok_all = True; n = 0
    for k2 in fx.by_key:
        if not k2.endswith(" as " + R.T_PUB + "::publish"): continue
        if k2 in _cb_memo: ok_all &= _cb_memo[k2]; n += 1; continue
        b2 = Body(fx.fn(k2)); d2 = D.Dag(b2)
        cbs = [(b, cc) for (b, cc) in b2.calls if cc.get("f") in ("std::ops::FnOnce::call_once", "std::ops::Fn::call") and cc["args"] and "report_len" in show(d2.expr(cc["args"][0]))]
        pubs = [b for (b, cc) in b2.calls if cc.get("fname") in ("publish_leaked_internal", "try_publish_leaked_internal")]
        ok = bool(cbs) and all(any(b2.dominates(pb, b) for pb in pubs) for (b, _) in cbs)
        _cb_memo[k2] = ok; n += 1
        ctx.ob("R04.3", f"{k2}|length-callback-after-publication", ok, f"{b2.f['file']}:{b2.f['line']}", "the container reports the length (and so lets the channel wake) only after publish_leaked_internal")
        ok_all &= ok
    return ok_all and n > 0


def _classify(ctx, fx, s, tag):
    """returns (class, reason, description) for one wake site; emits the R04.4 obligation.  class in A, B, C, X (extra wake, no length condition), U (unclassifiable)"""
    body = s.body
    kind = KIND.get(s.ch)
    listener = is_listener_id(s.target) or s.target == ALL      # the sweep wakes every stream id: any guard on it is judged like a listener's own wake
    at = []
    if any(sentinel_wrong_side(op, l, r, pol) for (op, l, r, pol) in s.conds):
        return ("U", "the wake sits on the branch where the listener id read from the live list IS the end-of-list sentinel: no live listener is ever woken by it",
                f"wake({_short(show(s.target))}) only for the sentinel entry")
    for (op, l, r, pol) in s.conds:
        if sentinel_test(l, r): continue     # `id != u32::MAX`: end-of-list sentinel of the live-listener list
        atoms(l, at); atoms(r, at)
    if not listener: atoms(s.target, at)
    at = [a for a in at if a[0] not in ("fn",)]
    loc = body.loc(s.b)
    desc = f"`{' && '.join(('' if p else '!') + '(' + _short(show(l)) + ' ' + o + ' ' + _short(show(r)) + ')' for (o, l, r, p) in s.conds if not sentinel_test(l, r)) or 'always'}` -> wake({_short(show(s.target))})"
    if kind == "log":
        ok = listener and not at and (s.in_loop or s.target == ALL)
        # ... of every listener that exists once the event is visible: the live list / count the sweep walks is read AFTER the publication (a listener that subscribes
        # while the send is in flight sees nothing, parks, and -- not being in a snapshot taken before the publication -- is never woken)
        pubs_ = {b for (b, c) in body.calls if c.get("fname") in PUB}
        reads_ = [b for (b, c) in body.calls if c.get("fname") in ("used_streams", "running_streams_count")]
        stale = [rb for rb in reads_ if pubs_ and not any(body.dominates(pb, rb) for pb in pubs_)]
        if ok and stale:
            return ("U", "the listener set the sweep wakes is sampled BEFORE the publication: a listener subscribing in between is parked for good", desc)
        return ("A" if ok else "U", "unconditional wake of every live listener after publication" if ok else "log channel wake is not the unconditional sweep", desc)
    if not at and s.target == ALL and not [c for c in s.conds if not sentinel_test(c[1], c[2])]:
        _sweep_shape(ctx, fx)
        return ("A", "unconditional wake of every stream id (wake_all_streams) after publication", desc)
    if not at:
        if listener or strip_casts(s.target)[0] == "const":
            ctx.ob("R04.4", f"{tag}|target-in-bounds", listener or (isinstance(strip_casts(s.target)[1], int) and strip_casts(s.target)[1] == 0), loc, "constant / listener target", nontrivial=False)
        return ("X", "wake without a length condition (extra wake, e.g. after a failed publication)", desc)
    if len(at) != 1:
        return ("U", f"decision depends on {len(at)} distinct runtime values ({[show(a)[:40] for a in at]})", desc)
    L = at[0]
    src, trans = length_source(fx, s, L)
    if src is None:
        return ("U", f"the length `{show(L)[:80]}` is not one of the known samples (reservation, publication answer, post-publication, pre-send)", desc)
    def holds(Lv, m):
        for (op, l, r, pol) in s.conds:
            if sentinel_test(l, r): continue
            v = ev(("bin", op, l, r), {L: Lv}, m)
            if bool(v) != pol: return False
        return True
    lo_len = trans if src in ("reserve", "publish", "post") else 0      # a length-after sample (publication answers are NonZeroU32) is never below 1
    try:
        if not listener:
            bad = None
            for m in MS:
                for Lv in range(lo_len, m + 6):
                    if holds(Lv, m):
                        t = ev(s.target, {L: Lv}, m)
                        if not (0 <= t < m): bad = (Lv, m, t)
            ctx.ob("R04.4", f"{tag}|target-in-bounds", bad is None, loc,
                   "under its guards the wake target stays inside 0..MAX_STREAMS (wake_stream indexes with get_unchecked)" if bad is None else
                   f"for length {bad[0]} and MAX_STREAMS={bad[1]} the target is {bad[2]}: out of bounds for get_unchecked")
        else:
            ctx.ob("R04.4", f"{tag}|target-is-live-listener", True, loc, "target is the entry of the live-listener list whose queue was just published to", nontrivial=False)
        exact = (kind == "full_sync" and src in ("publish", "reserve")) or src == "post"
        fires = all(holds(trans, m) for m in MS)
        tgt0 = listener or all(ev(s.target, {L: trans}, m) == 0 for m in MS if holds(trans, m))
    except NoVal as e:
        return ("U", f"guard / target not evaluable over (length, MAX_STREAMS): {e}", desc)
    if exact and fires and tgt0:
        return ("B", f"exact empty->non-empty detection: length from `{src}` ({'under the queue lock' if kind == 'full_sync' else 'sampled after the publication CAS'}), guard holds at the transition, target = {'own listener' if listener else 'stream 0'}", desc)
    why = []
    if not fires: why.append("guard-misses-transition")
    elif not exact: why.append({"reserve": "stale-length@reservation", "publish": "stale-length@reservation", "presend": "stale-length@pre-send"}.get(src, "inexact-length"))
    if fires and not tgt0: why.append("target-may-not-exist")
    return ("C", "+".join(why), desc)


def site_wake_table(fx, s):
    """{(MAX_STREAMS, true queue length before the publication): set of targets woken} for one wake site; None when the site is not evaluable.  Targets: stream index,
    "own" (the listener whose queue was published to) or "all"."""
    listener = is_listener_id(s.target) or s.target == ALL
    at = []
    for (op, l, r, pol) in s.conds:
        if sentinel_test(l, r): continue
        atoms(l, at); atoms(r, at)
    if not listener: atoms(s.target, at)
    at = [a for a in at if a[0] not in ("fn",)]
    if len(at) > 1: return None
    tbl = {}
    try:
        if not at:
            for m in MS:
                for ln in range(0, m + 5):
                    t = "all" if s.target == ALL else ("own" if listener else ev(s.target, {}, m))
                    tbl.setdefault((m, ln), set()).add(t)
            return tbl
        L = at[0]
        src, trans = length_source(fx, s, L)
        if src is None: return None
        for m in MS:
            for Lv in range(trans if src in ("reserve", "publish", "post") else 0, m + 6):
                good = True
                for (op, l, r, pol) in s.conds:
                    if sentinel_test(l, r): continue
                    if bool(ev(("bin", op, l, r), {L: Lv}, m)) != pol: good = False; break
                if not good: continue
                t = "all" if s.target == ALL else ("own" if listener else ev(s.target, {L: Lv}, m))
                tbl.setdefault((m, Lv - trans), set()).add(t)
    except NoVal:
        return None
    return tbl


def entry_wake_table(fx, ss):
    out = {}
    for s in ss:
        t = site_wake_table(fx, s)
        if t is None: return None
        for k, v in t.items(): out.setdefault(k, set()).update(v)
    return out


def table_to_json(tbl):
    return {f"{m},{ln}": sorted(map(str, v)) for (m, ln), v in sorted(tbl.items())}


_sweep_done = set()
def _sweep_shape(ctx, fx):
    """wake_all_streams really is the sweep over 0..MAX_STREAMS (shape shared with C06 R06.6)"""
    if id(ctx) in _sweep_done: return
    _sweep_done.add(id(ctx))
    import props.C06 as C06
    C06.check_sweeps(util.PrefixedCtx(ctx, "R04.5"), only=("wake_all_streams",))


WHY = {"stale-length@reservation": "the length was sampled when the slot was reserved, not at publication: with several producers a later publication sees a length above the wake threshold although the consumer already drained and parked",
       "stale-length@pre-send": "the length was sampled before try_send without a lock: the consumer may drain and park in between",
       "guard-misses-transition": "the guard is false at the empty->non-empty transition",
       "target-may-not-exist": "at the empty->non-empty transition the woken index is not stream 0 (a stream that need not exist when fewer than MAX_STREAMS streams were created)",
       "inexact-length": "length of unknown provenance"}
