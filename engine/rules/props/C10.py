"""C10 - a listener sees exactly the events sent during its lifetime; stream ids recycle."""
import dag as D, util, guards, streamrules as S, roles as R, facts as F
from dag import strip_casts, show
from mir import Body, op_local

LEVEL = "other"
EXPLANATION = ("Necessary shape conditions, decided on every path: (R10.1) in each of the five Multi channels with per-listener queues, drop_resources empties the "
               "dropped listener's own queue in a loop that is left only on the queue's 'empty' answer, on EVERY path (no stream state skips it), strictly before "
               "report_stream_dropped releases the id, which happens exactly once with that id -- so a recycled id never exposes a previous listener's leftovers "
               "(decisive for the sequential create/send/drop histories); (R10.2) bookkeeping of StreamsManagerBase: create_stream_id takes exactly one id from the "
               "vacant FIFO, returns that id, increments the running count once and re-syncs the live list on every path; report_stream_dropped decrements once, "
               "returns exactly the id it was given and re-syncs the live list on every path AFTER the id is back in the vacant FIFO; the running count is written "
               "nowhere else; report_stream_dropped is reachable only from ChannelConsumer::drop_resources, which is called only by Drop for MutinyStream; MutinyStream "
               "is neither Clone nor Copy and is never mem::forget-ed; every channel's drop_resources (11) releases exactly once; (R10.3) the vacant FIFO has capacity "
               "MAX_STREAMS and is filled once with 0..MAX_STREAMS; (R10.4) every create_stream* wraps exactly the id it obtained from create_stream_id; (R10.5) a request to end one "
               "stream cancels its id once, before it waits -- never from inside the loop that runs until the id is vacant again (a vacant id may already belong to a new listener). Every channel's running_streams_count forwards to the manager, which answers a load of used_streams_count.")
EXPLANATION += ' R10.2 also requires keep_streams_running[new id] to be set to true for the id just taken.'
EXPLANATION += " R10.1 also requires the channel's own consume -- which the drain loop asks -- to ask its queue on every path; (R10.7) cursor discipline of the live-list rebuild: the first entry lands on index 0, every entry store is paired with exactly one cursor bump, and the sentinel padding starts at the first unwritten index (cursor+1 when the bump precedes the store, cursor when it follows) -- no stale id behind the last live entry, no live entry overwritten."
EXPLANATION += ' R10.6 requires the sort of the vacant snapshot on every path (not only when the ring wraps or MAX_STREAMS is large); (R10.8) the fan-outs walk the live list only (C03 R03.3).'
EXPLANATION += ' (R10.9) a listener told to end still yields what was accepted for it: the end flag is consulted only after its queue answered empty (C06 R06.2).'
EXPLANATION += ' R10.7 also requires the sentinel padding to reach the end of the list (a range ending at MAX_STREAMS, or a single sentinel written whenever its index is below MAX_STREAMS itself).'
ASSUMPTIONS = ["the rebuild algorithm inside sync_vacant_and_used_streams (live list = complement of the vacant FIFO) is covered by the unit tests' sequential histories, not re-proved here",
               "'all of them if it keeps polling' is the delivery / wake-up behaviour of C03 / C04"]

SM, STREAM = R.SM, R.STREAM


def _atomics_on(body, field):
    return [(b, c, R.atomic_target(body, c)[2]) for (b, c) in body.calls if (R.atomic_target(body, c) or (0, 0, 0))[:2] == (SM, field)]


def _count(body, pred):
    blocks = {b for (b, c) in body.calls if pred(c)}
    lo, hi, inloop = util.count_on_paths(body, lambda b: b in blocks)
    return lo, hi, inloop, sorted(blocks)


_IMPORTING_C03 = False
_IMPORTING_C06 = False


def check(ctx):
    fx = ctx.fx
    # ------------------------------------------------------------------ R10.1
    S.check_drain_before_release(ctx, "R10.1")
    S.check_consume_asks_queue(ctx, "R10.1")      # the drain asks through the channel's own consume: its None must mean 'empty'
    ctx.floor("R10.1", 20)
    # ------------------------------------------------------------------ R10.2 create_stream_id
    k = SM + "::create_stream_id"
    body = Body(fx.fn(k)); dg = D.Dag(body)
    site = f"{body.f['file']}:{body.f['line']}"
    lo, hi, il, bl = _count(body, lambda c: c.get("fname") == "consume_movable" and "vacant_streams" in str(util.arg_path(body, c, 0)))
    ctx.ob("R10.2", f"{k}|takes-one-vacant-id", (lo, hi) == (1, 1) and not il, site, f"{lo}..{hi} dequeues from the vacant FIFO per path; required exactly 1")
    r = strip_casts(dg.local(0))
    ok = "consume_movable" in show(r) and r[0] in ("field", "variant")
    ctx.ob("R10.2", f"{k}|returns-the-dequeued-id", ok, site, f"returns `{show(r)}`; required: the id taken from the vacant FIFO")
    adds = _atomics_on(body, "used_streams_count")
    lo, hi, il, _ = _count(body, lambda c: any(c is c2 for (_, c2, m) in adds if m == "fetch_add"))
    ok = (lo, hi) == (1, 1) and not il and all(m == "fetch_add" and strip_casts(dg.expr(c["args"][1])) == ("const", 1) for (_, c, m) in adds)
    ctx.ob("R10.2", f"{k}|count-plus-one", ok, site, f"running count: {[m for (_, _, m) in adds]} ({lo}..{hi} per path); required one fetch_add(1)")
    lo, hi, il, sb = _count(body, lambda c: (c.get("resolved") or c.get("f")) == SM + "::sync_vacant_and_used_streams")
    ctx.ob("R10.2", f"{k}|resyncs-live-list", (lo, hi) == (1, 1), site, f"live list re-synced {lo}..{hi} times per path; required exactly once, after the id was taken")
    flag = [a for a in guards.accesses(body, SM, {"keep_streams_running"}) if a["kind"] == "w"]
    ctx.ob("R10.2", f"{k}|arms-run-flag", len(flag) >= 1, site, "keep_streams_running[id] is set for the new stream")
    # ... to `true`, for the id just taken (a stream created with its flag down answers end-of-stream at its first empty poll)
    try:
        dg_ = D.Dag(body)
        sts = [(b_, c_, i_, rv_) for (b_, c_, i_, rv_) in util.element_stores(body, dg_) if "keep_streams_running" in show(c_) or "keep_streams_running" in str(c_)]
        vals = [strip_casts(dg_.expr(rv_[1])) if rv_[0] == "Use" else ("?",) for (_, _, _, rv_) in sts]
        idx_ok = all("consume_movable" in show(i_) or "publish" not in show(i_) for (_, _, i_, _) in sts)
        ctx.ob("R10.2", f"{k}|run-flag-set-to-true", bool(sts) and all(v == ("const", 1) for v in vals) and idx_ok, site, f"stores {[show(v) for v in vals]} into keep_streams_running[new id]; required: true")
    except Exception as e_:
        ctx.undecided("R10.2", f"{k}|run-flag-set-to-true", site, f"store shape not understood: {e_}")
    # ------------------------------------------------------------------ R10.2 report_stream_dropped
    k = SM + "::report_stream_dropped"
    body = Body(fx.fn(k)); dg = D.Dag(body)
    site = f"{body.f['file']}:{body.f['line']}"
    subs = _atomics_on(body, "used_streams_count")
    lo, hi, il, _ = _count(body, lambda c: any(c is c2 for (_, c2, m) in subs if m == "fetch_sub"))
    ok = (lo, hi) == (1, 1) and not il and all(m in ("fetch_sub", "load") for (_, _, m) in subs) and all(strip_casts(dg.expr(c["args"][1])) == ("const", 1) for (_, c, m) in subs if m == "fetch_sub")
    ctx.ob("R10.2", f"{k}|count-minus-one", ok, site, f"running count: {[m for (_, _, m) in subs]} ({lo}..{hi} per path); required one fetch_sub(1)")
    pubs = [(b, c) for (b, c) in body.calls if c.get("fname") == "publish_movable" and "vacant_streams" in str(util.arg_path(body, c, 0))]
    lo, hi, il, pb = _count(body, lambda c: any(c is c2 for (_, c2) in pubs))
    same = all(S._param_like(dg.expr(c["args"][1]), 2) for (_, c) in pubs)
    ctx.ob("R10.2", f"{k}|returns-its-id-once", (lo, hi) == (1, 1) and not il and same, site, f"{lo}..{hi} enqueues into the vacant FIFO per path, of {'the dropped id' if same else 'ANOTHER value'}; required exactly one, of the parameter")
    lo, hi, il, sb = _count(body, lambda c: (c.get("resolved") or c.get("f")) == SM + "::sync_vacant_and_used_streams")
    after = all(any(body.dominates(p, s) for p in pb) for s in sb) if sb and pb else False
    ctx.ob("R10.2", f"{k}|resyncs-live-list-after-release", (lo, hi) == (1, 1) and after, site,
           f"live list re-synced {lo}..{hi} times per path{'' if after else ' (not after the id was returned)'}; required: exactly once on every path, after the id is back in the vacant FIFO "
           "(otherwise senders keep dispatching to the dropped id, whose next owner then sees events sent before its creation)")
    wk = [a for a in guards.accesses(body, SM, {"wakers"}) if a["kind"] == "w"]
    ctx.ob("R10.2", f"{k}|clears-waker", len(wk) >= 1, site, "the dropped stream's waker slot is cleared")
    # who writes the count / calls the life-cycle functions
    allowed_cnt = {SM + "::create_stream_id": "fetch_add", SM + "::report_stream_dropped": "fetch_sub"}
    callers_report, callers_drop, callers_create = [], [], []
    for f in fx.fns:
        body = Body(f)
        for (b, c, m) in _atomics_on(body, "used_streams_count"):
            if m == "load": continue
            ok = allowed_cnt.get(f["key"]) == m
            ctx.ob("R10.2", f"{f['key']}|used_streams_count.{m}", ok, body.loc(b), f"the running-stream count is modified by `{m}` in {f['key'].split('::')[-1]}; allowed: +1 in create_stream_id, -1 in report_stream_dropped")
        for (b, c) in body.calls:
            tgt = c.get("resolved") or c.get("f") or ""
            if tgt == SM + "::report_stream_dropped": callers_report.append((f, b, body))
            if tgt == SM + "::create_stream_id": callers_create.append((f, b, body))
            if c.get("fname") == "drop_resources" and (c.get("trait") == R.T_CONS or R.T_CONS in tgt): callers_drop.append((f, b, body))
            if tgt.endswith("mem::forget") or (tgt.endswith("ManuallyDrop::new") and c["args"]):
                tys = " ".join(body.locals[op_local(a)]["ty"] for a in c["args"] if op_local(a) is not None)
                if STREAM.split("::")[-1] in tys:
                    ctx.ob("R10.2", f"{f['key']}|forgets-stream", False, body.loc(b), "a MutinyStream is forgotten: its id is never returned")
    for (f, b, body) in callers_report:
        ok = f.get("impl_trait") == R.T_CONS and f["key"].endswith("::drop_resources")
        ctx.ob("R10.2", f"{f['key']}|calls|report_stream_dropped", ok, body.loc(b), "report_stream_dropped may only be reached from ChannelConsumer::drop_resources")
    for (f, b, body) in callers_drop:
        ok = f.get("impl_self") == STREAM and f.get("impl_trait") == "std::ops::Drop"
        ctx.ob("R10.2", f"{f['key']}|calls|drop_resources", ok, body.loc(b), "drop_resources may only be called by Drop for MutinyStream (one release per stream object)")
    ctx.ob("R10.2", f"{STREAM}|drop-releases", len([1 for (f, _, _) in callers_drop if f.get("impl_self") == STREAM]) == 1, "", "Drop for MutinyStream calls drop_resources", nontrivial=False)
    for tr in ("std::clone::Clone", "std::marker::Copy"):
        has = [i for i in fx.impls_of(tr) if i["self"] == STREAM]
        ctx.ob("R10.2", f"{STREAM}|not-{tr.split('::')[-1]}", not has, "", f"MutinyStream must not implement {tr} (a copy would release the id twice)", nontrivial=False)
    S.check_release_all_channels(ctx, "R10.2")
    # the count a caller reads is the manager's counter: every channel forwards, and the manager answers a load of used_streams_count
    import delegation
    for name, path in R.CHANNELS.items():
        delegation.thin(ctx, "R10.2", f"{path} as {R.T_COMMON}::running_streams_count", "running_streams_count", "the running-stream count reported by a channel is the manager's live counter")
    rb = Body(fx.fn(SM + "::running_streams_count")); rd = D.Dag(rb)
    r0 = strip_casts(rd.local(0))
    ctx.ob("R10.2", f"{SM}::running_streams_count|answers-the-live-counter", r0[0] == "atomic" and r0[1] == "load" and r0[2][-1:] == ("used_streams_count",), f"{rb.f['file']}:{rb.f['line']}",
           f"answers `{show(r0)[:60]}`; required: a load of used_streams_count (the counter create_stream_id / report_stream_dropped maintain)")
    ctx.floor("R10.2", 30)
    # ------------------------------------------------------------------ R10.3 vacant FIFO
    k = SM + "::new"
    body = Body(fx.fn(k)); dg = D.Dag(body)
    rng = None
    for b in body.reachable:
        for st in body.stmts(b):
            if st[0] == "A" and st[2][0] == "Agg" and st[2][1][0] == "Adt" and st[2][1][1].endswith("ops::Range") and body.locals[st[1]["l"]]["ty"].endswith("Range<u32>"):
                rng = [strip_casts(dg.expr(o)) for o in st[2][2]]
    pubs = [(b, c) for (b, c) in body.calls if c.get("fname") == "publish_movable"]
    ok = rng is not None and rng[0] == ("const", 0) and rng[1] == ("gconst", "MAX_STREAMS") and len(pubs) == 1 and util.in_loop(body, pubs[0][0])
    ctx.ob("R10.3", f"{k}|vacant-filled-0..MAX_STREAMS", ok, f"{body.f['file']}:{body.f['line']}", f"vacant FIFO filled over {[show(x) for x in rng] if rng else None}; required 0..MAX_STREAMS, one enqueue per iteration")
    adt = fx.adts[SM]
    fld = [f for f in adt["variants"][0]["fields"] if f["name"] == "vacant_streams"][0]
    ty = str(fld.get("ty"))
    ctx.ob("R10.3", f"{SM}|vacant-capacity", "MAX_STREAMS" in ty and "u32" in ty, "", f"vacant_streams has type {ty[:160]}; required capacity MAX_STREAMS", nontrivial=False)
    # ------------------------------------------------------------------ R10.4 create_stream* wrap the id they obtained
    n4 = 0
    for (f, b, body) in callers_create:
        dg = D.Dag(body)
        idl = body.term(b)[1]["dst"]["l"]
        news = [(b2, c2) for (b2, c2) in body.calls if (c2.get("f") or "").endswith("MutinyStream::new")]
        for (b2, c2) in news:
            e = strip_casts(dg.expr(c2["args"][0]))
            ok = e[0] == "call" and e[1] == SM + "::create_stream_id"
            n4 += 1
            ctx.ob("R10.4", f"{f['key']}|stream-wraps-its-id|{n4 if len(news) > 1 else ''}", ok, body.loc(b2), f"MutinyStream::new({show(e)}, ..); required: an id obtained from create_stream_id in this function")
    ctx.floor("R10.4", 8)
    # ------------------------------------------------------------------ R10.6 inputs of the live-list rebuild
    # the live list is rebuilt as the complement of the vacant FIFO.  (a) The FIFO's order is the order ids were given back, not ascending: a rebuild that walks the
    # snapshot sequentially (gap walk, binary search) needs it sorted first; (b) when the rebuild is also told how many streams are live, that number must be the
    # counter AFTER this create / drop (fetch_add(1) + 1, fetch_sub(1) - 1 or a later load) -- the RMW's own answer is the count before it.
    kr = SM + "::sync_vacant_and_used_streams"
    fam = [f for f in fx.fns if f["key"] == kr or f["key"].startswith(kr + "::{closure#")]
    names = [blk["term"][1].get("fname") for f in fam for blk in f["blocks"] if blk["term"][0] == "Call"]
    if "peek_remaining" in names:
        sorted_ = any(n and n.startswith("sort") for n in names)
        if sorted_:
            # ... on EVERY path: a sort that is skipped when the snapshot "looks contiguous" or when MAX_STREAMS is small relies on an order the FIFO does not have
            # (ids come back in drop order) -- for those histories the gap walk lists vacant ids as live
            rb = Body(fx.fn(kr))
            sorts = [b for (b, c) in rb.calls if (c.get("fname") or "").startswith("sort")]
            sorted_ = any(util.on_every_return_path(rb, b) for b in sorts)
        order_free = any(n in ("contains", "any") for n in names) and "binary_search" not in names and not any(n == "next" for n in names)
        ctx.ob("R10.6", f"{kr}|vacant-snapshot-sorted-or-order-free", sorted_ or order_free, f"{fam[0]['file']}:{fam[0]['line']}",
               "the vacant-id snapshot is sorted before it is walked" if sorted_ else ("membership is tested order-independently" if order_free else
               "the vacant-id snapshot is walked in FIFO order (ids come back in drop order, not ascending): after streams were dropped out of creation order the gap walk "
               "lists vacant ids as live and drops live ones"))
    else:
        ctx.ob("R10.6", f"{kr}|reads-the-vacant-fifo", False, f"{fam[0]['file']}:{fam[0]['line']}" if fam else "", "the rebuild does not read the vacant FIFO")
    for f in fx.fns:
        if not any(blk["term"][0] == "Call" and (blk["term"][1].get("resolved") or blk["term"][1].get("f")) == kr for blk in f["blocks"]): continue
        cb_ = Body(f); cd_ = D.Dag(cb_)
        for (b, c) in cb_.calls:
            if (c.get("resolved") or c.get("f")) != kr: continue
            for a in c["args"][1:]:
                e = strip_casts(cd_.expr(a))
                def rmw_of(x):
                    x = strip_casts(x)
                    return x[1] if x[0] == "atomic" and x[1] in ("fetch_add", "fetch_sub") and x[2][-1:] == ("used_streams_count",) else None
                ok = True; det = show(e)[:80]
                if rmw_of(e):
                    ok = False
                elif e[0] in ("bin", "pair"):
                    e2 = e[1] if e[0] == "pair" else e
                    op = e2[1].rstrip("!~"); x, y = e2[2], e2[3]
                    k_ = rmw_of(x) or rmw_of(y)
                    if k_:
                        one = strip_casts(y if rmw_of(x) else x) == ("const", 1)
                        ok = one and ((k_ == "fetch_add" and op == "Add") or (k_ == "fetch_sub" and op == "Sub" and rmw_of(x)))
                ctx.ob("R10.6", f"{f['key']}|rebuild-is-told-the-count-after-the-update", ok, cb_.loc(b),
                       f"rebuild called with `{det}`; a count derived from the RMW on used_streams_count must be its answer +1 (create) / -1 (drop)")
    ctx.floor("R10.6", 1)
    # ------------------------------------------------------------------ R10.8 nobody is sent to while nobody listens: the fan-outs walk the live list only (shared with C03 R03.3)
    import importlib
    global _IMPORTING_C03
    if not _IMPORTING_C03 and getattr(ctx, "pid", None) == "C10":            # (C03 itself re-uses C10's bookkeeping rules through C17: do not recurse)
        _IMPORTING_C03 = True
        sub3 = util.fresh_ctx(ctx, "C03")
        try:
            importlib.import_module("props.C03").check(sub3)
        except F.InfraError as e_:
            ctx.defer_infra(str(e_))
        finally:
            _IMPORTING_C03 = False
        for o in sub3.obs:
            if o["rule"] == "R03.3" and "walks-only-the-live-list" in o["key"]:
                ctx.ob("R10.8", o["key"], o["ok"], o["site"], o["detail"], o["nontrivial"])
        if not getattr(ctx, "deferred_infra", None): ctx.floor("R10.8", 5)
    # ------------------------------------------------------------------ R10.9 a listener told to end still yields what was accepted for it before: the end flag is consulted
    # only when its queue answered empty (shared with C06 R06.2)
    global _IMPORTING_C06
    _c06 = importlib.import_module("props.C06")
    if getattr(ctx, "pid", None) == "C10" and not _IMPORTING_C06 and not getattr(_c06, "_IMPORTING_C10", False):
        sub6 = util.fresh_ctx(ctx, "C06")
        _IMPORTING_C06 = True
        try: util.guarded(ctx, _c06.check, sub6)
        finally: _IMPORTING_C06 = False
        for o in sub6.obs:
            if o["rule"] == "R06.2":
                ctx.ob("R10.9", o["key"], o["ok"], o["site"], o["detail"], o["nontrivial"])
        if not getattr(ctx, "deferred_infra", None): ctx.floor("R10.9", 2)
    # ------------------------------------------------------------------ R10.7 cursor discipline of the rebuild: no gap at the front, no stale tail
    S.check_rebuild_cursor(ctx, "R10.7")
    ctx.floor("R10.7", 2)
    # ------------------------------------------------------------------ R10.5 an end request never reaches the stream that later re-uses the id
    S.check_cancel_not_repeated(ctx, "R10.5")
    ctx.floor("R10.5", 1)
