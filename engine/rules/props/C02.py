"""C02 - Uni: delivery order and capacity behave as one atomic bounded FIFO queue (necessary structural conditions)."""
import ts, dag, guards, lockrules, util, roles as R, facts as F
from dag import strip_casts, show
from mir import Body

LEVEL = "other"
EXPLANATION = ("Necessary shape conditions of the bounded-FIFO behaviour, decided on every path of the ring code: (R02.1) the four sequence "
               "counters of the lock-free ring are only moved through the protocol shapes (reserve fetch_add(1) / recede CAS id+1->id / "
               "ordered commit CAS id->id+1 with the reserved id) and nobody outside the ring writes them; (R02.2) fullness and emptiness "
               "guards are the exact canonical forms over the right counters (capacity exactly BUFFER_SIZE, emptiness judged against the "
               "*published* tail); (R02.3) producer and consumer address slot id % BUFFER_SIZE of the same buffer; (R02.4) for the full-sync "
               "ring every access to head/tail/buffer lies inside the spin-lock's critical section on all paths, so its operations are "
               "serialised (sufficient for mutual exclusion); (R02.5) the id the index-based publish / cancel rebuild from (index, lap) is `index + lap*N` "
               "(dimension rules shared with C15). Linearizability of the lock-free ring under contention is NOT decided. R02.1 also: no path of the lock-free ring's reserving functions takes a second reservation while the first is still held (computed typestate: a retry that re-reserves after a lost recede abandons a position for good).")
EXPLANATION += " (R02.5) the dimension rules of C15 (no ordered comparison / checked arithmetic on absolute positions) hold in every function of the two rings, not only the index API; (R02.6) 'buffer full' is answered only when the reservation failed: from the Some edge of the reservation no path of publish / publish_movable hands the item or setter back; (R02.7) in the full-sync ring the lock is the reservation: payload writes and suspension points between leak_slot_internal and publish_leaked_internal happen with the lock held (shared with C01 R01.6)."
EXPLANATION += ' (R02.8) an element leaves either ring whole: it is copied out (ptr::read) before its slot counts as free again, on every path and for every payload size; R02.2 also requires every crossbeam_channel::bounded(..) of the crate to be given BUFFER_SIZE itself.'
EXPLANATION += " R02.2 also checks that every prelude alias hands its BUFFER_SIZE / MAX_STREAMS to the same-named const parameter of the type it names; R02.6 includes the crossbeam setter-send retry rule; (R02.9) C14's unique -> shared conversion rules."
ASSUMPTIONS = ["interleaving-level correctness of AtomicMove's overshoot-and-recede protocol is not decided statically",
               "crossbeam-channel internals trusted"]

AM, FSM = R.AM, R.FSM

def is_plus1(e, x):
    e = dag.norm(strip_casts(e)); x = dag.norm(x)
    return e[0] == "bin" and e[1] in ("Add~",) and ((strip_casts(e[2]) == x and strip_casts(e[3]) == ("const", 1)) or (strip_casts(e[3]) == x and strip_casts(e[2]) == ("const", 1)))

def derives_from(e, pred, depth=0):
    """e (possibly a phi) is built only from values satisfying pred"""
    e = strip_casts(e)
    if pred(e): return True
    if e[0] == "phi" and len(e) > 3 and depth < 6:
        return all(derives_from(a, pred, depth + 1) or a[:2] == ("phi", e[1]) or _lap_rebuilt(a) for a in e[3])
    return False

def _lap_rebuilt(e):
    # slot_index + lap*N : the index API reconstructs the id
    return e[0] == "bin" and e[1] in ("Add!", "Add~", "Add")

def check(ctx):
    fx = ctx.fx
    eng = ts.Engine(fx)
    for p in R.selfcheck(fx): raise F.InfraError("role self-check: " + p)
    # ---------------------------------------------------------------- R02.1 counter protocol shapes + who-may-write
    n_writes = 0
    for f in fx.fns:
        body = Body(f)
        d = None
        for (b, c) in body.calls:
            at = R.atomic_target(body, c)
            if not at or at[0] != AM or at[1] not in R.RING_COUNTERS: continue
            owner, field, meth = at
            kind, role = R.RING_COUNTERS[field]
            if meth == "load": continue
            n_writes += 1
            d = d or dag.Dag(body)
            inside = f.get("impl_self") == AM
            key = f"{f['key']}|{field}.{meth}"
            if not inside:
                ctx.ob("R02.1", key + "|outside-ring", False, body.loc(b), f"`{field}` of the lock-free ring is modified outside AtomicMove"); continue
            args = [d.expr(a) for a in c["args"]]
            if meth == "fetch_add":
                ok = role == "reserve" and strip_casts(args[1]) == ("const", 1)
                ctx.ob("R02.1", key, ok, body.loc(b), f"{field}.fetch_add({show(args[1])}): only the reserve counters may be bumped, by exactly 1")
            elif meth in ("compare_exchange", "compare_exchange_weak"):
                exp, new = strip_casts(args[1]), strip_casts(args[2])
                if role == "reserve":
                    ok = is_plus1(exp, new)      # recede: id+1 -> id
                    ctx.ob("R02.1", key, ok, body.loc(b), f"recede CAS on {field}: expected={show(exp)} new={show(new)} must be (id+1 -> id)")
                else:
                    ok = is_plus1(new, exp)      # commit: id -> id+1
                    ctx.ob("R02.1", key, ok, body.loc(b), f"commit CAS on {field}: expected={show(exp)} new={show(new)} must be (id -> id+1), which forces publication/release into sequence order")
            else:
                ctx.ob("R02.1", key, False, body.loc(b), f"`{field}.{meth}` is not one of the protocol shapes (fetch_add(1) / ordered CAS)")
    # a reservation taken is kept until it is published / receded: taking another one on top of it (a retry that re-reserves after its recede CAS lost) abandons
    # the first -- the counter drifts ahead for good.  Computed by the typestate engine: no acquire while the same ring reservation is held.
    for fn in ("leak_slot_internal", "consume_leaking_internal"):
        kf = AM + "::" + fn
        an_ = eng.analyse(kf)
        dbl = [e for e in an_.events if e[0] in ("double-acquire",)]
        fb_ = eng.body(kf)
        ctx.ob("R02.1", f"{kf}|one-reservation-at-a-time", not dbl and not an_.undecided, fb_.loc(dbl[0][1]) if dbl else f"{fb_.f['file']}:{fb_.f['line']}",
               "no path reserves a second position while the first is still held" if not dbl else
               "a path reaches the reserving fetch_add again with the previous reservation still held (its recede CAS failed and the id was dropped): every such collision leaves the "
               "reservation counter one ahead forever -- capacity is lost although every caller was answered `None`")
    ctx.floor("R02.1", 8)
    # ---------------------------------------------------------------- R02.2 exact guards (lock-free ring)
    def guard(fkey, rule_key, want):
        body = eng.body(fkey); dg = dag.Dag(body); found = 0
        for b in sorted(body.reachable, key=lambda x_: (len(body.dom[x_]), x_)):
            c = dag.cmp_of_switch(body, dg, b)
            if not c: continue
            if _is_assertion(body, c):
                continue      # a `debug_assert!` restating the bound on the accepted path: one of its edges only panics
            r = want(body, dg, b, c)
            if r is None: continue
            found += 1
            ctx.ob("R02.2", f"{fkey}|{rule_key}", r[0], body.loc(b), r[1])
        if not found:
            ctx.ob("R02.2", f"{fkey}|{rule_key}", False, f"{body.f['file']}:{body.f['line']}", "no recognisable guard")
    def am_full(body, dg, b, c):
        op, a, bb = c[0], c[1], c[2]
        kind, x, y, tt, ft = dag.canon_branch(c)
        x, y = strip_casts(x), strip_casts(y)
        # dist < N  where dist = reserved - head
        def is_dist(e):
            return e[0] == "bin" and e[1] == "Sub~" and derives_from(e[2], lambda v: v[0] == "atomic" and v[1] == "fetch_add" and v[2][-1:] == ("enqueuer_tail",)) \
                   and strip_casts(e[3])[0] == "atomic" and strip_casts(e[3])[1] == "load" and strip_casts(e[3])[2][-1:] == ("head",)
        N = ("gconst", "BUFFER_SIZE")
        if is_dist(x) or is_dist(y) or N in (x, y):
            if not (is_dist(x) or is_dist(y)) : return None
            ok = (kind == "lt" and is_dist(x) and y == N)
            ok = ok and _returns_variant(body, tt, 1)
            return (ok, f"fullness guard is `{show(a)} {op} {show(bb)}`; required: (reserved - head) < BUFFER_SIZE accepts (reserved-but-unpublished slots count; capacity exactly BUFFER_SIZE)")
        return None
    guard(AM + "::leak_slot_internal", "fullness", am_full)
    def am_empty(body, dg, b, c):
        op, a, bb = c[0], c[1], c[2]
        cop, x, y, tt, ft = dag.canon_branch(c)
        xs, ys = strip_casts(x), strip_casts(y)
        def is_avail(e):
            return e[0] == "bin" and e[1] == "Sub~" and strip_casts(e[2])[0] == "atomic" and strip_casts(e[2])[1] == "load" \
                   and derives_from(e[3], lambda v: v[0] == "atomic" and v[1] == "fetch_add" and v[2][-1:] == ("dequeuer_head",))
        cand = xs if (xs[0] == "bin" and xs[1] == "Sub~") else ys if (ys[0] == "bin" and ys[1] == "Sub~") else None
        if cand is None: return None
        src = strip_casts(cand[2])
        ok_src = src[0] == "atomic" and src[1] == "load" and src[2][-1:] == ("tail",)
        ok = is_avail(cand) and ok_src and cop == "lt" and xs == ("const", 0) and ys == cand and _signed(y) and _returns_variant(body, tt, 1)
        return (ok, f"emptiness guard is `{show(a)} {op} {show(bb)}`; required: ((published tail - read-reserved id) as i32) > 0, tail being the commit counter `tail`")
    guard(AM + "::consume_leaking_internal", "emptiness", am_empty)
    # full-sync ring guards
    def fs_full(body, dg, b, c):
        op, a, bb = c[0], c[1], c[2]
        cop, x, y, tt, ft = dag.canon_branch(c)
        x, y = strip_casts(x), strip_casts(y)
        want = ("bin", "Sub~", ("mem", ("tail",)), ("mem", ("head",)))
        if want not in (x, y): return None
        ok = cop == "lt" and x == want and y == ("gconst", "BUFFER_SIZE") and _returns_variant(body, tt, 1)
        return (ok, f"fullness guard is `{show(a)} {op} {show(bb)}`; required: (tail - head) < BUFFER_SIZE")
    guard(FSM + "::leak_slot_internal", "fullness", fs_full)
    def fs_empty(body, dg, b, c):
        op, a, bb = c[0], c[1], c[2]
        cop, x, y, tt, ft = dag.canon_branch(c)
        xs, ys = strip_casts(x), strip_casts(y)
        def is_len(e): return e[0] == "call" and e[1].endswith("available_elements_count")
        def is_len2(e): return e == ("bin", "Sub~", ("mem", ("tail",)), ("mem", ("head",)))
        if not (is_len(ys) or is_len2(ys) or is_len(xs) or is_len2(xs)): return None
        ok = cop == "lt" and xs == ("const", 0) and (is_len(ys) or is_len2(ys)) and _returns_variant(body, tt, 1)
        return (ok, f"emptiness guard is `{show(a)} {op} {show(bb)}`; required: available elements > 0")
    guard(FSM + "::consume_leaking_internal", "emptiness", fs_empty)
    # available_elements_count of both rings = tail - head (wrapping)
    for adt in (AM, FSM):
        k = f"{adt} as {R.T_PUB}::available_elements_count"
        body = eng.body(k)
        if body is None: raise F.InfraError("missing " + k)
        dg = dag.Dag(body)
        e = strip_casts(dg.local(0))
        def leaf(v, name):
            v = strip_casts(v)
            return (v[0] == "atomic" and v[1] == "load" and v[2][-1:] == (name,)) or v == ("mem", (name,))
        ok = e[0] == "bin" and e[1] == "Sub~" and leaf(e[2], "tail") and leaf(e[3], "head")
        ctx.ob("R02.2", f"{k}|length", ok, f"{body.f['file']}:{body.f['line']}", f"reported length is `{show(e)}`; required: wrapping (tail - head)")
    # ---------------------------------------------------------------- R02.3 index agreement
    for adt in (AM, FSM):
        for fn in ("leak_slot_internal", "consume_leaking_internal"):
            k = f"{adt}::{fn}"
            body = eng.body(k); dg = dag.Dag(body)
            idx = [(b, c) for (b, c) in body.calls if c.get("fname") in ("get_unchecked_mut", "get_unchecked")]
            ok_any = False
            for (b, c) in idx:
                i = strip_casts(dg.expr(c["args"][1]))
                base = ts.access_path(body, c["args"][0])
                N = ("gconst", "BUFFER_SIZE")
                is_mod = i[0] == "bin" and i[1] == "Rem" and strip_casts(i[3]) == N
                m_ = strip_casts(i[3]) if i[0] == "bin" and i[1] == "BitAnd" else None      # `id & (N-1)`: the power-of-two spelling of `id % N`
                is_mask = m_ is not None and m_[0] == "bin" and m_[1].rstrip("!~") == "Sub" and strip_casts(m_[2]) == N and strip_casts(m_[3]) == ("const", 1)
                good = (is_mod or is_mask) and base and "buffer" in base
                want_id = {"leak_slot_internal": ("enqueuer_tail", "tail"), "consume_leaking_internal": ("dequeuer_head", "head")}[fn]
                idv = strip_casts(i[2]) if good else None
                if good:
                    if adt == AM: good = derives_from(idv, lambda v: v[0] == "atomic" and v[1] == "fetch_add" and v[2][-1:] == (want_id[0],))
                    else: good = idv == ("mem", (want_id[1],))
                ok_any |= bool(good)
                ctx.ob("R02.3", f"{k}|slot-index", bool(good), body.loc(b), f"slot addressed as buffer[{show(i)}]; required: buffer[{'reserved id' if adt == AM else want_id[1]} % BUFFER_SIZE]")
            if not idx:
                ctx.ob("R02.3", f"{k}|slot-index", False, f"{body.f['file']}:{body.f['line']}", "no slot access found")
    ctx.floor("R02.3", 4)
    # ---------------------------------------------------------------- R02.4 full-sync ring: complete critical sections
    lockrules.check_spin_lock_primitive(ctx, "R02.4")
    lock_pred = lambda r: r[0] == "lock" and r[1] and r[1][-1] == "concurrency_guard"
    EXEMPT = {"available_elements_count": "length query documented as unsynchronised", "debug_info": "diagnostics",
              "peek_remaining": "unsafe fn; in-crate callers hold streams_lock or poll a racy predicate",
              "new": "constructor", "with_initializer": "constructor", "drop": "&mut self: exclusive access",
              "max_size": "constant", "slot_index_from_slot_ref": "address arithmetic only", "slot_ref_from_slot_index": "address arithmetic only"}
    fns = [f["key"] for f in fx.fns if f.get("impl_self") == FSM and "{closure" not in f["key"]]
    checked = [k for k in fns if k.split("::")[-1] not in EXEMPT]
    for k in fns:
        n = k.split("::")[-1]
        if n in EXEMPT: ctx.note(f"R02.4 exempt: {k.split(' as ')[0].split('::')[-1]}::{n}: {EXEMPT[n]}")
    # functions that run inside the caller's critical section (computed: they release a lock they did not take, or take none)
    req = set()
    for k in checked:
        an = eng.analyse(k)
        takes = any(e for (_, e) in an.outcomes for (s, r) in e if s == "+") or any(an.may_hold(b, lock_pred) for b in an.state_in)
        if not takes: req.add(k)
    ctx.note("R02.4 functions running inside the caller's critical section: " + ", ".join(sorted(x.split('::')[-1] for x in req)))
    lockrules.check_critical_sections(ctx, eng, "R02.4", checked, FSM, lock_pred, guarded={"head", "tail", "buffer"}, requires_held=req)
    # call sites of those functions must hold the receiver's lock
    n_sites = 0
    for f in fx.fns:
        body = None
        for blk in f["blocks"]:
            t = blk["term"]
            if t[0] == "Call" and (t[1].get("resolved") or t[1].get("f")) in req:
                body = eng.body(f["key"]); break
        if body is None: continue
        if f["key"].endswith("as std::ops::Drop::drop") and f.get("impl_self") == FSM: continue
        an = eng.analyse(f["key"])
        for (b, c) in body.calls:
            callee = c.get("resolved") or c.get("f")
            if callee not in req: continue
            if f["key"] in req and f.get("impl_self") == FSM:
                continue  # nested helper inside the same critical section; its own callers are checked
            n_sites += 1
            base = ts.access_path(body, c["args"][0])
            base = ts.strip_env(base) if base is not None else None
            pred = (lambda r, base=base: r[0] == "lock" and r[1] == tuple(base) + ("concurrency_guard",)) if base is not None else lock_pred
            ok = an.must_hold(b, pred)
            ctx.ob("R02.4", f"{f['key']}|calls|{callee.split('::')[-1]}|under-lock", ok, body.loc(b),
                   f"`{callee.split('::')[-1]}` touches head/tail without taking the lock: the caller must hold the ring's lock here on every path")
    ctx.note(f"R02.4: {n_sites} call sites of inside-critical-section helpers")
    # leak/consume must return Some only with the lock held and None only with it free (summary shape)
    for fn in ("leak_slot_internal", "consume_leaking_internal"):
        an = eng.analyse(f"{FSM}::{fn}")
        outs = {(r, frozenset(e)) for (r, e) in an.outcomes}
        ok = outs == {(("variant", 1), frozenset({("+", ("lock", ("concurrency_guard",)))})), (("variant", 0), frozenset())}
        ctx.ob("R02.4", f"{FSM}::{fn}|held-iff-Some", ok, "", f"computed summary {sorted(map(str, outs))}; required: lock held iff Some is returned")
    for fn, eff in (("publish_leaked_internal", {("-", ("lock", ("concurrency_guard",)))}), ("unleak_internal", {("-", ("lock", ("concurrency_guard",)))})):
        an = eng.analyse(f"{FSM}::{fn}")
        ok = {frozenset(e) for (_, e) in an.outcomes} == {frozenset(eff)}
        ctx.ob("R02.4", f"{FSM}::{fn}|releases-once", ok, "", "summary: releases the caller's lock exactly once on every path")
    for k in (f"{FSM} as {R.T_PUB}::publish_movable", f"{FSM} as {R.T_PUB}::publish", f"{FSM} as {R.T_SUB}::consume_movable"):
        an = eng.analyse(k)
        leaks = [e for (_, e) in an.outcomes if e]
        ctx.ob("R02.4", f"{k}|balanced", not leaks, "", "every return leaves the lock free" if not leaks else f"a path returns with {sorted(leaks[0])}")
    ctx.floor("R02.4", 12)
    ctx.floor("R02.2", 6)
    # ---------------------------------------------------------------- R02.5 index API: the id rebuilt from (index, lap) is position arithmetic of the allowed shape
    # (the commit / recede CAS of the index-based functions is only 'ordered' if the candidate id is index + lap*N; dimension rules shared with C15)
    import importlib, util
    C15 = importlib.import_module("props.C15")
    class Idx(util.PrefixedCtx):
        def ob(self, rule, key, ok, site="", detail="", nontrivial=True, undecided=False):
            if rule in ("R15.1", "R15.2") and ("atomic_move" in key or "full_sync_move" in key):      # every function of the two rings (the index API first of all)
                return super().ob(rule, key, ok, site, detail, nontrivial, undecided)
            return ok
    C15.check(Idx(ctx, "R02.5"))
    # ---------------------------------------------------------------- R02.6 'buffer full' is answered only when the reservation failed
    # (a send is rejected only if at some instant all slots were taken: the only source of a rejection is the fullness guard inside the reservation; a publish
    #  path that gives up for another reason -- a spin budget, a busy neighbour -- and hands the item back reports a queue with room as full)
    C01 = importlib.import_module("props.C01")
    for adt in (AM, FSM, R.AZC, R.FZC):
        for fn in ("publish_movable", "publish"):
            for k in [k for k in fx.by_key if k.startswith(adt + " as ") and k.endswith("::" + fn)]:
                body = Body(fx.fn(k)); dg = dag.Dag(body)
                res = [(b, c) for (b, c) in body.calls if c.get("fname") in ("leak_slot_internal", "leak_slot")]
                if len(res) != 1: continue
                some_t = None
                for b in body.reachable:
                    vs = util.variant_switch(body, dg, b)
                    if vs and vs[3] == res[0][1]["dst"]["l"] and not vs[4]: some_t = vs[1].get(1, vs[2])
                if some_t is None: continue
                reach = util.flag_paths(body, dg, some_t)
                bad = None
                for b in sorted(reach):
                    for st in body.stmts(b):
                        if st[0] != "A" or st[1]["p"] or st[1]["l"] != 0 or st[2][0] != "Agg": continue
                        if st[2][1][0] == "Tuple" and len(st[2][2]) == 2:
                            second = strip_casts(dg.expr(st[2][2][1])); first = strip_casts(dg.expr(st[2][2][0]))
                            if (second[0] == "adt" and second[1] == "Some") or (first[0] == "adt" and first[1] == "None"): bad = b
                        elif st[2][1][0] == "Adt" and st[2][1][2] == "Some" and fn == "publish": bad = b
                ctx.ob("R02.6", f"{k}|rejects-only-when-the-reservation-failed", bad is None, body.loc(bad) if bad is not None else f"{body.f['file']}:{body.f['line']}",
                       "once a slot was reserved the operation answers acceptance on every path" if bad is None else
                       "a path that holds a reserved slot answers 'rejected' (hands the item / setter back): the queue is reported full although the fullness guard passed")
    ctx.floor("R02.6", 6)
    # ---------------------------------------------------------------- R02.7 full-sync: the lock is the reservation (shared with C01 R01.6)
    # 'one owner per pool slot' across the OgreUnique -> OgreArc conversion (shared with C14 R14.5 / R14.8): a conversion that lets the unique handle's Drop run frees
    # the slot the new shared handle still owns -- the slot is handed out twice (two accepted events in one slot) and freed twice
    if getattr(ctx, "pid", None) == "C02" and not isinstance(ctx, util.PrefixedCtx): __import__("importlib").import_module("props.C14").check_unique_to_shared(ctx, "R02.9")
    check_crossbeam_capacity(ctx, "R02.2")
    check_alias_const_order(ctx, "R02.2")
    if not isinstance(ctx, util.PrefixedCtx):
        C01.check_full_sync_reservation(ctx, "R02.7")
        # R02.8 an element leaves the ring whole: it is copied out before its slot counts as free again (a producer waiting on a full ring would overwrite it mid-copy;
        # shared with C01 R01.1)
        C01.check_crossbeam_setter_sends(ctx, "R02.6")
        C01.check_read_before_release(ctx, "R02.8")
        ctx.floor("R02.8", 4)

def check_alias_const_order(ctx, rule):
    """every type alias of the prelude hands its own BUFFER_SIZE / MAX_STREAMS / POOL_SIZE parameter to the same-named const parameter of the type it names (two `usize`
    consts swapped type-check; the channel then has MAX_STREAMS slots per queue and BUFFER_SIZE stream ids)"""
    fx = ctx.fx
    n = 0
    NAMES = {"BUFFER_SIZE", "MAX_STREAMS", "POOL_SIZE", "INSTRUMENTS"}
    def walk(ty, alias):
        nonlocal n
        if not isinstance(ty, dict): return
        if ty.get("k") == "adt":
            tgt = fx.adts.get(ty["path"]) or {}
            gens = [g for g in (tgt.get("generics") or []) if not str(g).startswith("'")]
            if not gens and ty["path"] in fx.aliases: gens = [g for g in (fx.aliases[ty["path"]].get("generics") or []) if not str(g).startswith("'")]
            args = ty.get("args", [])
            if gens and len(gens) == len(args):
                for g, a in zip(gens, args):
                    if a.get("k") == "const" and a.get("s") in NAMES and g in NAMES:
                        n += 1
                        okc = g == a.get("s") or (g == "POOL_SIZE" and a.get("s") == "BUFFER_SIZE") or not ({g, a.get("s")} <= {"BUFFER_SIZE", "MAX_STREAMS", "POOL_SIZE"})
                        ctx.ob(rule, f"{alias}|{ty['path'].split('::')[-1]}|{g}-gets-{a.get('s')}", okc, "",
                               f"alias `{alias.split('::')[-1]}` passes its `{a.get('s')}` as the `{g}` parameter of `{ty['path']}`")
            for a in args: walk(a, alias)
        for key in ("to", "elem"):
            if key in ty: walk(ty[key], alias)
    for path, a in sorted(fx.aliases.items()):
        walk(a.get("ty"), path)
    ctx.ob(rule, "alias-const-order|instances", n >= 20, "", f"{n} const arguments of prelude aliases checked", nontrivial=False)


def check_crossbeam_capacity(ctx, rule):
    """the crossbeam-backed channels hold exactly BUFFER_SIZE events: every `crossbeam_channel::bounded(..)` in the crate is given the generic const BUFFER_SIZE itself
    (a capacity 'rounded up' to MAX_STREAMS / a minimum / BUFFER_SIZE + 1 accepts more un-received events than the channel says it can hold)"""
    fx = ctx.fx
    n = 0
    for f in fx.fns:
        if not any(blk["term"][0] == "Call" and (blk["term"][1].get("f") or "").startswith("crossbeam_channel::bounded") for blk in f["blocks"]): continue
        body = Body(f); dg = dag.Dag(body)
        for (b, c) in body.calls:
            if not (c.get("f") or "").startswith("crossbeam_channel::bounded"): continue
            a = strip_casts(dg.expr(c["args"][0]))
            n += 1
            ctx.ob(rule, f"{f['key']}|crossbeam-capacity-is-BUFFER_SIZE", a[0] == "gconst" and str(a[1]).split("::")[-1] == "BUFFER_SIZE", body.loc(b),
                   f"bounded(`{dag.show(a)[:60]}`); required: BUFFER_SIZE")
    ctx.ob(rule, "crossbeam-capacity|instances", n >= 2, "", f"{n} crossbeam channels constructed", nontrivial=False)


def _is_assertion(body, c):
    """one edge of the comparison leads nowhere but into a panic (no Return reachable): `assert!` / `debug_assert!`"""
    return any(t not in body.can_return for t in (c[3], c[4]))


def _signed(e):
    return e[0] == "cast" and e[1] in ("i32", "i64", "isize")

def _returns_variant(body, start, variant):
    """every value the function can return on a path through `start` (back edges not followed) is <variant>; flag-aware: an Option answered by an
    extracted / inlined helper and matched right away does not make the other arm reachable"""
    hit = False
    for b in util.flag_paths(body, dag.Dag(body), start, follow_back=False):
        for s_ in body.stmts(b):
            if s_[0] == "A" and not s_[1]["p"] and s_[1]["l"] == 0:
                rv = s_[2]
                if not (rv[0] == "Agg" and rv[1][0] == "Adt" and rv[1][3] == variant): return False
                hit = True
    return hit
