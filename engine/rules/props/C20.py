"""C20 - a suspended async send never blocks other producers or the consumers.
R20.1: in every coroutine body of the crate, no `Yield` (suspension point) is reachable while a ring reservation or a
       spin-lock / mutex is held (typestate over all paths).  Sufficient: every other operation's spin-waits are on exactly
       these resources.  Holding a *pool slot* across an await is allowed (capacity-1, nobody waits on it)."""
import ts, roles as R

LEVEL = "other"
EXPLANATION = ("Typestate analysis (lock / ring-reservation tokens with return-value correlation, interprocedural summaries computed "
               "bottom-up over the resolved call graph incl. closures and trait dispatch by CHA) over the built MIR of every coroutine "
               "body: a Yield terminator reached in a state that holds a spin-lock or a ring reservation is a violation. This is a "
               "sufficient condition for C20's 'other operations complete in bounded steps': the only unbounded waits in the channel "
               "code are spins on these resources.")
ASSUMPTIONS = ["spin-waits exist only on the role-table resources (ogre_sync locks, RawMutex, AtomicMove reservation counters, mmap log tail)",
               "dropping (cancelling) a suspended send_with_async future is outside C20's statement"]
TRUSTED = ["typestate primitives in roles.py"]

BLOCKING = lambda res: res[0] in ("lock", "ring.w", "ring.r", "log.w")

def check(ctx):
    fx = ctx.fx
    eng = ts.Engine(fx)
    for p in R.selfcheck(fx):
        raise __import__("facts").InfraError("role self-check: " + p)
    coros = [f for f in fx.fns if f.get("is_coroutine")]
    n_async_send = 0
    for f in coros:
        key = f["key"]
        an = eng.analyse(key)
        body = eng.body(key)
        is_send = "send_with_async" in key or "alloc_with_async" in key
        if is_send: n_async_send += 1
        if an.undecided:
            ctx.ob("R20.1", f"{key}|analysis", False, f"{f['file']}:{f['line']}", f"typestate analysis did not converge ({an.undecided}): cannot show absence of a suspension while holding")
            continue
        yields = [e for e in an.events if e[0] == "yield"]
        bad = {}
        for (_, b, held, _) in yields:
            hs = sorted({f"{res[0]}:{'.'.join(res[1])}" for (sign, res) in held if sign == "+" and BLOCKING(res)})
            if hs:
                bad.setdefault(tuple(hs), []).append(b)
        yblocks = sorted({e[1] for e in yields})
        if not bad:
            ctx.ob("R20.1", f"{key}|no-yield-while-holding", True, f"{f['file']}:{f['line']}",
                   f"{len(yblocks)} suspension point(s), none reachable with a lock or ring reservation held", nontrivial=bool(yblocks) and is_send)
        for hs, blocks in bad.items():
            b = blocks[0]
            ctx.ob("R20.1", f"{key}|yield-while-holding|{','.join(hs)}", False, body.loc(b),
                   f"suspension point (.await) reachable while holding {', '.join(hs)}: every other operation that needs it spins until this future is resumed")
        # lock discipline inside coroutines: no double acquire
        for e in an.events:
            if e[0] == "double-acquire":
                ctx.ob("R20.2", f"{key}|double-acquire|{e[2][0]}:{'.'.join(e[2][1])}", False, body.loc(e[1]), "re-acquiring a held spin lock self-deadlocks")
    ctx.note(f"coroutine bodies analysed: {len(coros)}; async send/alloc bodies: {n_async_send}")
    if n_async_send < 12:
        raise __import__("facts").InfraError(f"R20.1: only {n_async_send} send_with_async/alloc_with_async coroutines found (floor 12)")
    ctx.floor("R20.1", 40)
