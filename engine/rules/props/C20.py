"""C20 - a suspended async send never blocks other producers or the consumers.
R20.1: in every coroutine body of the crate, no `Yield` (suspension point) is reachable while a ring reservation or a
       spin-lock / mutex is held (typestate over all paths).  Sufficient: every other operation's spin-waits are on exactly
       these resources.  Holding a *pool slot* across an await is allowed (capacity-1, nobody waits on it)."""
import ts, util, roles as R

LEVEL = "other"
EXPLANATION = ("(R20.3) the wake decision taken when a suspended send_with_async completes does not rest on a queue length sampled before the suspension point "
               "(necessary for 'when the suspended send finally completes, its event is delivered as well'). (R20.1) Typestate analysis (lock / ring-reservation tokens with return-value correlation, interprocedural summaries computed "
               "bottom-up over the resolved call graph incl. closures and trait dispatch by CHA) over the built MIR of every coroutine "
               "body: a Yield terminator reached in a state that holds a spin-lock or a ring reservation is a violation. This is a "
               "sufficient condition for C20's 'other operations complete in bounded steps': the only unbounded waits in the channel "
               "code are spins on these resources. (R20.3) the wake decision of a completed send_with_async does not rest on a length sampled before its suspension point; "
               "(R20.4) the channel-level poll / query functions (consume, keep_stream_running, register_stream_waker, pending_items_count, running_streams_count, is_channel_open, "
               "poll_next) contain no loop that retries the dequeue or spins / sleeps: none of them waits for a producer that may be suspended.")
EXPLANATION += " (R20.5) C04's wake-site rules R04.3 / R04.5 / R04.6 / R04.7 run under this property (events accepted while a setter is suspended are delivered without waiting for it: a wake that is skipped or deferred while another producer's async setter is in flight is reported; C04's own listed findings are not repeated); (R20.6) producers do not wait for each other: no producer-side channel function (send, send_with, send_with_async, reserve_slot, try_send_reserved, try_cancel_slot_reserve, send_derived) contains a loop that spins / yields / sleeps or polls an atomic, with the queue-full retry of the three Arc-based Multi send_derived as listed exemption; (R20.7) the rings give up on the false answer of the full / empty callback (shared with C16 R16.4)."
EXPLANATION += " R20.6 also covers the zero-copy containers and the pool (no loop that waits for a slot to come back); (R20.8) the rings' length queries count published elements only (shared with C02 R02.2): a reservation parked in a suspended setter must not keep pending_items_count() > 0, or an unbounded flush / close never returns."
EXPLANATION += " R20.6 includes the crossbeam setter-send retry rule (the async re-send yields, never spins inside a poll); R20.8 also requires the channels' pending_items_count to be the backlog and nothing else (C06 R06.6)."
EXPLANATION += " R20.8 also requires every flush of the close path to get the caller's timeout unchanged (C06 R06.1)."
ASSUMPTIONS = ["spin-waits exist only on the role-table resources (ogre_sync locks, RawMutex, AtomicMove reservation counters, mmap log tail)",
               "dropping (cancelling) a suspended send_with_async future is outside C20's statement"]
TRUSTED = ["typestate primitives in roles.py"]

BLOCKING = lambda res: res[0] in ("lock", "ring.w", "ring.r", "log.w")

def check(ctx):
    fx = ctx.fx
    eng = ts.Engine(fx)
    for p in R.selfcheck(fx):
        raise __import__("facts").InfraError("role self-check: " + p)
    import lockrules
    lockrules.check_spin_lock_primitive(ctx, "R20.2")
    coros = [f for f in fx.fns if f.get("is_coroutine")]
    n_async_send = 0
    for f in coros:
        key = f["key"]
        an = eng.analyse(key)
        body = eng.body(key)
        is_send = "send_with_async" in key or "alloc_with_async" in key
        if is_send: n_async_send += 1
        if an.undecided:
            ctx.ob("R20.1", f"{key}|analysis", False, f"{f['file']}:{f['line']}", f"typestate analysis did not converge ({an.undecided}): cannot show absence of a suspension while holding")
            continue
        yields = [e for e in an.events if e[0] == "yield"]
        bad = {}
        for (_, b, held, _) in yields:
            hs = sorted({f"{res[0]}:{'.'.join(res[1])}" for (sign, res) in held if sign == "+" and BLOCKING(res)})
            if hs:
                bad.setdefault(tuple(hs), []).append(b)
        yblocks = sorted({e[1] for e in yields})
        if not bad:
            ctx.ob("R20.1", f"{key}|no-yield-while-holding", True, f"{f['file']}:{f['line']}",
                   f"{len(yblocks)} suspension point(s), none reachable with a lock or ring reservation held", nontrivial=bool(yblocks) and is_send)
        for hs, blocks in bad.items():
            b = blocks[0]
            ctx.ob("R20.1", f"{key}|yield-while-holding|{','.join(hs)}", False, body.loc(b),
                   f"suspension point (.await) reachable while holding {', '.join(hs)}: every other operation that needs it spins until this future is resumed")
        # lock discipline inside coroutines: no double acquire
        for e in an.events:
            if e[0] == "double-acquire":
                ctx.ob("R20.2", f"{key}|double-acquire|{e[2][0]}:{'.'.join(e[2][1])}", False, body.loc(e[1]), "re-acquiring a held spin lock self-deadlocks")
    ctx.note(f"coroutine bodies analysed: {len(coros)}; async send/alloc bodies: {n_async_send}")
    if n_async_send < 12:
        raise __import__("facts").InfraError(f"R20.1: only {n_async_send} send_with_async/alloc_with_async coroutines found (floor 12)")
    ctx.floor("R20.1", 40)


# ---------------------------------------------------------------------------------------------- R20.3 (added after seed C20-s1)
def _r20_3(ctx):
    """'When the suspended send finally completes, its event is delivered as well': the wake decision taken after the publication of a
    send_with_async must not rest on a queue length sampled BEFORE the suspension point (while the setter was parked the consumers may have
    drained the queue and parked) -- unless the queue lock is held across the whole suspension (nobody can consume meanwhile; that is R20.1's finding)."""
    import importlib
    import dag as D
    from mir import Body
    C04 = importlib.import_module("props.C04")
    fx = ctx.fx
    eng = ts.Engine(fx)
    n = 0
    for s in C04.wake_sites(fx):
        if "send_with_async" not in s.key or not s.f.get("is_coroutine"): continue
        body = s.body; dg = s.dg
        at = []
        for (op, l, r, pol) in s.conds:
            if C04.sentinel_test(l, r): continue
            C04.atoms(l, at); C04.atoms(r, at)
        if not C04.is_listener_id(s.target): C04.atoms(s.target, at)
        yields = [b for b in body.reachable if body.term(b)[0] == "Yield"]
        an = eng.analyse(s.key)
        for a in at:
            # block that defines the sampled value: the innermost call site (`name@bbN`) mentioned by the atom
            blocks = _call_blocks(a)
            if not blocks: continue
            sb = max(blocks)
            stale = [y for y in yields if y in body.reach_from(sb) and s.b in body.reach_from(y)]
            locked = bool(stale) and all(an.must_hold(y, lambda r: r[0] == "lock") for y in stale)
            n += 1
            ctx.ob("R20.3", f"{s.key}|wake-decision-not-sampled-before-the-suspension", not stale or locked, body.loc(s.b),
                   "the length deciding the wake-up is sampled after the setter completed" if not stale else
                   ("the length is sampled before the suspension but the queue lock is held throughout (R20.1 reports that)" if locked else
                    f"the wake decision uses `{D.show(a)[:80]}`, sampled before the setter's .await: consumers may drain the queue and park while the setter is suspended, and the completed send then wakes nobody"))
    ctx.floor("R20.3", 5)


def _call_blocks(e, out=None):
    out = out if out is not None else []
    if isinstance(e, tuple):
        if e and e[0] == "call" and len(e) > 3 and isinstance(e[3], int): out.append(e[3])
        if e and e[0] == "atomic" and len(e) > 3 and isinstance(e[3], int): out.append(e[3])
        for x in e:
            if isinstance(x, tuple): _call_blocks(x, out)
    return out


# ---------------------------------------------------------------------------------------------- R20.4 (added after seed C20b-s2)
WAITS = ("spin_loop", "yield_now", "sleep", "relaxed_wait", "park", "busy_wait")
DEQUEUES = ("consume_movable", "consume_leaking", "consume", "try_recv", "recv", "dequeue", "consume_leaking_internal")

def _r20_4(ctx):
    """polls and queries never wait for a producer: the channel-level consumer / query functions and MutinyStream::poll_next contain no loop that retries the
    dequeue or spins / sleeps (a loop that waits for an in-flight publication waits for a suspended send_with_async -- for as long as its setter stays parked)"""
    import roles as R
    from mir import Body
    fx = ctx.fx
    keys = []
    for name, path in R.CHANNELS.items():
        for tr, fns in ((R.T_CONS, ("consume", "keep_stream_running", "register_stream_waker")), (R.T_COMMON, ("pending_items_count", "running_streams_count", "is_channel_open", "buffer_size"))):
            for fn in fns:
                if fx.fn_opt(f"{path} as {tr}::{fn}"): keys.append(f"{path} as {tr}::{fn}")
    keys += [f["key"] for f in fx.fns if f.get("impl_self") == R.STREAM and f["key"].endswith("::poll_next")]
    for k in keys:
        fam = [f for f in fx.fns if (f.get("owner_fn") or f["key"]) == k]
        bad = None
        for f in fam:
            body = Body(f)
            for h, blocks in body.loops.items():
                names = {body.term(b)[1].get("fname") for b in blocks if body.term(b)[0] == "Call"}
                if names & set(WAITS) or names & set(DEQUEUES):
                    bad = (body.loc(h), sorted(n for n in names if n in WAITS or n in DEQUEUES)); break
            if bad: break
        ctx.ob("R20.4", f"{k}|no-waiting-loop", bad is None, bad[0] if bad else f"{fam[0]['file']}:{fam[0]['line']}" if fam else "",
               "no loop that retries the dequeue or spins / sleeps" if bad is None else
               f"a loop around {bad[1]}: this poll / query waits for somebody else's progress -- a send_with_async whose setter is suspended (slot reserved, not yet published) keeps it spinning")
    ctx.floor("R20.4", 60)


_check_r20_1 = check
def check(ctx):
    _check_r20_1(ctx)
    _r20_3(ctx)
    _r20_4(ctx)
    _r20_5(ctx)
    _r20_6(ctx)
    # R20.7 a poll / send that finds the ring empty / full gives up when the caller's callback says so (the channels pass `false`): shared with C16 R16.4
    import importlib
    importlib.import_module("props.C16").check_callback_polarity(util.PrefixedCtx(ctx, "R20.7"), "R16.4")
    # R20.8 'length queries, flush and close stay bounded while a setter is suspended': the rings' length queries count PUBLISHED elements (tail - head), never
    # reserved ones (enqueuer_tail - head): a reservation parked in a suspended setter would otherwise keep pending_items_count() > 0 with nothing consumable,
    # and an unbounded flush / close never returns (shared with C02 R02.2)
    C02 = importlib.import_module("props.C02")
    class OnlyLen(util.PrefixedCtx):
        def ob(self, rule, key, ok, site="", detail="", nontrivial=True, undecided=False):
            if rule == "R02.2" and "available_elements_count" in key: return super().ob(rule, key, ok, site, detail, nontrivial, undecided)
            return ok
    util.guarded(ctx, C02.check, OnlyLen(ctx, "R20.8"))
    # ... and the channels' pending_items_count is that backlog and nothing else (no count of sends "still being built"): shared with C06 R06.6
    sub6 = util.fresh_ctx(ctx, "C06")
    util.guarded(ctx, importlib.import_module("props.C06").check, sub6)
    for o in sub6.obs:
        if (o["rule"] == "R06.6" and "is-the-real-backlog" in o["key"]) or (o["rule"] == "R06.1" and "flush-gets-the-caller-s-timeout" in o["key"]):
            ctx.ob("R20.8", o["key"], o["ok"], o["site"], o["detail"], o["nontrivial"])
    if not getattr(ctx, "deferred_infra", None): ctx.floor("R20.8", 2)


def _r20_6(ctx):
    """R20.6 producers do not wait for each other: no producer-side channel function (send, send_with, send_with_async, reserve_slot, try_send_reserved,
    try_cancel_slot_reserve, send_derived -- with helpers that are new to the rules inlined) contains a loop that spins / yields / sleeps or polls an atomic of the
    channel itself (a ticket / turn / sequence word): whatever such a loop waits for can be in the hands of a producer whose async setter is suspended.
    Listed exemptions: the queue-full retry loop of the three Arc-based Multi `send_derived` (documented: waits for a *consumer* to make room, never for a producer).
    (The ring's own publish spin under the movable atomic Uni is the listed finding of R20.1.)"""
    import roles as R
    from mir import Body
    fx = ctx.fx
    PF = ("send", "send_with", "send_with_async", "try_send_reserved", "reserve_slot", "try_cancel_slot_reserve", "send_derived")
    EXEMPT = {f"{R.CHANNELS[n]} as {R.T_PROD}::send_derived" for n in ("multi.arc.atomic", "multi.arc.full_sync", "multi.arc.crossbeam")}
    n = 0
    for name, path in R.CHANNELS.items():
        for fn in PF:
            k = f"{path} as {R.T_PROD}::{fn}"
            fam = [f for f in fx.fns if (f.get("owner_fn") or f["key"]) == k]
            if not fam: continue
            n += 1
            bad = None
            for f in fam:
                body = Body(f)
                for h, blocks in body.loops.items():
                    calls = [body.term(b)[1] for b in blocks if body.term(b)[0] == "Call"]
                    names = {c.get("fname") for c in calls}
                    polls = [c for c in calls if (c.get("f") or "").startswith("std::sync::atomic::Atomic::") and c.get("fname") in ("load", "compare_exchange", "compare_exchange_weak", "swap", "fetch_update")]
                    if names & set(WAITS): bad = (body.loc(h), "waits: " + ", ".join(sorted(names & set(WAITS)))); break
                    if polls: bad = (body.loc(h), "polls an atomic of the channel in a loop"); break
                if bad: break
            if k in EXEMPT:
                ctx.note(f"R20.6 exemption: {k} retries while a listener's queue is full (documented; waits for a consumer)"); continue
            ctx.ob("R20.6", f"{k}|no-waiting-loop", bad is None, bad[0] if bad else f"{fam[0]['file']}:{fam[0]['line']}",
                   "no loop that waits (spin / yield / sleep / atomic poll) in this producer operation" if bad is None else
                   f"{bad[1]}: this producer operation waits for somebody else's progress -- with another producer's async setter suspended it may wait forever")
    n += check_container_no_wait(ctx, "R20.6")
    import importlib as _il
    n += _il.import_module("props.C01").check_crossbeam_setter_sends(ctx, "R20.6")      # the async re-send yields, it never spins inside a poll
    ctx.floor("R20.6", 70)


def check_container_no_wait(ctx, rule):
    import roles as R
    from mir import Body
    fx = ctx.fx
    n = 0
    # ... nor does the layer underneath: the zero-copy containers and the pool answer "no slot" at once.  A `leak_slot` / `alloc_ref` that waits for a slot to come back
    # waits for a consumer to release one -- or for a suspended send_with_async, which keeps its slot out of the pool without anything being in the ring
    # (the retry loops of the two rings themselves are C02 / C16 territory: R02.6 / R16.1 / R16.4)
    TAKES = ("alloc_ref", "alloc_with", "consume_movable", "leak_slot", "leak_slot_internal")
    for f in fx.fns:
        owner = f.get("impl_self") or ""
        if owner not in (R.AZC, R.FZC, R.POOL): continue
        if "::{closure#" in f["key"]: continue
        body = Body(f)
        bad = None
        for h, blocks in body.loops.items():
            calls = [body.term(b)[1] for b in blocks if body.term(b)[0] == "Call"]
            names = {c.get("fname") for c in calls}
            if names & set(WAITS): bad = (body.loc(h), "waits: " + ", ".join(sorted(names & set(WAITS)))); break
            # a loop whose exit depends on the answer of a slot request retries it
            if names & set(TAKES) and f["key"].split("::")[-1] not in ("new", "drop", "fmt"):
                bad = (body.loc(h), "retries " + ", ".join(sorted(names & set(TAKES))) + " in a loop"); break
        n += 1
        ctx.ob(rule, f"{f['key']}|no-waiting-loop", bad is None, bad[0] if bad else f"{f['file']}:{f['line']}",
               "no loop that waits for a slot in this container / pool operation" if bad is None else
               f"{bad[1]}: a request for a slot that waits for one to come back waits for whoever holds it -- possibly a producer whose async setter is suspended")
    return n


def _r20_5(ctx):
    """R20.5 'events accepted meanwhile are delivered without waiting for the suspended one': the wake of every accept path is issued by that path itself, after its
    own publication, on a condition over the queue only (C04's wake-site rules R04.3 / R04.5 / R04.6 / R04.7 run under this property).  A wake that is skipped or
    deferred while some other producer's async setter is in flight (a 'burst' guard held across the await, a ticket to be honoured first) makes a plain send's event
    wait for the suspended one.  C04's own listed findings (length sampled before publication) are a different defect and are not repeated here."""
    import importlib, json, os
    C04 = importlib.import_module("props.C04")
    sub = util.fresh_ctx(ctx, "C04")
    C04.check(sub)
    import runner
    known = {k["key"] for k in runner.load_known().get("findings", []) if k["property"] == "C04"}
    n = 0
    for o in sub.obs:
        if o["rule"] not in ("R04.3", "R04.5", "R04.6", "R04.7") or o["key"] in known: continue
        n += 1
        key = o["key"]
        ctx.ob("R20.5", key, o["ok"], o["site"], o["detail"], o["nontrivial"])
    ctx.floor("R20.5", 40)
