"""C03 - Multi: each listener receives every accepted event exactly once, in order."""
import importlib
import dag as D, util, ts, roles as R, facts as F
from dag import strip_casts, show, norm
from mir import Body, op_local

LEVEL = "other"
EXPLANATION = ("Necessary shape conditions decided on all paths of the six Multi channels: (R03.1) fan-out completeness: in the five send_derived bodies the outer loop ranges "
               "over the live-listener list and is left only at the sentinel / end of the range (no early break or return); every completed iteration over a live listener "
               "performs exactly one successful publication into that listener's queue (arc atomic / full-sync: the retry loop is left only through the publication's Some "
               "answer; ogre_arc: publish or panic; arc crossbeam's unchecked try_send below the sampled length 3 is a listed exception -- it cannot fail for sequences shorter "
               "than the buffer); (R03.2) one shared allocation: what is published is a clone / raw copy of the single handle parameter, and send / send_with / send_with_async "
               "build that handle exactly once and fan it out exactly once on the accepted path; (R03.3) reader/writer agreement: consume(stream_id) dequeues from the same "
               "per-listener array, indexed by its stream id, that send_derived indexes by the listener id it read; (R03.4) the ogre_arc reference count pre-loaded equals the "
               "copies made (one reference consumed per iteration); (R03.5) log channel: in-order commit and subscriber bounds (shared with C09 R09.1 / R09.3); (R03.7) the poll / waker-registration protocol every listener's delivery rests on (shared with C04 R04.1/R04.2); (R03.6) a pool "
               "slot is destroyed before it can be reused (shared with C13 R13.1) and the per-listener rings satisfy the ring shape conditions (shared with C02 R02.1-R02.3). (R03.8) Multi::send / send_with / send_derived forward to the channel unchanged.")
EXPLANATION += ' R03.1 also checks the polarity of the end-of-list test (the fan-out is left on the side where the entry IS the u32::MAX sentinel, publications happen on the live side); (R03.9) the fan-out list is rebuilt exactly once after every id take / release (shared with C10 R10.2: no in-place truncate / append fast path); (R03.10) the setters of send_with / send_with_async are consumed on every path (shared with C01 R01.9).'
EXPLANATION += " R03.3 also requires every answer of a Multi consume(stream_id) to come after asking the listener's queue, once; R03.4 also imports C14's R14.1 (the pre-load ADDS to the count by one atomic RMW); R03.9 also carries C10's R10.7 (cursor discipline of the live-list rebuild)."
EXPLANATION += " R03.3 also requires the listener ids a fan-out publishes for to be read from used_streams() on every path (no special-cased list for some MAX_STREAMS); R03.9 also carries C10's R10.6 (the vacant snapshot is sorted on every path)."
ASSUMPTIONS = ["per-listener ring correctness under concurrent producers is the C01/C02 question and is not decided", "listener churn during sends is C17",
               "arc crossbeam ignores try_send's answer when the sampled length is <= 2: cannot fail for sequences shorter than the buffer (the property's quantifier)"]

PROD, CONS = R.T_PROD, R.T_CONS
QUEUE_FIELD = {"multi.arc.atomic": "channels", "multi.arc.full_sync": "channels", "multi.arc.crossbeam": "senders", "multi.ogre_arc.atomic": "dispatcher_managers", "multi.ogre_arc.full_sync": "dispatcher_managers"}
CONS_FIELD = dict(QUEUE_FIELD, **{"multi.arc.crossbeam": "receivers"})
PUBS = ("publish_movable", "try_send")


def _is_listener_expr(e):
    import props.C04 as C04
    return C04.is_listener_id(e)


def listener_id_roots(e, depth=0, seen=None):
    """where a listener id comes from: the roots of the iteration that yields it.  Returns a list of 'live' (the streams manager's used_streams()) / 'other:<what>'.
    A fan-out that, for some configuration, walks something else than the live list (`if MAX_STREAMS == 1 { &[0] } else { used_streams() }`) has an 'other' root."""
    seen = seen if seen is not None else set()
    if depth > 40 or not isinstance(e, tuple): return ["other:?"]
    k = e[0]
    if k in ("cast",): return listener_id_roots(e[2], depth + 1, seen)
    if k == "deref": return listener_id_roots(e[1], depth + 1, seen) if isinstance(e[1], tuple) else ["other:deref"]
    if k == "ref?": return listener_id_roots(e[2], depth + 1, seen) if len(e) > 2 else ["other:ref"]
    if k in ("field", "variant"): return listener_id_roots(e[2], depth + 1, seen)
    if k == "pair": return listener_id_roots(e[1], depth + 1, seen)
    if k == "phi":
        if e[1] in seen: return []
        seen = seen | {e[1]}
        out = []
        for a in (e[3] if len(e) > 3 else ()):
            if strip_casts(a)[:2] == ("phi", e[1]): continue
            out += listener_id_roots(a, depth + 1, seen)
        return out or ["other:phi"]
    if k == "call":
        nm = e[1].split("::")[-1]
        if nm == "used_streams": return ["live"]
        if nm in ("next", "into_iter", "iter", "copied", "cloned", "enumerate", "take", "take_while", "skip", "by_ref", "as_slice", "as_ref", "deref", "get_unchecked", "get", "index", "unwrap", "unwrap_unchecked") and e[2]:
            return listener_id_roots(e[2][0], depth + 1, seen)
        return ["other:" + nm]
    if k == "cycle": return []
    if k in ("ref", "mem") and len(e) > 1 and isinstance(e[1], tuple) and e[1] and e[1][-1] == "used_streams": return ["live"]      # the manager's own field (inside the manager / an inlined helper of it)
    return ["other:" + str(k)]


def check(ctx):
    fx = ctx.fx
    C01 = importlib.import_module("props.C01")
    for name, field in QUEUE_FIELD.items():
        path = R.CHANNELS[name]
        k = f"{path} as {PROD}::send_derived"
        body = Body(fx.fn(k)); dg = D.Dag(body)
        site = f"{body.f['file']}:{body.f['line']}"
        pubs = [(b, c) for (b, c) in body.calls if c.get("fname") in PUBS]
        if not pubs:
            ctx.ob("R03.1", f"{k}|publication-present", False, site, "no publication into a listener queue"); continue
        outer = [h for h, bl in body.loops.items() if all(b in bl for (b, _) in pubs)]
        if not outer:
            ctx.ob("R03.1", f"{k}|fan-out-loop", False, site, "publications are not inside one fan-out loop"); continue
        h = max(outer, key=lambda x: len(body.loops[x]))
        # ---------------- loop exits: sentinel or end of range only
        good = True; why = ""
        exits = [(x, y) for (x, y) in body.loop_exits(h) if y in body.can_return]
        for (x, y) in exits:
            vs = util.variant_switch(body, dg, x)
            c = D.cmp_of_switch(body, dg, x)
            iter_end = bool(vs) and C01._mentions(vs[0], lambda e: e[0] == "call" and e[1].endswith("::next")) and vs[1].get(0, vs[2]) == y
            se = util.sentinel_edges(body, dg, x)
            sentinel = se is not None and se[0] == y and se[0] != se[1]          # left on the side where the entry IS the sentinel, never on the live side
            if not (iter_end or sentinel or util.counter_bound_exit(body, dg, x, y)): good = False; why = f"exit bb{x}->bb{y} at {body.loc(x)} is neither the end of the listener list nor its sentinel"
        ctx.ob("R03.1", f"{k}|loop-ends-only-at-end-of-list", good and bool(exits), body.loc(h), "the fan-out loop is left only at the end of the live-listener list" if good else why)
        live = all(util.on_live_side_of_sentinel_tests(body, dg, pb, body.loops[h]) for (pb, _) in pubs)
        ctx.ob("R03.1", f"{k}|publishes-for-live-entries", live, body.loc(pubs[0][0]), "publications happen on the branch where the entry read from the live list is a listener id, not the sentinel")
        rets = [b for b in body.returns]
        ctx.ob("R03.1", f"{k}|no-return-inside-the-loop", not any(r in body.loops[h] for r in rets), site, "no return from inside the fan-out loop")
        # ---------------- one successful publication per completed iteration (over a live listener)
        succ_blocks = set()
        for (b, c) in pubs:
            # success edge of this publication: Some(len) of .0 / Ok of try_send; if the answer is ignored (crossbeam short path) the call itself counts
            tgt = None
            for x in body.loops[h]:
                vs = util.variant_switch(body, dg, x)
                if vs and C01._mentions(vs[0], lambda e, b=b: e[0] == "call" and len(e) > 3 and e[3] == b):
                    tgt = vs[1].get(1, vs[2]) if not body.locals[vs[3]]["ty"].startswith("std::result::Result") else vs[1].get(0, vs[2])
                t = body.term(x)
                if t[0] == "Switch" and t[5] == "bool":
                    e = strip_casts(dg.expr(t[1]))
                    if e[0] == "call" and e[1].split("::")[-1] in ("is_err", "is_ok") and C01._mentions(e, lambda z, b=b: z[0] == "call" and len(z) > 3 and z[3] == b):
                        zero = [tg for (v, tg) in t[2] if v == 0]
                        tgt = (zero[0] if zero else None) if e[1].endswith("is_err") else t[3]
            succ_blocks.add(tgt if tgt is not None else b)
        lo, hi = util.count_per_iteration(body, h, lambda b: b in succ_blocks)
        # iterations that read the sentinel in the middle of the list (ogre_arc: `if stream_id != MAX`) make no publication: allowed, they are not live listeners
        sentinel_skip = name.startswith("multi.ogre_arc")
        ok = hi == 1 and (lo == 1 or (sentinel_skip and lo == 0))
        ctx.ob("R03.1", f"{k}|one-publication-per-listener", ok, body.loc(pubs[0][0]),
               f"{lo}..{hi} successful publications per completed iteration; required exactly one per live listener" + (" (0 only for a sentinel entry)" if sentinel_skip else ""))
        # inner retry loops leave only on success
        for h2, bl in body.loops.items():
            if h2 == h or not bl < body.loops[h] or not any(b in bl for (b, _) in pubs): continue
            ex2 = [(x, y) for (x, y) in body.loop_exits(h2) if y in body.loops[h] or y in body.can_return]
            ok2 = bool(ex2) and all(y in succ_blocks or any(body.dominates(s_, y) or s_ == y for s_ in succ_blocks) for (x, y) in ex2)
            ctx.ob("R03.1", f"{k}|retry-loop-left-only-on-success", ok2, body.loc(h2), "a full listener queue is retried until the publication succeeds (never skipped)")
        # ---------------- R03.2 what is published
        for (b, c) in pubs:
            item = strip_casts(dg.expr(c["args"][1]))
            okc = item[0] == "call" and item[1].split("::")[-1] in ("clone", "raw_copy") and C01._mentions(item, lambda e: e[0] == "param" and e[1] == 2)
            ctx.ob("R03.2", f"{k}|publishes-a-copy-of-the-one-handle", okc, body.loc(b), f"published `{show(item)[:80]}`; required: clone / raw copy of the handle parameter (every listener observes the same allocation)")
            # ---------------- R03.3 writer side index
            q = dg.expr(c["args"][0])
            okq = field in str(q) and _is_listener_expr(q)
            ctx.ob("R03.3", f"{k}|writes-the-listener-s-own-queue", okq, body.loc(b), f"publishes into `{show(q)[:90]}`; required: {field}[<listener id read from the live list>]")
            # ... and from nothing else, for every configuration: the ids the fan-out walks are the live list's on every path (a special-cased list for
            # MAX_STREAMS == 1 -- "the only possible listener is #0" -- feeds queue 0 while nobody listens; the id's next owner yields those events)
            qs = strip_casts(q)
            idx = qs[2][1] if qs[0] == "call" and qs[1].split("::")[-1] in ("get_unchecked", "get_unchecked_mut", "index") and len(qs[2]) == 2 else None
            if idx is not None:
                roots = listener_id_roots(idx)
                bad = sorted({r for r in roots if r != "live"})
                ctx.ob("R03.3", f"{k}|walks-only-the-live-list", "live" in roots and not bad, body.loc(b),
                       "every listener id the fan-out publishes for is read from used_streams()" if not bad else f"on some path the ids come from {bad}, not from the live-listener list")
        # consumer side
        kc = f"{path} as {CONS}::consume"
        cb = Body(fx.fn(kc)); cd = D.Dag(cb)
        dq = [(b, c) for (b, c) in cb.calls if c.get("fname") in ("consume_movable", "try_recv")]
        okr = len(dq) == 1
        if okr:
            q = cd.expr(dq[0][1]["args"][0])
            idxs = []
            C01._mentions(q, lambda e: (idxs.append(strip_casts(e[2][1])) or False) if e[0] == "call" and e[1].split("::")[-1] in ("get_unchecked", "get_unchecked_mut", "index") and len(e[2]) == 2 else False)
            C01._mentions(q, lambda e: (idxs.append(strip_casts(e[2])) or False) if e[0] == "index" else False)
            okr = CONS_FIELD[name] in str(q) and len(idxs) == 1 and idxs[0][0] == "param" and idxs[0][1] == 2
        ctx.ob("R03.3", f"{kc}|reads-its-own-queue", okr, f"{cb.f['file']}:{cb.f['line']}", f"consume(stream_id) dequeues from {CONS_FIELD[name]}[stream_id]")
        # ---------------- R03.2 entry points build the handle once and fan out once
        for en in ("send", "send_with", "send_with_async"):
            ke = f"{path} as {PROD}::{en}"
            eb = Body(fx.fn(ke))
            co = C01._is_coroutine_wrapper(eb)
            if co: ke = co; eb = Body(fx.fn(ke))
            mk = {b for (b, c) in eb.calls if (c.get("f") or "").endswith(("Arc::new", "OgreArc::new", "Arc::<T>::new"))}
            fo = {b for (b, c) in eb.calls if c.get("fname") == "send_derived"}
            oks = [b for (b, v, _, _) in C01.verdicts(eb) if v == "Ok"]
            ok = len(mk) == 1 and len(fo) == 1 and not any(util.in_loop(eb, b) for b in mk | fo) and bool(oks) and all(any(eb.dominates(f_, o) for f_ in fo) for o in oks)
            if ok:
                arg = D.Dag(eb).expr([c for (b, c) in eb.calls if b in fo][0]["args"][1])
                ok = C01._mentions(arg, lambda e: e[0] == "call" and e[1].split("::")[-1] == "new") or "ref" in str(arg)[:8]
            ctx.ob("R03.2", f"{ke}|one-handle-one-fan-out", ok, f"{eb.f['file']}:{eb.f['line']}", f"{len(mk)} handle construction(s), {len(fo)} send_derived call(s); every Ok answer comes after the fan-out")
    import streamrules as _S
    _S.check_consume_asks_queue(ctx, "R03.3")
    # ------------------------------------------------------------------ R03.4 refcount pre-load = copies (shared with C17 R17.2)
    C17 = importlib.import_module("props.C17")
    class OnlyRef(util.PrefixedCtx):
        def ob(self, rule, key, ok, site="", detail="", nontrivial=True, undecided=False):
            if rule == "R17.2": return super().ob(rule, key, ok, site, detail, nontrivial, undecided)
            return ok
    C17.check(OnlyRef(ctx, "R03.4"))
    # ... and the pre-load ADDS to the count: the handle given to send_derived may already be shared (a listener re-broadcasting what it received); a `store(1 + n)`
    # forgets the outstanding handles and the payload is freed while a slower listener still has its copy queued (shared with C14 R14.1)
    C14 = importlib.import_module("props.C14")
    class OnlyCount(util.PrefixedCtx):
        def ob(self, rule, key, ok, site="", detail="", nontrivial=True, undecided=False):
            if rule == "R14.1": return super().ob(rule, key, ok, site, detail, nontrivial, undecided)
            return ok
    C14.check(OnlyCount(ctx, "R03.4"))
    # ------------------------------------------------------------------ R03.5 log channel (shared with C09)
    C09 = importlib.import_module("props.C09")
    class OnlyLog(util.PrefixedCtx):
        def ob(self, rule, key, ok, site="", detail="", nontrivial=True, undecided=False):
            if rule in ("R09.1", "R09.3"): return super().ob(rule, key, ok, site, detail, nontrivial, undecided)
            return ok
    C09.check(OnlyLog(ctx, "R03.5"))
    # ------------------------------------------------------------------ R03.6 slot recycling + per-listener ring shape
    C13 = importlib.import_module("props.C13"); C02 = importlib.import_module("props.C02")
    class OnlyDealloc(util.PrefixedCtx):
        def ob(self, rule, key, ok, site="", detail="", nontrivial=True, undecided=False):
            if rule == "R13.1" and "dealloc_id" in key: return super().ob(rule, key, ok, site, detail, nontrivial, undecided)
            if rule in ("R02.1", "R02.2", "R02.3"): return super().ob(rule, key, ok, site, detail, nontrivial, undecided)
            return ok
    C13.check(OnlyDealloc(ctx, "R03.6")); C02.check(OnlyDealloc(ctx, "R03.6"))
    # ------------------------------------------------------------------ R03.7 a parked listener is told about what was queued for it (poll / waker protocol, shared with C04)
    C04 = importlib.import_module("props.C04")
    C04.check_poll_protocol(util.PrefixedCtx(ctx, "R03.7"))
    # ------------------------------------------------------------------ R03.8 the Multi API forwards to its channel unchanged
    import delegation
    for fn in ("send", "send_with", "send_derived"):
        delegation.thin(ctx, "R03.8", "multi::multi::Multi::" + fn, fn, "what a producer hands to the Multi is what the channel fans out; the answer is the channel's")
    ctx.floor("R03.8", 3)
    # ------------------------------------------------------------------ R03.10 the setter of send_with / send_with_async is consumed on every path (shared with C01 R01.9)
    C01.check_setters_consumed(ctx, "R03.10")
    # ------------------------------------------------------------------ R03.9 the fan-out list is the live-listener set: rebuilt once after every id take / release (shared with C10 R10.2)
    # (a "fast path" that patches the list in place -- truncate on drop, append on create -- relies on an ordering the recycled ids do not have and leaves a live
    #  listener out of every later fan-out although the listener set is stable from then on)
    C10 = importlib.import_module("props.C10")
    sub = util.fresh_ctx(ctx)
    C10.check(sub)
    n9 = 0
    for o in sub.obs:
        if (o["rule"] == "R10.2" and ("resyncs-live-list" in o["key"] or "takes-one-vacant-id" in o["key"] or "returns-its-id-once" in o["key"])) or o["rule"] == "R10.7" or (o["rule"] == "R10.6" and "vacant-snapshot" in o["key"]):
            n9 += 1
            ctx.ob("R03.9", o["key"].split("|", 1)[1] if o["key"].startswith(("R10.2|", "R10.7|", "R10.6|")) else o["key"], o["ok"], o["site"], o["detail"], o["nontrivial"])
    ctx.floor("R03.9", 4)
    ctx.floor("R03.7", 8)
    ctx.floor("R03.1", 18); ctx.floor("R03.2", 20); ctx.floor("R03.3", 10); ctx.floor("R03.4", 6); ctx.floor("R03.5", 10); ctx.floor("R03.6", 20)
