"""C08 - reserved slots: sent ones deliver what was written, cancelled vanish, none leak."""
import importlib
import dag as D, util, lockrules, roles as R, facts as F
from dag import strip_casts, show, norm
from mir import Body, op_local

LEVEL = "other"
EXPLANATION = ("Necessary shape conditions decided on all paths of the five channels that implement the reservation API (uni movable atomic, uni zero-copy atomic / full-sync, "
               "multi ogre_arc atomic / full-sync): (R08.1) pairing: reserve_slot answers the reference handed out by exactly one call of the container's reservation role; "
               "try_send_reserved passes through exactly one publication-role call on EVERY path (no answer -- in particular no `true` -- without it), the published slot is "
               "identified from the very reference the caller passed (directly, or through the container's ref->index / ref->id conversion), and it calls no cancel role; "
               "try_cancel_slot_reserve passes through exactly one un-reserve / deallocate role call with that same reference and no publication role; (R08.2) the rings' "
               "ref<->index conversions are inverse maps over element 0 of their own buffer; (R08.3) the lap reconstruction of the index-based publish / cancel is wrap-safe "
               "(dimension rules shared with C15) and the publication CAS is >= Release; (R08.4) capacity accounting: the rings' fullness guard counts reserved-but-unpublished "
               "slots on a wrapping distance and the counters move only through the protocol shapes (shared with C02), so after every slot was sent or cancelled exactly "
               "BUFFER_SIZE can be outstanding again. (R08.5) the Uni's reserve_slot / try_send_reserved / try_cancel_slot_reserve forward to the same-named channel method unchanged. (R08.6) in the allocator-backed Multi channels try_send_reserved answers only `true` once the reserved slot was wrapped in an owning handle (a `false` there invites the documented retry on a slot that is already consumed).")
EXPLANATION += " R08.2 accepts the power-of-two mask spelling of the index, also through a named generic constant; (R08.7) answers: try_send_reserved answers true after the publication (the arm taken on the publication's Some answer returns true, the default is false), try_cancel_slot_reserve answers the un-reserve's own boolean or true after the infallible deallocation, and the ring's try_unleak_* / try_publish_* answer true exactly on their CAS's success edge."
EXPLANATION += ' (R08.8) the poll / waker protocol of C04 (R04.1 / R04.2) under this property: a reserved send is delivered to a consumer that is about to park.'
EXPLANATION += " R08.3 also requires every candidate sequence id of try_publish_leaked_internal_index / try_unleak_slot_index_internal to be derived from the caller's slot index (never the reloaded counter itself)."
EXPLANATION += " R08.7 also requires the zero-copy containers' publish_leaked_id / publish_leaked_ref to answer the ring's own publication answer (never a length re-read afterwards); (R08.9) C14's unique -> shared conversion rules."
ASSUMPTIONS = ["the exhaustive history clause ('after any sequence ... accepts exactly BUFFER_SIZE again') is a behavioural statement; decided here are the shape conditions it stands on",
               "payload types without destructor (property's own restriction)"]

CH = ["uni.movable.atomic", "uni.zero_copy.atomic", "uni.zero_copy.full_sync", "multi.ogre_arc.atomic", "multi.ogre_arc.full_sync"]
RESERVE = {"leak_slot_internal", "leak_slot", "alloc_ref"}
PUBLISH = {"try_publish_leaked_internal_index", "publish_leaked_ref", "publish_leaked_id", "send_derived"}
CANCEL = {"try_unleak_slot_index_internal", "release_leaked_ref", "unleak_slot_ref", "dealloc_ref", "dealloc_id", "unleak_slot_id", "release_leaked_id"}
CONVERT = {"slot_index_from_slot_ref", "id_from_ref", "from_allocated"}


def _family(fx, key):
    return [f for f in fx.fns if (f.get("owner_fn") or f["key"]) == key]


def _mentions_param(e, name):
    import props.C01 as C01
    return C01._mentions(e, lambda x: x[0] == "param" and x[2] == name)


def _through_refs(dg, e, depth=0):
    """`&local` shows up as ('ref?', '(*_N)') / ('ref?', '_N'): follow it to the local's own definition"""
    import re
    while isinstance(e, tuple) and e and e[0] == "ref?" and depth < 4:
        m = re.search(r"_(\d+)", str(e[1]))
        if not m: break
        e = dg.local(int(m.group(1))); depth += 1
    return e


def check(ctx):
    fx = ctx.fx
    C01 = importlib.import_module("props.C01")
    for name in CH:
        path = R.CHANNELS[name]
        # ---------------------------------------------------------------- reserve_slot
        k = f"{path} as {R.T_PROD}::reserve_slot"
        fam = _family(fx, k)
        calls = [(f, blk["term"][1]) for f in fam for blk in f["blocks"] if blk["term"][0] == "Call"]
        res = [c for (f, c) in calls if c.get("fname") in RESERVE]
        bad = [c.get("fname") for (f, c) in calls if c.get("fname") in PUBLISH | CANCEL]
        body = Body(fx.fn(k)); dg = D.Dag(body)
        r0 = dg.local(0)
        ok = len(res) == 1 and not bad and C01._mentions(r0, lambda x: x[0] == "call" and x[1].split("::")[-1] in RESERVE)
        ctx.ob("R08.1", f"{k}|is-the-container-reservation", ok, f"{body.f['file']}:{body.f['line']}", f"reserve_slot answers `{show(r0)[:90]}`; required: the reference of exactly one container reservation ({[c.get('fname') for c in res]})")
        # ---------------------------------------------------------------- try_send_reserved
        k = f"{path} as {R.T_PROD}::try_send_reserved"
        body = Body(fx.fn(k)); dg = D.Dag(body)
        site = f"{body.f['file']}:{body.f['line']}"
        pubs = [(b, c) for (b, c) in body.calls if c.get("fname") in PUBLISH]
        cans = [(b, c) for (b, c) in body.calls if c.get("fname") in CANCEL]
        pb = {b for (b, _) in pubs}
        lo, hi, inloop = util.count_on_paths(body, lambda b: b in pb)
        ctx.ob("R08.1", f"{k}|publishes-on-every-path", (lo, hi) == (1, 1) and not inloop, body.loc(pubs[0][0]) if pubs else site,
               f"{lo}..{hi} publication-role call(s) per path; required exactly one on every path: an answer produced without publishing would report a reserved slot as sent while it is delivered to nobody and never freed")
        ctx.ob("R08.1", f"{k}|no-cancel-role", not cans, body.loc(cans[0][0]) if cans else site, "try_send_reserved calls no un-reserve / deallocate role")
        for (b, c) in pubs:
            ident = _through_refs(dg, dg.expr(c["args"][1])) if len(c["args"]) > 1 else ("?",)
            from_ref = _mentions_param(ident, "reserved_slot")
            conv_ok = True
            # conversions on the way must be the container's own ref->index / ref->id (plus the OgreArc wrapper)
            def bad_call(x):
                return x[0] == "call" and x[1].split("::")[-1] not in CONVERT | {"deref", "as_ref", "borrow"} and not x[1].startswith("std::") and not x[1].startswith("core::")
            conv_ok = not C01._mentions(ident, bad_call) and not C01._mentions(ident, lambda x: x[0] in ("bin", "un"))
            ctx.ob("R08.1", f"{k}|publishes-the-caller-s-slot", from_ref and conv_ok, body.loc(b), f"published slot identity `{show(ident)[:100]}`; required: derived from the reserved_slot reference through the container's own conversion")
        # answer: true only after the publication succeeded
        r0 = strip_casts(dg.local(0))
        if r0[0] == "call" and r0[1].endswith("unwrap_or"):
            ok_ans = strip_casts(r0[2][1]) == ("const", 0) and C01._mentions(r0[2][0], lambda x: x[0] == "call" and x[1].split("::")[-1] in PUBLISH)
            ctx.ob("R08.1", f"{k}|false-when-not-published", ok_ans, site, f"answers `{show(r0)[:100]}`: true comes from the publication's Some answer, false otherwise")
            # ... and the Some arm answers `true` (a `false` after the slot was published invites the documented retry: the same slot sent twice)
            cl = [x[1] for x in C01._walk_all(r0) if isinstance(x, tuple) and x[:1] == ("closure",)]
            vals = set()
            for ck in cl:
                cb_ = Body(fx.fn(ck)); vals |= util.returned_values(cb_, D.Dag(cb_), 0)
            ctx.ob("R08.7", f"{k}|true-when-published", bool(cl) and vals == {("const", 1)}, site, f"the arm taken on the publication's Some answer returns {sorted(map(str, vals))}; required: true")
        elif r0[0] == "call" and r0[1].split("::")[-1] in ("is_some_and", "is_ok_and", "map_or") and C01._mentions(r0, lambda x: x[0] == "call" and x[1].split("::")[-1] in PUBLISH):
            # `publication.is_some_and(|len| { ..; true })` / `.map_or(false, |len| { ..; true })`: false when nothing was published by construction of the combinator
            cl = [x[1] for x in C01._walk_all(r0) if isinstance(x, tuple) and x[:1] == ("closure",)]
            vals = set()
            for ck in cl:
                cb_ = Body(fx.fn(ck)); vals |= util.returned_values(cb_, D.Dag(cb_), 0)
            dflt_ok = r0[1].split("::")[-1] != "map_or" or strip_casts(r0[2][1]) == ("const", 0)
            ctx.ob("R08.7", f"{k}|true-when-published", bool(cl) and vals == {("const", 1)} and dflt_ok, site, f"the closure run on the publication's Some answer returns {sorted(map(str, vals))}; required: true (and false otherwise)")
        else:
            consts = [st[2][1][1].get("int") for b in body.reachable for st in body.stmts(b) if st[0] == "A" and not st[1]["p"] and st[1]["l"] == 0 and st[2][0] == "Use" and st[2][1][0] == "k"]
            ctx.ob("R08.1", f"{k}|answer-after-publication", bool(pubs) and all(all(body.dominates(p, b) for p in pb) for b in body.reachable for st in body.stmts(b) if st[0] == "A" and not st[1]["p"] and st[1]["l"] == 0),
                   site, f"constant answer(s) {consts} are produced only after the publication call")
            # `match publication { Some(len) => { ..; true }, None => false }`: true on the success edge, false on the failure edge; no outcome test = infallible: true
            sws = [p_ for p_ in C01.pub_switches(body, dg) if p_["role"] != "is_full"]
            for x_ in sorted(body.reachable):
                vs_ = util.variant_switch(body, dg, x_)
                if vs_ and not vs_[4] and body.locals[vs_[3]]["ty"].startswith("std::option::Option") and C01._mentions(vs_[0], lambda z: z[0] == "call" and z[1].split("::")[-1] in PUBLISH) \
                   and not any(p_["b"] == x_ for p_ in sws):
                    sws.append({"b": x_, "success": vs_[1].get(1, vs_[2]), "failure": vs_[1].get(0, vs_[2]), "role": "publish"})
            if sws:
                ok7 = all(util.returned_values(body, dg, p_["success"]) == {("const", 1)} and util.returned_values(body, dg, p_["failure"]) <= {("const", 0)} for p_ in sws)
                ctx.ob("R08.7", f"{k}|true-when-published", ok7, site, "true on the publication's success edge, false on its failure edge")
            else:
                ctx.ob("R08.7", f"{k}|true-when-published", bool(consts) and all(c_ == 1 for c_ in consts), site, f"answers {consts} after the (infallible) publication; required: true")
        # ---------------------------------------------------------------- try_cancel_slot_reserve
        k = f"{path} as {R.T_PROD}::try_cancel_slot_reserve"
        body = Body(fx.fn(k)); dg = D.Dag(body)
        site = f"{body.f['file']}:{body.f['line']}"
        pubs = [(b, c) for (b, c) in body.calls if c.get("fname") in PUBLISH]
        cans = [(b, c) for (b, c) in body.calls if c.get("fname") in CANCEL]
        cb = {b for (b, _) in cans}
        lo, hi, inloop = util.count_on_paths(body, lambda b: b in cb)
        ctx.ob("R08.1", f"{k}|un-reserves-on-every-path", (lo, hi) == (1, 1) and not inloop, body.loc(cans[0][0]) if cans else site, f"{lo}..{hi} un-reserve / deallocate role call(s) per path; required exactly one")
        ctx.ob("R08.1", f"{k}|no-publication-role", not pubs, body.loc(pubs[0][0]) if pubs else site, "a cancelled reservation is never published")
        # answer: the un-reserve role's own bool, or `true` after an infallible deallocation
        r0c = strip_casts(dg.local(0))
        if r0c[0] == "call" and r0c[1].split("::")[-1] in CANCEL:
            ctx.ob("R08.7", f"{k}|answers-the-un-reserve-s-answer", True, site, f"answers `{show(r0c)[:80]}`", nontrivial=False)
        else:
            vals_ = util.returned_values(body, dg, 0)
            ctx.ob("R08.7", f"{k}|true-when-cancelled", vals_ == {("const", 1)}, site, f"answers {sorted(map(str, vals_))} after the slot was given back; required: true (a `false` invites a second cancel of a slot somebody else may own by then)")
        for (b, c) in cans:
            ident = dg.expr(c["args"][1]) if len(c["args"]) > 1 else ("?",)
            ctx.ob("R08.1", f"{k}|cancels-the-caller-s-slot", _mentions_param(ident, "reserved_slot"), body.loc(b), f"cancelled slot identity `{show(ident)[:100]}`")
    # ------------------------------------------------------------------ R08.7 the ring's non-spinning publish / un-reserve answer their CAS
    for fn, field in (("try_unleak_slot_internal", "enqueuer_tail"), ("try_unleak_slot_index_internal", "enqueuer_tail"), ("try_publish_leaked_internal", "tail")):
        kk = f"{R.AM}::{fn}"
        f_ = fx.fn_opt(kk)
        if f_ is None: continue
        bb = Body(f_); bd_ = D.Dag(bb)
        cas = [(b, c) for (b, c) in bb.calls if (R.atomic_target(bb, c) or (0, 0, ""))[1:2] == (field,) and "compare_exchange" in (R.atomic_target(bb, c) or (0, 0, ""))[2]]
        good = bool(cas)
        det = []
        cas_blocks = frozenset(b for (b, _) in cas)
        def consts_in(blocks):
            return {st[2][1][1].get("int") for x in blocks for st in bb.stmts(x) if st[0] == "A" and not st[1]["p"] and st[1]["l"] == 0 and st[2][0] == "Use" and st[2][1][0] == "k"}
        for (b, c) in cas:
            if c["dst"]["p"]: continue
            for (tb, ok_t, err_t) in util.option_test_edges(bb, bd_, c["dst"]["l"]):
                if ok_t == err_t: continue
                v_ok = util.returned_values(bb, bd_, ok_t)
                v_err = consts_in((bb.reach_from(err_t, avoid=cas_blocks) | {err_t}) - (bb.reach_from(ok_t, avoid=cas_blocks) | {ok_t}))      # answers produced without a new attempt
                det.append((sorted(map(str, v_ok)), sorted(v_err, key=str)))
                if v_ok != {("const", 1)} or 1 in v_err: good = False
        ctx.ob("R08.7", f"{kk}|answers-its-cas", good, f"{bb.f['file']}:{bb.f['line']}", f"answer on the CAS success edge / constants on the failure side: {det}; required: true exactly when the CAS succeeded")
    # ------------------------------------------------------------------ R08.8 a reserved send is delivered to a concurrently polling consumer (poll / waker protocol, shared with C04)
    # ('a slot for which try_send_reserved answered true is delivered': the consumer that found the channel empty and is about to park learns of it through the
    #  registration's self-wake, exactly as for a plain send)
    import importlib as _il
    _il.import_module("props.C04").check_poll_protocol(util.PrefixedCtx(ctx, "R08.8"))
    ctx.floor("R08.8", 8)
    # 'one owner per pool slot' across the OgreUnique -> OgreArc conversion (shared with C14 R14.5 / R14.8): a conversion that lets the unique handle's Drop run frees
    # the slot the new shared handle still owns -- the slot is handed out twice (two accepted events in one slot) and freed twice
    __import__("importlib").import_module("props.C14").check_unique_to_shared(ctx, "R08.9")
    # ------------------------------------------------------------------ R08.7 (containers) the zero-copy containers answer the ring's own publication answer
    # (`publish_leaked_id` / `publish_leaked_ref` return what `queue.publish_movable(id)` answered -- `Some(len)` exactly when the id went in.  An answer recomputed afterwards
    #  from a fresh length query is `None` whenever a consumer already took the element: try_send_reserved then says "retry" for a slot that WAS published, and the retry
    #  publishes -- and later frees -- it a second time)
    n87 = 0
    for adt in (R.AZC, R.FZC):
        for fn in ("publish_leaked_id", "publish_leaked_ref"):
            for k87 in [x for x in fx.by_key if x.startswith(adt + " as ") and x.endswith("::" + fn)]:
                b87 = Body(fx.fn(k87)); d87 = D.Dag(b87)
                r87 = strip_casts(d87.local(0))
                alts = r87[3] if r87[0] == "phi" and len(r87) > 3 else (r87,)
                def from_pub(e):
                    return C01._mentions(e, lambda x: x[0] == "call" and x[1].split("::")[-1] in ("publish_movable", "publish_leaked_id")) and \
                           not C01._mentions(e, lambda x: x[0] == "call" and x[1].split("::")[-1] in ("available_elements_count", "len", "remaining_elements_count"))
                ok87 = bool(alts) and all(from_pub(a) for a in alts)
                n87 += 1
                ctx.ob("R08.7", f"{k87}|answers-the-ring-s-publication-answer", ok87, f"{b87.f['file']}:{b87.f['line']}", f"answers `{show(r87)[:100]}`; required: the answer of queue.publish_movable(id) itself")
    ctx.ob("R08.7", "container-publication-answers|instances", n87 >= 4, "", f"{n87} container publication answers", nontrivial=False)
    # ------------------------------------------------------------------ R08.2 ring ref<->index inverses
    for adt in (R.AM, R.FSM):
        k1, k2 = f"{adt}::slot_index_from_slot_ref", f"{adt}::slot_ref_from_slot_index"
        b1 = Body(fx.fn(k1)); d1 = D.Dag(b1); s1 = show(d1.local(0)); e1 = d1.local(0)
        ok1 = C01._mentions(e1, lambda x: x[0] == "call" and x[1].endswith("offset_from")) and "buffer" in str(e1) and C01._mentions(e1, lambda x: x[0] == "param" and x[1] == 2)
        ctx.ob("R08.2", f"{k1}|offset-from-buffer-base", ok1, f"{b1.f['file']}:{b1.f['line']}", f"index = `{s1[:110]}`; required: offset of the reference from element 0 of the ring's own buffer")
        b2 = Body(fx.fn(k2)); d2 = D.Dag(b2); e2 = d2.local(0)
        idx = [(b, c) for (b, c) in b2.calls if c.get("fname") in ("get_unchecked", "get_unchecked_mut")]
        ok2 = len(idx) == 1 and "buffer" in str(util.arg_path(b2, idx[0][1], 0))
        if ok2:
            i = strip_casts(d2.expr(idx[0][1]["args"][1]))
            base_ = util.ring_index_base(i)
            ok2 = (base_ is not None and base_[0] == "param") or i[0] == "param"
        ctx.ob("R08.2", f"{k2}|indexes-own-buffer", ok2, f"{b2.f['file']}:{b2.f['line']}", "reference = buffer[index % BUFFER_SIZE] of the same buffer")
    # ------------------------------------------------------------------ R08.3 lap reconstruction: wrap safety + Release publication
    C15 = importlib.import_module("props.C15")
    class Idx(util.PrefixedCtx):
        def ob(self, rule, key, ok, site="", detail="", nontrivial=True, undecided=False):
            if rule in ("R15.1", "R15.2") and ("try_publish_leaked_internal_index" in key or "try_unleak_slot_index_internal" in key): return super().ob(rule, key, ok, site, detail, nontrivial, undecided)
            return ok
    C15.check(Idx(ctx, "R08.3"))
    for fn in ("try_publish_leaked_internal_index", "try_publish_leaked_internal"):
        k = f"{R.AM}::{fn}"
        body = Body(fx.fn(k))
        for (b, c) in body.calls:
            at = R.atomic_target(body, c)
            if at and at[1] == "tail" and at[2].startswith("compare_exchange"):
                o = lockrules.ordering_of(body, c["args"][3])
                ctx.ob("R08.3", f"{k}|publication-cas-release", o in lockrules.ORD_OK_REL, body.loc(b), f"publication CAS success ordering {o}; required >= Release (the consumer must see what was written into the reserved slot)")
    # ... and the sequence id the index API tries is always rebuilt FROM THE CALLER'S INDEX: every value the loop-carried candidate takes is `slot_index` or
    # `slot_index + lap * BUFFER_SIZE`.  A candidate taken from the reloaded counter itself ("tail is the only id publishable now") publishes / cancels whatever slot is
    # next in line -- another producer's, still unwritten -- and answers true for the caller's
    for fn, field in (("try_publish_leaked_internal_index", "tail"), ("try_unleak_slot_index_internal", "enqueuer_tail")):
        k = f"{R.AM}::{fn}"
        f_ = fx.fn_opt(k)
        if f_ is None: continue
        body = Body(f_); dg = D.Dag(body)
        for (b, c) in body.calls:
            at = R.atomic_target(body, c)
            if not (at and at[1] == field and at[2].startswith("compare_exchange")): continue
            exprs = [dg.expr(c["args"][1]), dg.expr(c["args"][2])]
            phis = []
            def collect(e, depth=0):
                if not isinstance(e, tuple) or depth > 30: return
                if e and e[0] == "phi" and len(e) > 3:
                    if e not in phis: phis.append(e)
                    return
                for x in e:
                    if isinstance(x, tuple): collect(x, depth + 1)
            for e in exprs: collect(e)
            def from_index(e):
                return C01._mentions(e, lambda x: x[0] == "param" and x[1] == 2)
            bad = [a for ph in phis for a in ph[3] if not from_index(a) and not (strip_casts(a)[:2] == ("phi", ph[1]))]
            direct = any(from_index(e) for e in exprs)
            ctx.ob("R08.3", f"{k}|candidate-id-is-rebuilt-from-the-caller-s-index", (bool(phis) or direct) and not bad, body.loc(b),
                   "every candidate sequence id is slot_index (+ lap * BUFFER_SIZE)" if not bad else f"a candidate id is `{show(bad[0])[:90]}`: not derived from the caller's slot index")
    # ------------------------------------------------------------------ R08.4 capacity accounting (shared with C02)
    C02 = importlib.import_module("props.C02")
    class Cap(util.PrefixedCtx):
        def ob(self, rule, key, ok, site="", detail="", nontrivial=True, undecided=False):
            if rule in ("R02.1", "R02.2"): return super().ob(rule, key, ok, site, detail, nontrivial, undecided)
            return ok
    C02.check(Cap(ctx, "R08.4"))
    # ------------------------------------------------------------------ R08.6 an answer other than `true` leaves the reservation with the caller
    # the allocator-backed Multi channels wrap the reserved slot in an owning handle (OgreArc::from_allocated) before fanning it out: from that point the slot is
    # consumed (the handle's drop frees it when no listener took a copy), so the only honest answer is `true` -- `false` invites the documented retry, which
    # sends / frees the same slot a second time
    for name in ("multi.ogre_arc.atomic", "multi.ogre_arc.full_sync"):
        k6 = f"{R.CHANNELS[name]} as {R.T_PROD}::try_send_reserved"
        b6 = Body(fx.fn(k6)); d6 = D.Dag(b6)
        own = [(b, c) for (b, c) in b6.calls if c.get("fname") in ("from_allocated", "from_allocated_with_clones", "from_allocated_id", "from_allocated_ref")]
        if not own:
            ctx.ob("R08.6", f"{k6}|consumed-means-true", False, f"{b6.f['file']}:{b6.f['line']}", "no owning handle is built for the reserved slot"); continue
        vals = set()
        for (ob_, _) in own: vals |= util.returned_values(b6, d6, ob_)
        ctx.ob("R08.6", f"{k6}|consumed-means-true", vals == {("const", 1)}, b6.loc(own[0][0]),
               f"answers after the slot was wrapped in an owning handle: {sorted(map(str, vals))}; required: only `true`")
    ctx.floor("R08.6", 2)
    # ------------------------------------------------------------------ R08.5 the Uni reservation API forwards to its channel unchanged
    import delegation
    for fn in ("reserve_slot", "try_send_reserved", "try_cancel_slot_reserve"):
        delegation.thin(ctx, "R08.5", "uni::uni::Uni as uni::uni::GenericUni::" + fn, fn, "a swapped or re-answered forwarder sends what should be cancelled")
    ctx.floor("R08.5", 3)
    ctx.floor("R08.1", 35); ctx.floor("R08.2", 4); ctx.floor("R08.3", 6 if ctx.config == "lib" else 2); ctx.floor("R08.4", 14)
