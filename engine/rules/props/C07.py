"""C07 - cancel / end terminates exactly the targeted streams, even parked ones."""
import importlib
import dag as D, util, guards, streamrules as S, roles as R, facts as F
from dag import strip_casts, show, norm
from mir import Body, op_local

LEVEL = "other"
EXPLANATION = ("Protocol shape decided on all paths: (R07.1) cancel_stream clears keep_streams_running[id] for exactly the id it was given and only then wakes that same "
               "stream (clear-then-wake: a stream woken first would re-check a flag that is still true and park again); (R07.2) cancel_all_streams visits every entry of the "
               "live-stream list up to the sentinel and cancels each; (R07.3) together with the poll protocol shared with C04 (Pending only after the waker was registered; "
               "every store of a waker is followed by a self-wake) a cancel that lands before the registration is caught by the self-wake and one that lands after it by the "
               "direct wake -- a complete argument for a parked or about-to-park stream; poll_next answers end-of-stream exactly when it found nothing buffered and the flag "
               "is false; (R07.4) end_stream cancels its target on EVERY path (no answer is produced without the cancel), then re-wakes the target on each iteration of a loop "
               "that is left only when the stream's id is vacant again or under `timeout != ZERO`, and the cancel is never repeated from inside that loop (a vacant id may already belong to "
               "a stream nobody targeted); (R07.5) the id becomes reusable on drop: Drop for MutinyStream -> "
               "drop_resources -> report_stream_dropped -> vacant FIFO, for all 11 channels; nothing but the addressed flag is written by a cancel. Every channel's cancel_all_streams forwards to the manager's sweep.")
EXPLANATION += " R07.2 checks the polarity of the sentinel test (the sweep is left on the sentinel side, cancels happen on the live side); R07.3 carries C04's R04.7 (complete wake primitive) and the lock discipline of R04.2; R07.4 also checks the answers of end_stream (true on the vacant exit, false on the timeout exit) and that the vacancy predicate compares a vacant id with the caller's stream id for equality."
EXPLANATION += ' (R07.6) every executor the old/new spawners start is registered under the id of the very stream it consumes (cancel-by-name ends that stream): shared with C12 R12.10.'
EXPLANATION += " R07.3 also imports C06's R06.1 for end_all_streams: every stream is told to end before the wait loop, whatever the timeout."
ASSUMPTIONS = ["executors honour the Waker contract; a spurious will_wake answer of a foreign waker is outside the statement"]

SM, STREAM = R.SM, R.STREAM


def check(ctx):
    fx = ctx.fx
    # ------------------------------------------------------------------ R07.1 cancel_stream
    k = SM + "::cancel_stream"
    body = Body(fx.fn(k)); dg = D.Dag(body)
    site = f"{body.f['file']}:{body.f['line']}"
    wr = [a for a in guards.accesses(body, SM, {"keep_streams_running"}) if a["kind"] == "w"]
    wk = [(b, c) for (b, c) in body.calls if (c.get("resolved") or c.get("f")) == SM + "::wake_stream"]
    ok = len(wr) >= 1 and len(wk) == 1
    ctx.ob("R07.1", f"{k}|clear-and-wake-present", ok, site, f"{len(wr)} flag write(s), {len(wk)} wake")
    if ok:
        wb = wk[0][0]
        first = all(body.dominates(a["b"], wb) and (a["b"] != wb or a["i"] != "T") for a in wr)
        ctx.ob("R07.1", f"{k}|clear-then-wake", first and util.on_every_return_path(body, wb), body.loc(wb), "the flag is cleared before the wake, and the wake happens on every path")
        tgt = strip_casts(dg.expr(wk[0][1]["args"][1]))
        ctx.ob("R07.1", f"{k}|wakes-the-addressed-stream", tgt[0] == "param" and tgt[1] == 2, body.loc(wb), f"wake_stream({show(tgt)}); required: the stream id parameter")
        # the stored value is `false` and the index is the parameter
        vals = []; idxs = []
        for (b_, cont_, idx_, rv_) in util.element_stores(body, dg):
            vals.append(strip_casts(dg.expr(rv_[1])) if rv_[0] == "Use" else ("?",))
            idxs.append(idx_)
        okv = bool(vals) and all(v == ("const", 0) for v in vals) and all(i[0] == "param" and i[1] == 2 for i in idxs)
        ctx.ob("R07.1", f"{k}|only-the-addressed-flag-is-cleared", okv, site, f"writes {[(show(i), show(v)) for i, v in zip(idxs, vals)]}; required: keep_streams_running[stream_id] = false and nothing else")
    # ------------------------------------------------------------------ R07.2 cancel_all_streams
    k = SM + "::cancel_all_streams"
    body = Body(fx.fn(k)); dg = D.Dag(body)
    cs = [(b, c) for (b, c) in body.calls if (c.get("resolved") or c.get("f")) == SM + "::cancel_stream"]
    inlined_cancel = False
    if not cs:
        # cancel_stream's two steps spelled out in the loop: `keep_streams_running[id] = false` dominating `wake_stream(id)` for the same entry: the wake stands for the cancel
        sts_ = [(b_, c_, i_, rv_) for (b_, c_, i_, rv_) in util.element_stores(body, dg) if "keep_streams_running" in show(c_) or "keep_streams_running" in str(c_)]
        wks_ = [(b, c) for (b, c) in body.calls if (c.get("resolved") or c.get("f")) == SM + "::wake_stream"]
        if len(sts_) == 1 and len(wks_) == 1:
            sb_, _, idx_, rv_ = sts_[0]
            val_ = strip_casts(dg.expr(rv_[1])) if rv_[0] == "Use" else ("?",)
            same = D.norm(strip_casts(idx_)) == D.norm(strip_casts(dg.expr(wks_[0][1]["args"][1])))
            if val_ == ("const", 0) and same and body.dominates(sb_, wks_[0][0]):      # (a statement of the wake's own block precedes the call, which is its terminator)
                cs = wks_; inlined_cancel = True
    ok = len(cs) == 1 and util.in_loop(body, cs[0][0])
    ctx.ob("R07.2", f"{k}|cancels-in-a-loop", ok, f"{body.f['file']}:{body.f['line']}", "cancel_stream is called once per iteration over the live-stream list")
    if ok:
        cb = cs[0][0]
        h = [h for h, bl in body.loops.items() if cb in bl][0]
        arg = dg.expr(cs[0][1]["args"][1])
        from_list = "used_streams" in str(arg) or "slice::Iter" in str(arg)
        ctx.ob("R07.2", f"{k}|cancels-each-listed-id", from_list, body.loc(cb), "the id cancelled is the entry read from the live-stream list")
        # exits: iterator exhausted or sentinel; the cancel is on every path of an iteration that read a non-sentinel id
        exits = [(x, y) for (x, y) in body.loop_exits(h) if y in body.can_return]
        good = True
        for (x, y) in exits:
            vs = util.variant_switch(body, dg, x)
            c = D.cmp_of_switch(body, dg, x)
            is_iter_end = bool(vs) and "next" in show(vs[0]) and vs[1].get(0, vs[2]) == y
            se = util.sentinel_edges(body, dg, x)
            is_sentinel = se is not None and se[0] == y and se[0] != se[1]
            good = good and (is_iter_end or is_sentinel or util.counter_bound_exit(body, dg, x, y))      # (hand-written index loop: `while i < MAX_STREAMS`)
        ctx.ob("R07.2", f"{k}|loop-ends-only-at-end-of-list", good and bool(exits), body.loc(h), "the sweep stops only when the list is exhausted or at the u32::MAX sentinel (no early break)")
        ctx.ob("R07.2", f"{k}|cancels-live-entries", util.on_live_side_of_sentinel_tests(body, dg, cb, body.loops[h]), body.loc(cb), "the cancel happens where the entry is a stream id, not the sentinel")
        lo, hi = util.count_per_iteration(body, h, lambda b: b == cb)
        ctx.ob("R07.2", f"{k}|one-cancel-per-iteration", (lo, hi) == (1, 1), body.loc(cb), f"{lo}..{hi} cancels per completed iteration")
    # ------------------------------------------------------------------ R07.3 poll protocol (shared with C04)
    C04 = importlib.import_module("props.C04")
    C04.check_poll_protocol(util.PrefixedCtx(ctx, "R07.3"))
    C06 = importlib.import_module("props.C06")
    class Only(util.PrefixedCtx):
        def ob(self, rule, key, ok, site="", detail="", nontrivial=True, undecided=False):
            if rule == "R06.2": return super().ob(rule, key, ok, site, detail, nontrivial, undecided)
            if rule == "R06.1" and "::end_all_streams::" in key: return super().ob(rule, key, ok, site, detail, nontrivial, undecided)   # every stream is TOLD to end (cancel before the wait loop), whatever the timeout
            if rule == "R06.3" and "::gracefully_end_stream::" in key: return super().ob(rule, key, ok, site, detail, nontrivial, undecided)   # the end request reaches end_stream with the caller's id
            return ok
    C06.check(Only(ctx, "R07.3"))
    # ------------------------------------------------------------------ R07.4 end_stream
    k = SM + "::end_stream::{closure#0}"
    body = Body(fx.fn(k)); dg = D.Dag(body)
    site = f"{body.f['file']}:{body.f['line']}"
    cs = [(b, c) for (b, c) in body.calls if (c.get("resolved") or c.get("f")) == SM + "::cancel_stream"]
    rets = S.ret_assignments(body)
    ok = len(cs) == 1 and bool(rets) and all(body.dominates(cs[0][0], rb) for (rb, _) in rets)
    ctx.ob("R07.4", f"{k}|cancel-on-every-path", ok, body.loc(cs[0][0]) if cs else site,
           "every answer of end_stream is produced after cancel_stream(target): the stream is told to end whatever the flush reported" if ok else
           "an answer is produced without cancelling the target: the stream drains and parks again instead of ending")
    if cs:
        tgt = show(dg.expr(cs[0][1]["args"][1]))
        ctx.ob("R07.4", f"{k}|cancels-its-target", "stream_id" in tgt and util.plain_forward(dg.expr(cs[0][1]["args"][1])), body.loc(cs[0][0]), f"cancel_stream({tgt}); required: the caller's stream id, unchanged")
        is_wake = lambda c: (c.get("resolved") or c.get("f")) == SM + "::wake_stream"
        h = S.wait_loop_of(body, is_wake)
        if h is None or not body.dominates(cs[0][0], h):
            ctx.ob("R07.4", f"{k}|re-wake-loop", False, site, "no loop after the cancel that keeps waking the target until it has ended")
        else:
            wk = [(b, c) for (b, c) in body.calls if is_wake(c) and b in body.loops[h]]
            lo, hi = util.count_per_iteration(body, h, lambda b: any(b == x for (x, _) in wk))
            ctx.ob("R07.4", f"{k}|wakes-every-iteration", lo >= 1 and all("stream_id" in show(dg.expr(c["args"][1])) and util.plain_forward(dg.expr(c["args"][1])) for (_, c) in wk), body.loc(wk[0][0]), "the target is woken on every iteration of the wait loop")
            def vacant_edge(x, y):
                t = body.term(x)
                if t[0] != "Switch" or t[5] != "bool": return False
                e = strip_casts(dg.expr(t[1]))
                if e[0] != "call" or y != t[3]: return False
                # the vacancy predicate: a closure of end_stream or a crate fn, whose body reads the vacant-id FIFO
                ck = e[1]
                if e[1] in ("std::ops::Fn::call", "std::ops::FnMut::call_mut", "std::ops::FnOnce::call_once") and e[2] and strip_casts(e[2][0])[0] in ("closure", "ref"):
                    c0 = strip_casts(e[2][0]); ck = c0[1] if c0[0] == "closure" else ck
                fam = [g for g in fx.fns if g["key"] == ck or g["key"].startswith(ck + "::{closure#")]
                return "{closure#0}" in e[1] or any("vacant_streams" in str(g["blocks"]) for g in fam)
            ex = S.classify_exits(body, dg, h, vacant_edge)
            for (a, b_, kind) in ex:
                ctx.ob("R07.4", f"{k}|exit|{kind}", kind in ("success", "timeout"), body.loc(a),
                       {"success": "leaves the loop when the target's id is vacant again", "timeout": "leaves the loop only under `timeout != Duration::ZERO`", "other": "leaves the wait loop although the stream has not ended and no timeout was requested"}[kind])
                if kind in ("success", "timeout"):
                    vals = util.returned_values(body, dg, b_)
                    want = ("const", 1) if kind == "success" else ("const", 0)
                    ctx.ob("R07.4", f"{k}|answer|{kind}", vals == {want}, body.loc(a), f"answers {sorted(map(str, vals))} on the {kind} exit; required {'true (the stream ended)' if kind == 'success' else 'false (it did not end in time)'}")
            # the vacancy predicate asks about the caller's stream id: some body of end_stream compares a vacant id with the stream_id parameter for equality
            eqs = 0; neqs = 0
            for g in [g for g in fx.fns if (g.get("owner_fn") or g["key"]) == k.split("::{closure#")[0]]:
                gb = Body(g); gd = D.Dag(gb)
                for x in gb.reachable:
                    for st in gb.stmts(x):
                        if st[0] == "A" and st[2][0] == "Bin" and st[2][1] in ("Eq", "Ne"):
                            txt = show(gd.rvalue((x, gb.stmts(x).index(st), st[2]), 0))
                            if "stream_id" in txt and ("vacant" in txt or "param" in str(gd.rvalue((x, gb.stmts(x).index(st), st[2]), 0))):
                                if st[2][1] == "Eq": eqs += 1
                                else: neqs += 1
            if eqs + neqs:
                ctx.ob("R07.4", f"{k}|vacancy-asks-for-the-target-id", eqs >= 1 and neqs == 0, site, f"{eqs} equality / {neqs} inequality comparison(s) of a vacant id with stream_id; required: `vacant id == stream_id`")
    S.check_cancel_not_repeated(ctx, "R07.4")
    # ------------------------------------------------------------------ R07.5 id reusable on drop
    S.check_release_all_channels(ctx, "R07.5")
    S.check_drain_before_release(util.PrefixedCtx(ctx, "R07.5"), "drop")
    k = f"{STREAM} as std::ops::Drop::drop"
    body = Body(fx.fn(k)); dg = D.Dag(body)
    dr = [(b, c) for (b, c) in body.calls if c.get("fname") == "drop_resources"]
    ok = len(dr) == 1 and util.on_every_return_path(body, dr[0][0]) and "stream_id" in show(dg.expr(dr[0][1]["args"][1])) and util.plain_forward(dg.expr(dr[0][1]["args"][1]))
    ctx.ob("R07.5", f"{k}|drop-gives-the-id-back", ok, f"{body.f['file']}:{body.f['line']}", "dropping a stream calls drop_resources(its own id) on every path")
    # every channel's cancel_all_streams is the manager's sweep
    import delegation
    for name, path in R.CHANNELS.items():
        delegation.thin(ctx, "R07.2", f"{path} as {R.T_COMMON}::cancel_all_streams", "cancel_all_streams", "the channel-level cancel is the streams manager's sweep over every live stream")
    # R07.6 'exactly the targeted streams': cancel-by-name ends the stream the executor was registered under -- every executor is registered under the id of the stream
    # it consumes (shared with C12 R12.10)
    __import__("importlib").import_module("props.C12").check_executor_stream_pairing(ctx, "R07.6")
    ctx.floor("R07.6", 10)
    ctx.floor("R07.1", 4); ctx.floor("R07.2", 4); ctx.floor("R07.3", 8); ctx.floor("R07.4", 5); ctx.floor("R07.5", 12)
