"""C06 - graceful close returns only after every accepted event has been processed."""
import dag as D, util, guards, streamrules as S, roles as R, facts as F
from dag import strip_casts, show, norm
from mir import Body, op_local

LEVEL = "other"
EXPLANATION = ("Necessary shape conditions decided on all paths of the close machinery: (R06.1) in StreamsManagerBase::flush every loop exit other than the one taken on "
               "`pending_items_count == 0` (which answers 0) is control-dependent on `timeout != Duration::ZERO`; in end_all_streams the first cancel_all_streams is preceded by "
               "a flush, a wait loop follows the last cancel_all_streams, that loop is left only on `running_streams_count() == 0` or under `timeout != ZERO`, and EVERY value "
               "the function returns is produced after that loop -- so with an unbounded timeout the function returns only through 'nothing pending' and 'no stream running'; "
               "(R06.2) MutinyStream::poll_next consults the keep-running flag only after the consume attempt answered empty (buffered events are drained first) and answers "
               "end-of-stream only when the flag is false; (R06.3) Uni::close / Multi::close answer `gracefully_end_all_streams(timeout).await == 0` and all 11 "
               "gracefully_end_all_streams hand their own pending_items_count to end_all_streams; (R06.4) is_channel_open is is_any_stream_running in all 11 channels and "
               "cancel_stream clears the very flag keep_stream_running reads; (R06.5) the running-stream count drops only when a MutinyStream object is dropped: "
               "drop_resources is called only by Drop for MutinyStream (a stream that gave its id back when it answered end-of-stream would let close return while pipeline "
               "futures still hold events); (R06.6) the helpers the close machinery stands on: wake_all_streams / is_any_stream_running visit every id of 0..MAX_STREAMS, "
               "keep_stream_running(id) reads its own flag, and every channel's pending_items_count is its container's length query (Multi: the maximum over the live listeners).")
EXPLANATION += ' R06.6 also checks that the sweeps (wake_all_streams / is_any_stream_running) are left only at the end of the range (sentinel side) and that the query answers true exactly on a running stream and false after the loop; (R06.7) what flush / close wait for on a Multi: pending_items_count walks the live listeners up to the sentinel (take_while `id != u32::MAX`), reads the queue of the visited id and aggregates with max, in all six Multi channels.'
EXPLANATION += " (R06.8) the backlog close waits for is what the containers really hold: the rings' length / emptiness queries are the exact wrap-safe forms (C02 R02.2 / R02.5) and the log's published tail never runs ahead of a slot still being written (C09 R09.1 / R09.3)."
EXPLANATION += ' R06.3 requires close to compare the AWAITED answer of gracefully_end_all_streams with 0; R06.6 requires the Multi pending count to be the maximum of the per-listener lengths with nothing added; (R06.9) no call in the library creates a future and drops it unpolled (a forgotten `.await` silenced by `_ =`).'
EXPLANATION += " R06.1 also requires every flush of the close path to be handed the caller's timeout itself (ZERO means unbounded: a recomputed remaining budget that saturates at ZERO never returns); R06.5 also imports C10's R10.2 (report_stream_dropped only from drop_resources)."
ASSUMPTIONS = ["timing is not decided", "'fully processed by the pipeline' relies on the executor dropping the stream only after the pipeline finished: futures' for_each_concurrent drops "
               "the source stream once it is exhausted while item futures may still be in flight -- that gap lives inside the futures crate and is recorded as an undetected limitation"]

SM, STREAM = R.SM, R.STREAM


def _pending_gt0(body, dg, b):
    """block b ends in `<x> > 0` (canonical 0 < x): returns (x expr, true target, false target)"""
    c = D.cmp_of_switch(body, dg, b)
    if not c: return None
    cop, lo, hi = D.canon_cmp(c[0], c[1], c[2])
    if cop == "lt" and strip_casts(lo) == ("const", 0): return (strip_casts(hi), c[3], c[4])
    if cop == "ne" and ("const", 0) in (strip_casts(lo), strip_casts(hi)): return (strip_casts(hi if strip_casts(lo) == ("const", 0) else lo), c[3], c[4])
    if cop == "eq" and ("const", 0) in (strip_casts(lo), strip_casts(hi)): return (strip_casts(hi if strip_casts(lo) == ("const", 0) else lo), c[4], c[3])
    return None


_IMPORTING_C10 = False


def check(ctx):
    fx = ctx.fx
    # ------------------------------------------------------------------ R06.1 flush
    k = SM + "::flush::{closure#0}"
    body = Body(fx.fn(k)); dg = D.Dag(body)
    site = f"{body.f['file']}:{body.f['line']}"
    is_counter = lambda c: c.get("f") in ("std::ops::Fn::call",) and "pending_items_counter" in show(dg.expr(c["args"][0]))
    h = S.wait_loop_of(body, is_counter)
    if h is None:
        ctx.ob("R06.1", f"{k}|wait-loop", False, site, "no loop that polls the pending-items counter")
    else:
        tests = [(b, _pending_gt0(body, dg, b)) for b in sorted(body.loops[h]) if _pending_gt0(body, dg, b)]
        tests = [(b, t) for (b, t) in tests if "pending_items_counter" in show(t[0])]
        ctx.ob("R06.1", f"{k}|pending-test-exact", len(tests) == 1, body.loc(tests[0][0]) if tests else site, f"{len(tests)} test(s) of the form `pending_items_count > 0` inside the loop; required exactly one")
        if len(tests) == 1:
            tb, (x, gt_t, zero_t) = tests[0]
            ex = S.classify_exits(body, dg, h, lambda a, b_: a == tb and b_ == zero_t or body.dominates(zero_t, a) and zero_t not in body.loops[h])
            for (a, b_, kind) in ex:
                ctx.ob("R06.1", f"{k}|exit|{kind}", kind in ("success", "timeout"), body.loc(a),
                       {"success": "leaves the loop when nothing is pending", "timeout": "leaves the loop only under `timeout != Duration::ZERO`",
                        "other": "this exit of the flush loop is taken although items are pending and no timeout was requested: with an unbounded timeout flush must only return on `pending == 0`"}[kind])
            ctx.ob("R06.1", f"{k}|has-success-exit", any(kd == "success" for (_, _, kd) in ex), site, "the loop can end on `pending == 0`", nontrivial=False)
            for (rb, rv) in S.ret_assignments(body):
                if body.dominates(zero_t, rb) and zero_t not in body.loops[h]:
                    okz = rv[0] == "Use" and rv[1][0] == "k" and rv[1][1].get("int") == 0
                    ctx.ob("R06.1", f"{k}|success-answers-zero", okz, body.loc(rb), "on the `pending == 0` exit flush answers 0")
            wk = [(b, c) for (b, c) in body.calls if c.get("fname") == "wake_all_streams" and b in body.loops[h]]
            ctx.ob("R06.1", f"{k}|wakes-while-pending", bool(wk) and all(body.dominates(gt_t, b) for (b, _) in wk), site, "while items are pending every stream is woken on each iteration (parked streams drain the queue)")
    # ------------------------------------------------------------------ R06.1 end_all_streams
    k = SM + "::end_all_streams::{closure#0}"
    body = Body(fx.fn(k)); dg = D.Dag(body)
    site = f"{body.f['file']}:{body.f['line']}"
    flushes = [b for (b, c) in body.calls if (c.get("resolved") or c.get("f")) == SM + "::flush"]
    cancels = [b for (b, c) in body.calls if (c.get("resolved") or c.get("f")) == SM + "::cancel_all_streams"]
    ok = bool(flushes) and bool(cancels) and all(any(body.dominates(f_, c_) for f_ in flushes) for c_ in cancels)
    ctx.ob("R06.1", f"{k}|flush-before-cancel", ok, site, f"{len(flushes)} flush / {len(cancels)} cancel_all_streams calls; every cancel is preceded by a flush (buffered events are drained before streams are told to end)")
    if flushes:
        first = min(flushes, key=lambda b: len(body.dom[b]))
        args = [c for (b, c) in body.calls if b == first][0]["args"]
        ctx.ob("R06.1", f"{k}|flush-first", all(body.dominates(first, r) for (r, _) in S.ret_assignments(body)), body.loc(first), "every answer of end_all_streams is produced after the first flush")
    # every flush of the close path is handed the caller's timeout itself: `Duration::ZERO` means "no timeout", so a recomputed budget (`timeout - elapsed`, saturating
    # at ZERO once the first flush used it up) turns an expired bounded close into an unbounded wait
    for (fb, fc) in [(b, c) for (b, c) in body.calls if (c.get("resolved") or c.get("f")) == SM + "::flush"]:
        targ = util.resolve_capture(fx, k, dg.expr(fc["args"][1]))[1]
        ctx.ob("R06.1", f"{k}|flush-gets-the-caller-s-timeout", util.plain_forward(dg.expr(fc["args"][1])) and "timeout" in show(dg.expr(fc["args"][1])), body.loc(fb),
               f"flush({show(dg.expr(fc['args'][1]))[:80]}, ..); required: the timeout parameter, unchanged")
    is_running = lambda c: (c.get("resolved") or c.get("f")) == SM + "::running_streams_count"
    h = S.wait_loop_of(body, is_running)
    if h is None:
        ctx.ob("R06.1", f"{k}|final-wait-loop", False, site, "no loop waiting for running_streams_count() to reach zero: the function may return while streams are still running")
    else:
        last_cancel_ok = bool(cancels) and any(body.dominates(c_, h) for c_ in cancels) and not any(c_ in body.reach_from(h) and c_ not in body.loops[h] for c_ in cancels)
        ctx.ob("R06.1", f"{k}|wait-loop-after-last-cancel", last_cancel_ok, body.loc(h), "the wait loop follows the last cancel_all_streams")
        tests = [(b, _pending_gt0(body, dg, b)) for b in sorted(body.loops[h]) if _pending_gt0(body, dg, b)]
        tests = [(b, t) for (b, t) in tests if "running_streams_count" in show(t[0])]
        ctx.ob("R06.1", f"{k}|running-test-exact", len(tests) == 1, body.loc(tests[0][0]) if tests else site, f"{len(tests)} test(s) `running_streams_count() > 0` in the wait loop; required exactly one")
        if len(tests) == 1:
            tb, (x, gt_t, zero_t) = tests[0]
            ex = S.classify_exits(body, dg, h, lambda a, b_: a == tb and b_ == zero_t)
            for (a, b_, kind) in ex:
                ctx.ob("R06.1", f"{k}|exit|{kind}", kind in ("success", "timeout"), body.loc(a),
                       {"success": "leaves the wait loop when no stream is running", "timeout": "leaves the wait loop only under `timeout != Duration::ZERO`",
                        "other": "this exit leaves the wait loop while streams are running and no timeout was requested"}[kind])
        rets = S.ret_assignments(body)
        bad = [(rb, rv) for (rb, rv) in rets if not body.dominates(h, rb)]
        ctx.ob("R06.1", f"{k}|every-answer-after-the-wait-loop", not bad and bool(rets), body.loc(bad[0][0]) if bad else site,
               f"{len(rets)} answer site(s), all after the wait loop" if not bad else "an answer is produced without passing the wait loop: graceful close can return while streams are still running / events unprocessed")
        for (rb, rv) in rets:
            okv = rv[0] == "CallRes" and is_running(rv[1])
            ctx.ob("R06.1", f"{k}|answers-running-count", okv, body.loc(rb), "the answer is the running-stream count read after waiting")
    # ------------------------------------------------------------------ R06.2 poll_next drains first
    f = [x for x in fx.fns if x.get("impl_self") == STREAM and x["key"].endswith("::poll_next")][0]
    body = Body(f); dg = D.Dag(body); k = f["key"]
    cons = [(b, c) for (b, c) in body.calls if c.get("fname") == "consume"]
    keep = [(b, c) for (b, c) in body.calls if c.get("fname") == "keep_stream_running"]
    none_t = None
    if len(cons) == 1:
        for (tb, has_t, empty_t) in util.option_test_edges(body, dg, cons[0][1]["dst"]["l"]):
            none_t = empty_t
    ok = len(cons) == 1 and bool(keep) and none_t is not None and all(body.dominates(none_t, b) for (b, _) in keep)
    ctx.ob("R06.2", f"{k}|flag-consulted-only-when-empty", ok, f"{f['file']}:{f['line']}", "keep_stream_running is consulted only on the None edge of consume: buffered events are yielded before the stream ends")
    ends = [b for b in body.reachable for st in body.stmts(b) if st[0] == "A" and not st[1]["p"] and st[1]["l"] == 0 and st[2][0] == "Agg" and st[2][1][0] == "Adt" and st[2][1][2] == "Ready"
            and strip_casts(dg.expr(st[2][2][0]))[:2] == ("adt", "None")]
    false_t = None
    for b in body.reachable:
        t = body.term(b)
        if t[0] == "Switch" and t[5] == "bool":
            e = strip_casts(dg.expr(t[1]))
            if e[0] == "call" and e[1].endswith("keep_stream_running"):
                z = [tg for (v, tg) in t[2] if v == 0]
                if z: false_t = z[0]
    ctx.ob("R06.2", f"{k}|end-of-stream-only-when-told", bool(ends) and false_t is not None and all(body.dominates(false_t, b) for b in ends), f"{f['file']}:{f['line']}",
           "Ready(None) is answered only on the false edge of keep_stream_running, after an empty consume")
    # ------------------------------------------------------------------ R06.3 close delegates
    closes = [x for x in fx.by_key if x.endswith("::close::{closure#0}") and (x.startswith("uni::uni::Uni") or x.startswith("multi::multi::Multi"))]
    ctx.ob("R06.3", "close|both-found", len(closes) == 2, "", f"close() coroutines found: {closes}", nontrivial=False)
    for key in closes:
        f = fx.fn_opt(key)
        if f is None:
            ctx.ob("R06.3", f"{key}|present", False, "", "close() coroutine not found (anchor drift)"); continue
        body = Body(f); dg = D.Dag(body)
        ge = [(b, c) for (b, c) in body.calls if c.get("fname") == "gracefully_end_all_streams"]
        rets = S.ret_assignments(body)
        ok = len(ge) == 1 and bool(rets)
        det = ""
        for (rb, rv) in rets:
            e = strip_casts(dg.local(0)) if rv[0] != "Bin" else ("bin", rv[1], dg.expr(rv[2]), dg.expr(rv[3]))
            if rv[0] == "Un" and rv[1] == "Not": e = ("un", "Not", dg.expr(rv[2]))
            # `== 0`, `!(x > 0)`, `x <= 0`, `x < 1` are one test
            neg_ = False
            while e[0] == "un" and e[1] == "Not": e = strip_casts(e[2]); neg_ = not neg_
            if e[0] == "bin":
                a_, b_ = strip_casts(e[2]), strip_casts(e[3])
                if neg_ and e[1] == "Gt" and b_ == ("const", 0): e = ("bin", "Eq", e[2], e[3])
                elif neg_ and e[1] == "Lt" and a_ == ("const", 0): e = ("bin", "Eq", e[3], e[2])
                elif neg_ and e[1] == "Ne" and ("const", 0) in (a_, b_): e = ("bin", "Eq", e[2], e[3])
                elif not neg_ and e[1] == "Le" and b_ == ("const", 0): e = ("bin", "Eq", e[2], e[3])
                elif not neg_ and e[1] == "Lt" and b_ == ("const", 1): e = ("bin", "Eq", e[2], ("const", 0))
            det = show(e)[:120]
            good = e[0] == "bin" and e[1] == "Eq" and ("const", 0) in (strip_casts(e[2]), strip_casts(e[3])) and body.dominates(ge[0][0], rb) if ge else False
            if good:
                # ... and what is compared with 0 IS the awaited answer of that call (the Ready value of polling the future it returned), not some other figure
                other = [x for x in (e[2], e[3]) if strip_casts(x) != ("const", 0)]
                txt = show(other[0]) if other else ""
                good = "poll@" in txt and "as Ready" in txt and "gracefully_end_all_streams" in str(other[0])
            ok = ok and good
        if ge:
            targ = show(dg.expr(ge[0][1]["args"][1]))
            ok = ok and "timeout" in targ and util.plain_forward(dg.expr(ge[0][1]["args"][1]))
        ctx.ob("R06.3", f"{key}|answers-graceful-end-equals-zero", ok, f"{f['file']}:{f['line']}", f"close answers `{det}`; required: gracefully_end_all_streams(timeout).await == 0 with the caller's timeout")
    n = 0
    for (meth, target, ci) in (("gracefully_end_all_streams", "end_all_streams", 2), ("flush", "flush", 2), ("gracefully_end_stream", "end_stream", 3)):
      for name, path in R.CHANNELS.items():
        k = f"{path} as {R.T_COMMON}::{meth}::{{closure#0}}"
        f = fx.fn_opt(k)
        if f is None:
            ctx.ob("R06.3", f"{k}|present", False, "", f"{meth} coroutine not found"); continue
        body = Body(f); dg = D.Dag(body)
        ea = [(b, c) for (b, c) in body.calls if (c.get("resolved") or c.get("f")) == SM + "::" + target]
        ok = len(ea) == 1
        if ok:
            c = ea[0][1]
            cl = dg.expr(c["args"][ci])
            ok = "timeout" in show(dg.expr(c["args"][ci - 1])) and util.plain_forward(dg.expr(c["args"][ci - 1])) and cl[0] == "closure"
            if ok and meth == "gracefully_end_stream":
                ok = "stream_id" in show(dg.expr(c["args"][1])) and util.plain_forward(dg.expr(c["args"][1]))
            if ok:
                cb = Body(fx.fn(cl[1]))
                pc = [cc for (_, cc) in cb.calls if cc.get("fname") == "pending_items_count"]
                ok = len(pc) == 1 and (pc[0].get("resolved") or "").startswith(path) or (len(pc) == 1 and pc[0].get("trait") == R.T_COMMON)
                if not ok:
                    # inlined copy of the channel's own pending_items_count (same calls in the same order)
                    pb = Body(fx.fn(f"{path} as {R.T_COMMON}::pending_items_count"))
                    sig = lambda bd: [c_.get("fname") for (_, c_) in bd.calls if c_.get("fname") not in ("deref",)]
                    ok = sig(cb) == sig(pb) and bool(sig(cb))
        n += 1
        ctx.ob("R06.3", f"{k}|delegates-with-own-pending-count", ok, f"{f['file']}:{f['line']}", f"hands the caller's timeout (and stream id) and its own pending_items_count to {target}")
    import delegation
    for fn in ("pending_items_count", "buffer_size"):
        delegation.thin(ctx, "R06.3", "uni::uni::Uni as uni::uni::GenericUni::" + fn, fn, "what the Uni reports is its channel's own figure")
        delegation.thin(ctx, "R06.3", "multi::multi::Multi::" + fn, fn, "what the Multi reports is its channel's own figure")
    # ------------------------------------------------------------------ R06.4 is_channel_open / flags
    for name, path in R.CHANNELS.items():
        k = f"{path} as {R.T_COMMON}::is_channel_open"
        body = Body(fx.fn(k)); dg = D.Dag(body)
        r = strip_casts(dg.local(0))
        ctx.ob("R06.4", f"{k}|is-any-stream-running", r[0] == "call" and r[1] == SM + "::is_any_stream_running", f"{body.f['file']}:{body.f['line']}", f"is_channel_open answers `{show(r)[:60]}`")
    kb = Body(fx.fn(SM + "::keep_stream_running")); cb = Body(fx.fn(SM + "::cancel_stream"))
    rd = [a for a in guards.accesses(kb, SM, {"keep_streams_running"})]
    wr = [a for a in guards.accesses(cb, SM, {"keep_streams_running"}) if a["kind"] == "w"]
    ctx.ob("R06.4", f"{SM}|cancel-clears-the-flag-poll-reads", bool(rd) and bool(wr), f"{cb.f['file']}:{cb.f['line']}", "cancel_stream writes keep_streams_running[..], keep_stream_running reads the same array")
    # ------------------------------------------------------------------ R06.6 helpers the close machinery stands on
    check_sweeps(ctx)
    check_multi_pending_counts(ctx)
    kb2 = Body(fx.fn(SM + "::keep_stream_running")); kd2 = D.Dag(kb2)
    idx = [(b, c) for (b, c) in kb2.calls if c.get("fname") in ("get_unchecked", "index")]
    ok = len(idx) == 1 and strip_casts(kd2.expr(idx[0][1]["args"][1]))[:2] == ("param", 2) and "keep_streams_running" in str(kd2.expr(idx[0][1]["args"][0]))
    ctx.ob("R06.6", f"{SM}::keep_stream_running|reads-its-own-flag", ok, f"{kb2.f['file']}:{kb2.f['line']}", "keep_stream_running(id) reads keep_streams_running[id]")
    for name, path in R.CHANNELS.items():
        kp = f"{path} as {R.T_COMMON}::pending_items_count"
        pb = Body(fx.fn(kp)); pd = D.Dag(pb)
        r = pd.local(0)
        fam = [f for f in fx.fns if (f.get("owner_fn") or f["key"]) == kp]
        names = [blk["term"][1].get("fname") for f in fam for blk in f["blocks"] if blk["term"][0] == "Call"]
        lenq = [n for n in names if n in ("available_elements_count", "remaining_elements_count", "len")]
        if name.startswith("uni."):
            ok = len(lenq) == 1 and strip_casts(r)[0] == "call" and strip_casts(r)[1].split("::")[-1] in ("available_elements_count", "len")
            det = f"answers `{show(r)[:80]}`; required: the container's own length query"
        else:
            ok = len(lenq) == 1 and ("max" in names or _running_max(pb, pd)) and "min" not in names and "used_streams" in names
            # ... and nothing is added to it: a count of sends "still being built" (suspended async setters) keeps the backlog above zero with nothing consumable --
            # an unbounded flush / close then waits for a future nobody may ever resume
            rr = strip_casts(r)
            while rr[0] == "pair": rr = strip_casts(rr[1])
            if rr[0] == "bin" and str(rr[1]).rstrip("!~") in ("Add", "Sub", "Mul"): ok = False
            det = f"calls {sorted(set(names))}; required: the MAXIMUM of the per-listener length queries over the live-listener list (close waits for the slowest listener)"
        ctx.ob("R06.6", f"{kp}|is-the-real-backlog", ok, f"{pb.f['file']}:{pb.f['line']}", det)
    # ------------------------------------------------------------------ R06.5 id given back only by Drop
    for f in fx.fns:
        body = None
        for blk in f["blocks"]:
            t = blk["term"]
            if t[0] == "Call" and t[1].get("fname") == "drop_resources": body = Body(f); break
        if body is None: continue
        for (b, c) in body.calls:
            if c.get("fname") == "drop_resources" and (c.get("trait") == R.T_CONS or R.T_CONS in (c.get("resolved") or c.get("f") or "")):
                ok = f.get("impl_self") == STREAM and f.get("impl_trait") == "std::ops::Drop"
                ctx.ob("R06.5", f"{f['key']}|calls|drop_resources", ok, body.loc(b), "the running-stream count drops only when the stream object itself is dropped (Drop for MutinyStream): the executor drops it after the pipeline finished")
    # ------------------------------------------------------------------ R06.8 the backlog close waits for is what the containers really hold
    # (`pending_items_count` / `flush` and the stream's own "nothing left" test are the rings' length / emptiness queries: a query that goes wrong across the counter
    #  wrap -- saturating instead of wrapping difference -- lets flush pass and the stream end with accepted events still buffered; for the log channel the published
    #  tail must never run ahead of a slot that is still being written.  Shared with C02 R02.2 / R02.5 and C09 R09.1 / R09.3.)
    import importlib
    C02 = importlib.import_module("props.C02"); C09 = importlib.import_module("props.C09")
    class OnlyBacklog(util.PrefixedCtx):
        def ob(self, rule, key, ok, site="", detail="", nontrivial=True, undecided=False):
            if rule in ("R02.2", "R02.5", "R09.1", "R09.3"): return super().ob(rule, key, ok, site, detail, nontrivial, undecided)
            return ok
    util.guarded(ctx, C02.check, OnlyBacklog(ctx, "R06.8")); util.guarded(ctx, C09.check, OnlyBacklog(ctx, "R06.8"))
    if not getattr(ctx, "deferred_infra", None): ctx.floor("R06.8", 10)
    # R06.5 (bookkeeping side) the running-stream count drops only through the stream's own Drop: report_stream_dropped is reachable only from drop_resources (C10 R10.2) --
    # an id "freed" on a timeout path makes the count run below the number of live streams, and a later unbounded close returns while one of them is mid-event
    global _IMPORTING_C10
    _c10 = __import__("importlib").import_module("props.C10")
    if getattr(ctx, "pid", None) == "C06" and not isinstance(ctx, util.PrefixedCtx) and not _IMPORTING_C10 and not getattr(_c10, "_IMPORTING_C06", False):
        sub10 = util.fresh_ctx(ctx, "C10")
        _IMPORTING_C10 = True
        try: util.guarded(ctx, _c10.check, sub10)
        finally: _IMPORTING_C10 = False
        for o in sub10.obs:
            if o["rule"] == "R10.2" and ("report_stream_dropped" in o["key"] or "drop-releases" in o["key"]): ctx.ob("R06.5", o["key"], o["ok"], o["site"], o["detail"], o["nontrivial"])
    # ------------------------------------------------------------------ R06.9 no future is created and thrown away unpolled
    # (`_ = self.channel.gracefully_end_all_streams(timeout);` -- the `.await` forgotten, the `_ =` silencing must_use -- flushes nothing and ends nothing: close returns
    #  with streams running and events buffered.  Every call in the library whose answer is a future has that answer used: awaited, returned, joined, boxed, spawned.)
    import normalize as _nz
    n_f = 0; n_bad = 0
    for f in fx.fns:
        for blk in f["blocks"]:
            t = blk["term"]
            if t[0] != "Call" or t[1]["dst"]["p"] or t[1].get("exp"): continue
            l = t[1]["dst"]["l"]; ty = f["locals"][l]["ty"]
            if not ("Future" in ty or "{coroutine" in ty or "{async" in ty or ty.startswith("impl ")): continue
            n_f += 1
            if not _nz._local_is_read(f, l, t[1], drops_count=False):
                n_bad += 1
                ctx.ob("R06.9", f"{f['key']}|{t[1].get('fname')}|future-is-polled", False, f"{f['file']}:{t[1].get('line')}",
                       f"the future answered by `{t[1].get('fname')}` is never used (dropped unpolled): nothing it was meant to do happens")
    ctx.ob("R06.9", "futures-created-are-used", n_bad == 0 and n_f >= 80, "", f"{n_f} future-typed call results in the library, {n_bad} dropped unpolled")
    ctx.floor("R06.1", 12); ctx.floor("R06.3", 13); ctx.floor("R06.4", 12); ctx.floor("R06.5", 1); ctx.floor("R06.6", 14)


def _running_max(body, dg):
    """explicit-loop spelling of `.max()`: inside a loop a per-listener length query is compared with a loop-carried local which takes that value exactly on the
    edge where the query's answer is the greater one (`if len > max { max = len }`), and the function answers that local"""
    LEN = ("available_elements_count", "remaining_elements_count", "len")
    is_len = lambda e: any(isinstance(x, tuple) and x[:1] == ("call",) and x[1].split("::")[-1] in LEN for x in _walk_expr(e))
    for b in sorted(body.reachable):
        if not util.in_loop(body, b): continue
        c = D.cmp_of_switch(body, dg, b)
        if not c: continue
        cb = D.canon_branch(c)
        if not cb or cb[0] != "lt": continue
        kind, x, y, T, Fl = cb                      # T taken iff x < y
        xs, ys = strip_casts(x), strip_casts(y)
        if ys[0] == "phi" or not is_len(y) or xs[0] != "phi": continue      # want  acc < len  on T
        acc = xs[1]
        # on T (and only there, inside the loop) the accumulator is assigned the length
        assigns = [(bb, st) for bb in body.reachable for st in body.stmts(bb) if st[0] == "A" and not st[1]["p"] and st[1]["l"] == acc and util.in_loop(body, bb)]
        if assigns and all(body.dominates(T, bb) or bb == T for (bb, _) in assigns) and all(is_len(dg.rvalue((bb, body.stmts(bb).index(st), st[2]), 0)) for (bb, st) in assigns):
            return True
    return False


def _walk_expr(e, depth=0):
    if not isinstance(e, tuple) or depth > 14: return
    yield e
    for x in e:
        if isinstance(x, tuple): yield from _walk_expr(x, depth + 1)


def check_multi_pending_counts(ctx):
    """R06.7 what flush / close wait for on a Multi: pending_items_count is the longest backlog over the LIVE listeners -- the walk over the live list goes on while
    the entry is a listener id (stops at the u32::MAX sentinel, not before), reads the queue of that very id, and aggregates with max.  A count that stops at the
    first live entry, reads another queue or takes the minimum answers 0 while events are still buffered: close returns before they were processed."""
    fx = ctx.fx
    n = 0
    for name, path in R.CHANNELS.items():
        if not name.startswith("multi"): continue
        k = f"{path} as {R.T_COMMON}::pending_items_count"
        f = fx.fn_opt(k)
        if f is None: continue
        n += 1
        body = Body(f); dg = D.Dag(body)
        site = f"{f['file']}:{f['line']}"
        names = [c.get("fname") for (_, c) in body.calls]
        kids = [g for g in fx.fns if g["key"].startswith(k + "::{closure#")]
        ok_s = True; why = ""
        n_sent = 0
        for g in kids:
            gb = Body(g); gd = D.Dag(gb)
            r0 = strip_casts(gd.local(0))
            if r0[0] == "bin" and r0[1] in ("Eq", "Ne") and any((lambda z: z == ("const", 0xFFFFFFFF) or (z[0] == "gconst" and str(z[1]).endswith("u32::MAX")))(strip_casts(z)) for z in (r0[2], r0[3])):
                n_sent += 1
                user = [c.get("fname") for (_, c) in body.calls if any(dg.expr(a) == ("closure", g["key"]) for a in c["args"])]
                keep_live = (r0[1] == "Ne" and set(user) <= {"take_while", "filter"}) or (r0[1] == "Eq" and set(user) <= {"skip_while"} and False)
                if not keep_live: ok_s = False; why = f"`{show(r0)[:60]}` handed to {user}"
        for x in body.reachable:
            se = util.sentinel_edges(body, dg, x)
            if se and se[0] != se[1]:
                n_sent += 1
                h = [h_ for h_, bl in body.loops.items() if x in bl]
                if h and se[1] not in body.loops[min(h, key=lambda q: len(body.loops[q]))]: ok_s = False; why = f"the walk leaves the loop on a live entry at {body.loc(x)}"
        ctx.ob("R06.7", f"{k}|walks-the-live-listeners", ok_s and n_sent >= 1, site, "the walk over the live list continues on listener ids and stops only at the sentinel" if ok_s and n_sent else (why or "no sentinel test found"))
        step_in_loop = any(c.get("fname") == "next" and util.in_loop(body, b) for (b, c) in body.calls)      # the iterator step of a `for` loop is not an aggregator
        agg_bad = [x for x in names if x in ("min", "min_by", "min_by_key", "sum", "product", "last", "nth") or (x == "next" and not step_in_loop)]
        kid_names = [blk["term"][1].get("fname") for g in kids for blk in g["blocks"] if blk["term"][0] == "Call"]
        fold_max = "fold" in names and "max" in kid_names and not any(x in kid_names for x in ("min", "wrapping_add", "saturating_add"))      # `.fold(0, |m, x| m.max(x))`
        ctx.ob("R06.7", f"{k}|aggregates-with-max", ("max" in names or fold_max or _running_max(body, dg)) and not agg_bad, site, f"aggregation through {[x for x in names if x in ('max', 'fold', 'max_by', 'max_by_key')] or 'a loop'}" + (f"; unexpected {agg_bad}" if agg_bad else ""))
        # the queue read belongs to the id being visited
        ok_q = True
        for g in kids + [f]:
            gb = Body(g); gd = D.Dag(gb)
            for (b, c) in gb.calls:
                if c.get("fname") in ("get_unchecked", "index", "get") and len(c["args"]) > 1 and any(q in show(gd.expr(c["args"][0])) for q in ("channels", "receivers", "dispatcher_managers", "subscribers", "senders")):
                    i_ = strip_casts(gd.expr(c["args"][1]))
                    while i_[0] == "deref": i_ = strip_casts(i_[1])
                    if not (i_[0] == "param" or "next" in show(i_) or "used_streams" in show(i_)): ok_q = False
        ctx.ob("R06.7", f"{k}|reads-the-visited-listener-s-queue", ok_q, site, "the backlog read is that of queues[<the id being visited>]")
    ctx.floor("R06.7", 15)


def check_sweeps(ctx, only=None):
    """R06.6: wake_all_streams / is_any_stream_running visit every id of 0..MAX_STREAMS and call their per-id function once per id"""
    fx = ctx.fx
    for fn, callee in (("wake_all_streams", "wake_stream"), ("is_any_stream_running", "keep_stream_running")):
        if only and fn not in only: continue
        kf = SM + "::" + fn
        fb = Body(fx.fn(kf)); fd = D.Dag(fb)
        rng = None
        for b in fb.reachable:
            for st in fb.stmts(b):
                if st[0] == "A" and st[2][0] == "Agg" and st[2][1][0] == "Adt" and st[2][1][1].endswith("ops::Range"):
                    rng = [strip_casts(fd.expr(o)) for o in st[2][2]]
        cs = [(b, c) for (b, c) in fb.calls if (c.get("resolved") or c.get("f")) == SM + "::" + callee]
        if not cs and rng is not None and rng[0] == ("const", 0) and rng[1] == ("gconst", "MAX_STREAMS"):
            # iterator form: `(0..MAX_STREAMS).any(|id| self.callee(id))` / `.for_each(..)` / `.all(..)`: std visits every id of the range (any / all stop early only once
            # the answer is decided), the closure calls the per-id function once with its own parameter
            its = [(b, c) for (b, c) in fb.calls if c.get("fname") in ("any", "all", "for_each") and c["args"] and "Range" in fb.locals[op_local(c["args"][0])]["ty"]] if True else []
            kids = [g for g in fx.fns if g["key"].startswith(kf + "::{closure#")]
            inner = [(g, blk["term"][1]) for g in kids for blk in g["blocks"] if blk["term"][0] == "Call" and (blk["term"][1].get("resolved") or blk["term"][1].get("f")) == SM + "::" + callee]
            ok_it = len(its) == 1 and len(inner) == 1
            if ok_it:
                g, c_ = inner[0]
                gd = D.Dag(Body(g))
                a_ = strip_casts(gd.expr(c_["args"][1]))
                ok_it = a_[0] == "param" and a_[1] == 2 and not Body(g).loops
            ctx.ob("R06.6", f"{kf}|visits-every-stream-id", ok_it, f"{fb.f['file']}:{fb.f['line']}", f"{fn} runs {callee}(id) for the ids of 0..MAX_STREAMS through an iterator adaptor ({[c.get('fname') for (_, c) in its]})")
            continue
        ok = rng is not None and rng[0] == ("const", 0) and rng[1] == ("gconst", "MAX_STREAMS") and len(cs) == 1 and util.in_loop(fb, cs[0][0])
        if ok:
            h = [h for h, bl in fb.loops.items() if cs[0][0] in bl][0]
            lo, hi = util.count_per_iteration(fb, h, lambda b: b == cs[0][0])
            arg = show(fd.expr(cs[0][1]["args"][1]))
            ok = (lo, hi) == (1, 1) and "next" in arg
        ctx.ob("R06.6", f"{kf}|visits-every-stream-id", ok, f"{fb.f['file']}:{fb.f['line']}", f"{fn} visits every id of 0..MAX_STREAMS (range {[show(x) for x in rng] if rng else None}) and calls {callee}(id) once per id")
        if ok:
            # the sweep is left only when the range is exhausted (or at an id that is the u32::MAX sentinel, which no id of the range is) -- and, for the query, on the
            # `true` answer of the per-id function, answering true; after the loop it answers false
            good = True; why = ""
            for (x, y) in fb.loop_exits(h):
                if y not in fb.can_return: continue
                vs = util.variant_switch(fb, fd, x)
                it_end = bool(vs) and "next" in show(vs[0]) and vs[1].get(0, vs[2]) == y
                se = util.sentinel_edges(fb, fd, x)
                sent = se is not None and se[0] == y and se[0] != se[1]
                ans = False
                if fn == "is_any_stream_running":
                    t = fb.term(x)
                    if t[0] == "Switch" and t[5] == "bool":
                        e = strip_casts(fd.expr(t[1])); neg = False
                        while e[0] == "un" and e[1] == "Not": e = strip_casts(e[2]); neg = not neg
                        if e[0] == "call" and e[1] == SM + "::" + callee:
                            true_t = t[3] if not neg else ([tg for (v, tg) in t[2] if v == 0] or [None])[0]
                            ans = y == true_t and util.returned_values(fb, fd, y) == {("const", 1)}
                if not (it_end or sent or ans): good = False; why = f"exit at {fb.loc(x)}"
            after = True
            if fn == "is_any_stream_running":
                ends = [vs_[1].get(0, vs_[2]) for vs_ in (util.variant_switch(fb, fd, x) for x in fb.loops[h]) if vs_ and "next" in show(vs_[0])]
                after = bool(ends) and all(util.returned_values(fb, fd, e_) == {("const", 0)} for e_ in ends)
            ctx.ob("R06.6", f"{kf}|sweep-left-only-at-the-end", good and after, f"{fb.f['file']}:{fb.f['line']}",
                   "the sweep ends only when every id was visited" + ("; true as soon as one stream runs, false when none does" if fn == "is_any_stream_running" else "") if good and after else
                   f"the sweep can stop before every id was visited, or answers wrongly ({why or 'answer after the loop'})")
