"""C16 - a rejected send changes nothing, never blocks; retry works once there is room."""
import importlib
import dag as D, util, ts, roles as R, facts as F
from dag import strip_casts, show
from mir import Body, op_local

LEVEL = "other"
EXPLANATION = ("Reject-path shape conditions decided on all paths: (R16.1) the containers undo or never take the reservation before answering 'full': AtomicMove::"
               "leak_slot_internal returns None only on the success edge of the recede CAS (try_unleak_slot_internal), both reservation sides of the lock-free ring (leak_slot_internal and "
               "consume_leaking_internal -- the reject path of every pool allocation) answer None with nothing left reserved (computed typestate summary), FullSyncMove::leak_slot_internal returns None with "
               "the lock released (computed summary: held iff Some), the zero-copy containers and the pool answer None only when the free list handed out nothing; the "
               "`report_full_fn` every channel passes is the constant false (a true there turns the reject path into a spin-wait); (R16.2) in every send / send_with / "
               "send_with_async of the five Uni channels and the two ogre_arc Multi channels, between the failure edge of the reservation and the Transient verdict there is "
               "no publication, no deallocation and no blocking callee (sleep / spinning_forever / yielding_forever / mutex lock), and every setter-based send of the "
               "crossbeam channel tests fullness before touching anything; (R16.3) capacity is exactly BUFFER_SIZE: the rings' fullness guards are the exact canonical forms "
               "(shared with C02 R02.2: reserved-but-unpublished slots count, wrapping distance), crossbeam's fullness test is `is_full()` or the equivalent `len >= BUFFER_SIZE`, "
               "and every prelude alias pairs a pool with a ring of the same size and the same synchronisation kind as its channel.")
EXPLANATION += ' (R16.4) callback polarity: when a ring finds the queue full (empty) it consults report_full_fn (report_empty_fn); the give-up answer None is reachable on the FALSE edge of that answer without another attempt and not on its TRUE edge -- the channels pass the constant false (R16.2), so with the polarity reversed a rejected send spins for ever.'
EXPLANATION += ' R16.2 also covers the layer underneath: no zero-copy container / pool operation contains a loop that waits for a slot to come back (shared with C20 R20.6).'
EXPLANATION += ' (R16.5) between the fullness test answering "no room" and the give-up answer no explicit panic / assertion is reachable in either ring\'s leak_slot_internal; (R16.6) dealloc_id re-enqueues the released slot exactly once on every path, for every payload type (C13 R13.1).'
EXPLANATION += " (R16.7) C14's unique -> shared conversion rules: the free list is the capacity accounting of the zero-copy channels."
EXPLANATION += " (R16.8) a dropped listener's leftovers are discarded completely before its id is released (C10 R10.1: they hold pool slots)."
ASSUMPTIONS = ["lock-freedom, not wait-freedom: a producer that lost the recede CAS to another overshooting producer retries (bounded by the other producers' progress)",
               "the Arc-based Multi channels and the crossbeam setter sends after their fullness test wait by documented design (excluded by the property)"]

BLOCKING = {"sleep", "spinning_forever", "yielding_forever", "park", "lock", "lock_exclusive", "yield_now", "spinning_until_timeout", "yielding_until_timeout"}
MUTATORS = {"publish_movable", "publish", "publish_leaked_internal", "publish_leaked_ref", "publish_leaked_id", "try_publish_leaked_internal_index", "try_send", "send",
            "dealloc_id", "dealloc_ref", "unleak_slot_ref", "unleak_slot_id", "release_leaked_internal", "consume_movable"}
CHANNELS = ["uni.movable.atomic", "uni.movable.full_sync", "uni.movable.crossbeam", "uni.zero_copy.atomic", "uni.zero_copy.full_sync", "multi.ogre_arc.atomic", "multi.ogre_arc.full_sync"]


def _none_returns(body):
    out = []
    for b in sorted(body.reachable):
        for st in body.stmts(b):
            if st[0] == "A" and not st[1]["p"] and st[1]["l"] == 0 and st[2][0] == "Agg" and st[2][1][0] == "Adt" and st[2][1][2] == "None":
                out.append(b)
    return out


def check_callback_polarity(ctx, rule):
    """the rings consult the caller's `report_full_fn` / `report_empty_fn` when they find the queue full / empty: `true` = "try again", `false` = "give up now".
    Every channel of the property passes the constant `false` (R16.2), so the give-up answer (None) must be reachable on the FALSE edge of the callback's answer
    without another attempt, and not on its TRUE edge: with the polarity reversed a rejected send spins for ever instead of returning."""
    fx = ctx.fx
    n = 0
    for adt in (R.AM, R.FSM):
        for fn, pname in (("leak_slot_internal", "report_full"), ("consume_leaking_internal", "report_empty")):
            k = f"{adt}::{fn}"
            f = fx.fn_opt(k)
            if f is None: continue
            body = Body(f); dg = D.Dag(body)
            cbs = [(b, c) for (b, c) in body.calls if c.get("f") in ("std::ops::Fn::call", "std::ops::FnMut::call_mut", "std::ops::FnOnce::call_once") and c["args"] and util.callee_param_name(body, c).startswith(pname)]
            if len(cbs) != 1:
                ctx.ob(rule, f"{k}|{pname}-callback-consulted-once", False, f"{body.f['file']}:{body.f['line']}", f"{len(cbs)} calls of the {pname} callback; expected one"); continue
            cb, cc = cbs[0]
            n += 1
            attempts = frozenset(b for (b, c) in body.calls if b != cb and ((R.atomic_target(body, c) or (0, 0, ""))[2:] in (("fetch_add",),) or (c.get("resolved") or c.get("f")) == R.SPIN_LOCK))
            def explore(want_truth):
                def cut(facts):
                    for (e, truth) in facts:
                        if isinstance(e, tuple) and e[0] == "call" and len(e) > 3 and e[3] == cb and truth != want_truth: return True
                    return False
                return util.flag_paths(body, dg, body.term(cb)[1]["t"], stop_blocks=attempts, cut=cut)
            on_false = explore(False); on_true = explore(True)
            gives_up_on_false = any(r in on_false for r in body.returns)
            retries_on_true = not any(r in on_true for r in body.returns)
            ctx.ob(rule, f"{k}|gives-up-when-the-callback-says-false", gives_up_on_false and retries_on_true, body.loc(cb),
                   f"`{pname}_fn()` false -> answers None without another attempt: {gives_up_on_false}; true -> another attempt before any answer: {retries_on_true}")
    ctx.ob(rule, "callback-polarity|instances", n >= 4, "", f"{n} ring functions consulting a full / empty callback", nontrivial=False)


def check(ctx):
    fx = ctx.fx
    eng = ts.Engine(fx)
    C01 = importlib.import_module("props.C01")
    check_callback_polarity(ctx, "R16.4")
    # ------------------------------------------------------------------ R16.1 containers
    k = R.AM + "::leak_slot_internal"
    body = Body(fx.fn(k)); dg = D.Dag(body)
    nones = _none_returns(body)
    # the recede: the helper try_unleak_slot_internal, or -- when it was merged into this function -- the CAS (id+1 -> id) on the reservation counter itself
    have_helper = fx.fn_opt(R.AM + "::try_unleak_slot_internal") is not None
    unleaks = [(b, c) for (b, c) in body.calls if c.get("fname") in ("try_unleak_slot_internal",)]
    direct = [(b, c) for (b, c) in body.calls if (R.atomic_target(body, c) or (0, 0, ""))[1:2] == ("enqueuer_tail",) and "compare_exchange" in (R.atomic_target(body, c) or (0, 0, ""))[2]]
    succ_edges = set()
    for b in body.reachable:
        t = body.term(b)
        if t[0] == "Switch" and t[5] == "bool":
            e = strip_casts(dg.expr(t[1]))
            if e[0] == "call" and e[1].endswith("try_unleak_slot_internal"):
                zero = [tg for (v, tg) in t[2] if v == 0]
                if zero and zero[0] != t[3]: succ_edges.add(t[3])
    for (cb_, c_) in direct:
        if c_["dst"]["p"]: continue
        for (tb, ok_t, err_t) in util.option_test_edges(body, dg, c_["dst"]["l"]):
            if ok_t != err_t: succ_edges.add(ok_t)
    ctx.ob("R16.1", f"{k}|reject-path-present", bool(nones) and len(unleaks) + len(direct) == 1, f"{body.f['file']}:{body.f['line']}", f"{len(nones)} `None` answers, {len(unleaks)} recede call(s), {len(direct)} direct recede CAS", nontrivial=False)
    for nb in nones:
        ctx.ob("R16.1", f"{k}|none-only-after-successful-recede", any(body.dominates(t_, nb) for t_ in succ_edges), body.loc(nb),
               "`None` (queue full) is answered only on the success edge of the recede CAS: the reservation counter is back to its value, no capacity is consumed")
    # typestate summaries of both reservation sides: answering None leaves nothing reserved (the consumer side is the reject path of every pool allocation whose
    # free list is this ring: a read reservation left behind hides a free slot for good)
    for fn, kind in (("leak_slot_internal", "ring.w"), ("consume_leaking_internal", "ring.r")):
        kf = R.AM + "::" + fn
        an_ = eng.analyse(kf)
        none_holding = [o for o in an_.outcomes if o[0] == ("variant", 0) and any(s_ == "+" for (s_, _) in o[1])]
        some_free = [o for o in an_.outcomes if o[0] == ("variant", 1) and not any(s_ == "+" and r_[0] == kind for (s_, r_) in o[1])]
        ctx.ob("R16.1", f"{kf}|none-leaves-nothing-reserved", not none_holding and not an_.undecided, f"{eng.body(kf).f['file']}:{eng.body(kf).f['line']}",
               f"computed summary {sorted((str(o[0]), sorted(str(x) for x in o[1])) for o in an_.outcomes)}: "
               + ("`None` is answered only with the reservation counter back at its value" if not none_holding else
                  "a path answers `None` with the reservation still taken (the recede CAS lost and was not retried): the counter stays one ahead and one slot of capacity is gone for good"))
    kk = R.AM + "::try_unleak_slot_internal"
    if not have_helper:
        kk = R.AM + "::leak_slot_internal"      # merged: the CAS shape itself is R02.1's obligation (recede CAS id+1 -> id), its outcome is tested above
        ctx.note("try_unleak_slot_internal is not a separate function on this tree: its obligations are discharged on the CAS inside leak_slot_internal")
    b2 = Body(fx.fn(kk)); d2 = D.Dag(b2)
    cas = [(b, c) for (b, c) in b2.calls if (R.atomic_target(b2, c) or (0, 0, ""))[1:2] == ("enqueuer_tail",) and "compare_exchange" in (R.atomic_target(b2, c) or (0, 0, ""))[2]]
    r0 = d2.local(0)
    okc = len(cas) == 1 and (not util.in_loop(b2, cas[0][0]) or not have_helper)
    ctx.ob("R16.1", f"{kk}|single-cas-true-iff-success", okc, f"{b2.f['file']}:{b2.f['line']}", "the recede is one CAS on the reservation counter and its boolean answer is that CAS's outcome")
    if okc and have_helper:
        sw = None
        for b in b2.reachable:
            vs = util.variant_switch(b2, d2, b)
            if vs and vs[3] == cas[0][1]["dst"]["l"]: sw = vs
        ok = False
        if sw:
            ok_t = sw[1].get(0, sw[2]); err_t = sw[1].get(1, sw[2])
            def ret_const(t):
                vals = set()
                for b in {t} | b2.reach_from(t):
                    for st in b2.stmts(b):
                        if st[0] == "A" and not st[1]["p"] and st[1]["l"] == 0 and st[2][0] == "Use" and st[2][1][0] == "k": vals.add(st[2][1][1].get("int"))
                return vals
            ok = ret_const(ok_t) == {1} and ret_const(err_t) == {0}
        else:
            # `cas(..).is_ok()` answered directly
            r0_ = strip_casts(d2.local(0))
            ok = r0_[0] == "call" and r0_[1].endswith("Result::is_ok") and len(r0_[2]) == 1 and any(isinstance(x_, tuple) and x_[:1] == ("atomic",) and "compare_exchange" in x_[1] for x_ in C01._walk_all(r0_[2][0]))
        ctx.ob("R16.1", f"{kk}|answers-cas-outcome", ok, f"{b2.f['file']}:{b2.f['line']}", "returns true on the CAS's Ok edge and false on its Err edge")
    # full-sync ring: summary held iff Some
    k = R.FSM + "::leak_slot_internal"
    an = eng.analyse(k)
    outs = {(r, frozenset(e)) for (r, e) in an.outcomes}
    ok = (("variant", 0), frozenset()) in outs and all(not e for (r, e) in outs if r == ("variant", 0))
    ctx.ob("R16.1", f"{k}|none-leaves-lock-free", ok and not an.undecided, "", f"computed summary {sorted(map(str, outs))}: answering None leaves the spin-lock released and nothing reserved")
    # zero-copy containers and the pool
    for adt in (R.AZC, R.FZC):
        for k in [x for x in fx.by_key if x.startswith(adt + " as ") and x.endswith("::leak_slot")]:
            b3 = Body(fx.fn(k)); d3 = D.Dag(b3)
            r = strip_casts(d3.local(0))
            ctx.ob("R16.1", f"{k}|reject-is-pool-exhaustion", r[0] == "call" and r[1].endswith("alloc_ref"), f"{b3.f['file']}:{b3.f['line']}", f"leak_slot answers `{show(r)[:80]}`: None means the pool handed out nothing")
    k = f"{R.POOL} as {R.T_ALLOC}::alloc_ref"
    b3 = Body(fx.fn(k)); d3 = D.Dag(b3)
    dq = [(b, c) for (b, c) in b3.calls if c.get("fname") == "consume_movable"]
    ctx.ob("R16.1", f"{k}|none-takes-nothing", len(dq) == 1 and not util.in_loop(b3, dq[0][0]), f"{b3.f['file']}:{b3.f['line']}", "one free-list dequeue per call; None is answered when it handed out nothing")
    # report_full_fn closures passed by the channels
    n_rf = 0
    for f in fx.fns:
        if not any(f["key"].startswith(p) for p in (R.CHANNELS[c] for c in CHANNELS)) and not f["key"].startswith((R.AM, R.FSM, R.AZC, R.FZC)): continue
        body = Body(f); dg = None
        for (b, c) in body.calls:
            if c.get("fname") not in ("leak_slot_internal", "publish", "consume_leaking_internal"): continue
            if c.get("fname") == "publish" and len(c["args"]) < 4: continue
            dg = dg or D.Dag(body)
            idx = 1 if c["fname"] != "publish" else 2
            cl = dg.expr(c["args"][idx])
            if cl[0] == "param": continue     # forwarded parameter: checked at its own call sites
            n_rf += 1
            okf = False
            if cl[0] in ("closure", "fn") and fx.fn_opt(cl[1]) is not None:      # closure literal or a named fn item passed as the callback
                cb = Body(fx.fn(cl[1]))
                vals = [st[2][1][1].get("int") for b2_ in cb.reachable for st in cb.stmts(b2_) if st[0] == "A" and not st[1]["p"] and st[1]["l"] == 0 and st[2][0] == "Use" and st[2][1][0] == "k"]
                okf = vals == [0] and not cb.calls
            ctx.ob("R16.1", f"{f['key']}|{c['fname']}|report-full-is-const-false", okf, body.loc(b), "the 'queue is full/empty' callback is the constant false: the reject path gives up at once instead of spin-waiting")
    # ------------------------------------------------------------------ R16.2 channels: nothing happens between the failed reservation and Transient
    for name in CHANNELS:
        path = R.CHANNELS[name]
        for en in ("send", "send_with", "send_with_async"):
            k = f"{path} as {R.T_PROD}::{en}"
            body = Body(fx.fn(k))
            co = C01._is_coroutine_wrapper(body)
            if co: k = co; body = Body(fx.fn(k))
            dg = D.Dag(body)
            vd = [v for v in C01.verdicts(body) if v[1] == "Transient"]
            if name == "uni.movable.crossbeam" and en == "send":
                continue   # verdict built from try_send's own answer (R01.2); try_send is non-blocking by crossbeam's contract
            sw = C01.pub_switches(body, dg)
            if name.startswith("multi.ogre_arc"):
                # reservation = OgreArc::new(&allocator)
                for b in sorted(body.reachable):
                    vs = util.variant_switch(body, dg, b)
                    if vs and C01._mentions(vs[0], lambda x: x[0] == "call" and x[1].endswith("OgreArc::new")):
                        succ = vs[1].get(1, vs[2]); fail = vs[1].get(0, vs[2])
                        if succ != fail: sw.append({"b": b, "success": succ, "failure": fail, "role": "OgreArc::new"})
            if not vd:
                ctx.ob("R16.2", f"{k}|reject-verdict-present", False, f"{body.f['file']}:{body.f['line']}", "no Transient verdict: a full buffer cannot be reported"); continue
            for (vb, variant, fields, ops) in vd:
                S = [s for s in sw if body.dominates(s["b"], vb)]
                fail_ts = [s["failure"] for s in S if vb in ({s["failure"]} | body.reach_from(s["failure"]))]
                if not fail_ts:
                    ctx.ob("R16.2", f"{k}|reject-path-identified", False, body.loc(vb), "Transient is not on the failure edge of a reservation test"); continue
                region = set()
                for ft in fail_ts:
                    for b in ({ft} | body.reach_from(ft)):
                        if vb in ({b} | body.reach_from(b)): region.add(b)
                bad = []
                for b in sorted(region):
                    t = body.term(b)
                    if t[0] == "Call":
                        n = t[1].get("fname")
                        if n in MUTATORS or n in BLOCKING: bad.append((b, n))
                    if t[0] == "Yield": bad.append((b, "await"))
                ctx.ob("R16.2", f"{k}|reject-path-is-inert", not bad, body.loc(bad[0][0]) if bad else body.loc(vb),
                       f"{len(region)} block(s) between the failed reservation and Transient: no publication, deallocation, blocking call or await" if not bad else
                       f"`{bad[0][1]}` on the reject path: a rejected send must change nothing and return at once")
                # before the reservation test nothing irreversible either (e.g. the setter must not run, nothing is published)
                first = min(S, key=lambda s: len(body.dom[s["b"]])) if S else None
                if first:
                    pre = [b for b in body.dom[first["b"]] if b != first["b"]]
                    badp = [(b, body.term(b)[1].get("fname")) for b in pre if body.term(b)[0] == "Call" and body.term(b)[1].get("fname") in (BLOCKING | {"publish_leaked_internal", "try_send", "dealloc_id", "dealloc_ref"})]
                    ctx.ob("R16.2", f"{k}|nothing-before-the-capacity-test", not badp, body.loc(first["b"]), "no blocking or publishing call precedes the capacity test")
    # ... and the layer underneath answers "no slot" at once: no container / pool operation waits for a slot to come back (shared with C20 R20.6)
    importlib.import_module("props.C20").check_container_no_wait(ctx, "R16.2")
    ctx.floor("R16.2", 60)
    # ------------------------------------------------------------------ R16.5 a refused reservation answers, it does not panic
    # between the fullness test saying "no room" and the give-up answer (reservation receded / lock released, `None`) no explicit panic or assertion is reachable: an
    # assertion about the refused state (e.g. "refused, so `tail - head >= BUFFER_SIZE`" -- wrong while reservations are in flight) turns a full buffer into a panic in
    # the builds that keep it, and -- sitting before the recede -- leaves the reservation counter advanced.  (Overflow / bounds Assert terminators are C15's business.)
    PANICS = ("core::panicking::", "std::rt::begin_panic", "core::panicking::assert_failed", "std::rt::panic_fmt")
    n5 = 0
    for adt in (R.AM, R.FSM):
        k5 = f"{adt}::leak_slot_internal"
        f5 = fx.fn_opt(k5)
        if f5 is None: continue
        b5 = Body(f5); d5 = D.Dag(b5)
        for gb in sorted(b5.reachable, key=lambda x_: (len(b5.dom[x_]), x_)):
            c5 = D.cmp_of_switch(b5, d5, gb)
            if not c5 or any(t_ not in b5.can_return for t_ in (c5[3], c5[4])): continue
            cb5 = D.canon_branch(c5)
            if not cb5 or cb5[0] != "lt" or strip_casts(cb5[2]) != ("gconst", "BUFFER_SIZE"): continue
            reject = cb5[4]
            hdrs = frozenset(h for h, bl in b5.loops.items() if gb in bl)
            region = (b5.reach_from(reject, avoid=hdrs) | {reject}) - {cb5[3]}
            bad = [x for x in sorted(region) if b5.term(x)[0] == "Call" and (b5.term(x)[1].get("f") or "").startswith(PANICS)]
            n5 += 1
            ctx.ob("R16.5", f"{k5}|refusal-does-not-panic", not bad, b5.loc(bad[0]) if bad else b5.loc(gb),
                   "no explicit panic / assertion between the 'no room' answer of the fullness test and the give-up answer" if not bad else
                   "an assertion / panic is reachable on the refused path (before the give-up answer): a full buffer panics instead of handing the input back")
            break
    ctx.floor("R16.5", 2)
    # ------------------------------------------------------------------ R16.6 'retrying after room was made succeeds': a released payload's slot goes back to the pool
    # (dealloc_id re-enqueues the id exactly once on every path, whatever the payload type -- shared with C13 R13.1)
    C13 = importlib.import_module("props.C13")
    class OnlyDeallocId(util.PrefixedCtx):
        def ob(self, rule, key, ok, site="", detail="", nontrivial=True, undecided=False):
            if rule == "R13.1" and "dealloc_id" in key: return super().ob(rule, key, ok, site, detail, nontrivial, undecided)
            return ok
    util.guarded(ctx, C13.check, OnlyDeallocId(ctx, "R16.6"))
    if not getattr(ctx, "deferred_infra", None): ctx.floor("R16.6", 2)
    # 'one owner per pool slot' across the OgreUnique -> OgreArc conversion (shared with C14 R14.5 / R14.8): a conversion that lets the unique handle's Drop run frees
    # the slot the new shared handle still owns -- the slot is handed out twice (two accepted events in one slot) and freed twice
    __import__("importlib").import_module("props.C14").check_unique_to_shared(ctx, "R16.7")
    # R16.8 'BUFFER_SIZE events can be outstanding again': a dropped listener's leftovers are discarded completely (they hold pool slots of the ogre_arc channels) -- the
    # drain rule of C10 R10.1
    import streamrules as _S
    _S.check_drain_before_release(util.PrefixedCtx(ctx, "R16.8"), "drop")
    # ------------------------------------------------------------------ R16.3 exact capacity
    C02 = importlib.import_module("props.C02")
    class OnlyGuards(util.PrefixedCtx):
        def ob(self, rule, key, ok, site="", detail="", nontrivial=True, undecided=False):
            if rule in ("R02.2", "R02.1"): return super().ob(rule, key, ok, site, detail, nontrivial, undecided)
            return ok
    C02.check(OnlyGuards(ctx, "R16.3"))
    # crossbeam fullness test of the setter-based sends
    path = R.CHANNELS["uni.movable.crossbeam"]
    for en in ("send_with", "send_with_async"):
        k = f"{path} as {R.T_PROD}::{en}"
        body = Body(fx.fn(k))
        co = C01._is_coroutine_wrapper(body)
        if co: k = co; body = Body(fx.fn(k))
        dg = D.Dag(body)
        vd = [v for v in C01.verdicts(body) if v[1] == "Transient"]
        tests = []
        for b in sorted(body.reachable):
            t = body.term(b)
            if t[0] != "Switch" or t[5] != "bool": continue
            e = strip_casts(dg.expr(t[1]))
            if e[0] == "call" and e[1].endswith("::is_full") and "tx" in show(e):
                tests.append((b, "is_full", True))
            else:
                c = D.cmp_of_switch(body, dg, b)
                if c and ("len@" in show(c[1]) or "len@" in show(c[2])):
                    op, x, y = D.canon_cmp(c[0], c[1], c[2])
                    N = ("gconst", "BUFFER_SIZE")
                    # exact forms: N <= len  (len >= N) ;  !(len < N)
                    exact = (op == "le" and strip_casts(x) == N and "len@" in show(y)) or (op == "eq" and N in (strip_casts(x), strip_casts(y)))
                    tests.append((b, f"{show(c[1])} {c[0]} {show(c[2])}", exact))
        ctx.ob("R16.3", f"{k}|fullness-test-exact", bool(tests) and all(t[2] for t in tests), body.loc(tests[0][0]) if tests else f"{body.f['file']}:{body.f['line']}",
               f"fullness test(s): {[t[1] for t in tests]}; required: tx.is_full() or the equivalent len >= BUFFER_SIZE (an off-by-one here lets the setter run and then wait for room instead of rejecting)")
    # alias agreement: pool size / ring size / kind
    n_al = 0
    def walk(t, alias):
        nonlocal n_al
        if not isinstance(t, dict): return
        if t.get("k") == "adt":
            p = t["path"]
            if p in (R.CHANNELS["uni.zero_copy.atomic"], R.CHANNELS["uni.zero_copy.full_sync"], R.CHANNELS["multi.ogre_arc.atomic"], R.CHANNELS["multi.ogre_arc.full_sync"]):
                args = t["args"]
                alloc = [a for a in args if isinstance(a, dict) and a.get("k") == "adt" and a["path"] == R.POOL]
                consts = [a["s"] for a in args if isinstance(a, dict) and a.get("k") == "const"]
                if alloc:
                    al = alloc[0]
                    cont = [a for a in al["args"] if isinstance(a, dict) and a.get("k") == "adt"]
                    pool_n = [a["s"] for a in al["args"] if isinstance(a, dict) and a.get("k") == "const"]
                    ring_n = [a["s"] for a in cont[0]["args"] if isinstance(a, dict) and a.get("k") == "const"] if cont else []
                    want_kind = "atomic_move::AtomicMove" if "::atomic::" in p else "full_sync_move::FullSyncMove"
                    ok = bool(cont) and cont[0]["path"].endswith(want_kind) and pool_n[:1] == ring_n[:1] == consts[:1]
                    n_al += 1
                    ctx.ob("R16.3", f"{alias}|pool-ring-channel-sizes-agree", ok, "", f"channel {p.split('::')[-2]}::{p.split('::')[-1]} size {consts[:1]}, pool {pool_n[:1]}, free-list ring {ring_n[:1]} of kind {cont[0]['path'].split('::')[-1] if cont else None}", nontrivial=False)
            for a in t.get("args", []): walk(a, alias)
    for k, a in sorted(fx.aliases.items()):
        walk(a.get("ty"), k)
    ctx.floor("R16.1", 12); ctx.floor("R16.3", 14)
