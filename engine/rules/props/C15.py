"""C15 - behaviour is independent of how many events flowed before (sequence-counter wrap-around)."""
import dag as D, dims, roles as R, facts as F
from dag import strip_casts, show
from mir import Body

LEVEL = "other"
EXPLANATION = ("Dimension analysis of the free-running u32 sequence counters (head, tail, enqueuer_tail, dequeuer_head of both rings; kinds Abs / Dist / Idx / "
               "Lap / Base propagated through the expression DAG and, interprocedurally, through parameters and returned tuples) over the ring buffers, "
               "zero-copy containers, pool allocator and the Uni/Multi channels: (R15.1) no overflow-checked or saturating/checked-API arithmetic has an "
               "absolute position as operand except the lap reconstruction `index + (pos / N) * N`, and a checked `distance + const` only under a dominating "
               "bound on that distance -- so no operation can panic or change its answer because a counter wrapped (sufficient for the 'no panic' clause); "
               "(R15.2) no ordered comparison (<, <=, >, >=) has absolute positions on both sides or compares one with a constant; lap-vs-lap comparisons "
               "are individually listed with the reason they are benign; a range `a..b` over positions counts as such a comparison (empty once b wrapped); every fullness/emptiness decision is taken on a wrapping difference; (R15.3) the "
               "ring sizes are forced to powers of two by a const the constructors reference, so `pos % N` and `pos / N` are continuous across 2^32.")
ASSUMPTIONS = ["behavioural equivalence of whole histories across the wrap would need a differential run; decided here: every arithmetic/comparison site on counters is wrap-safe",
               "the mmap log's 64-bit positions are outside the property's container list (2^64 events unreachable); its `1 + tail as u32` length report is noted in DESIGN.md D7"]

SCOPE = ("ogre_std::ogre_queues::atomic::", "ogre_std::ogre_queues::full_sync::", "ogre_std::ogre_alloc::", "uni::channels::", "multi::channels::")
CHECKED = {"AddWithOverflow": "+", "SubWithOverflow": "-", "MulWithOverflow": "*"}
ORDERED = ("Lt", "Le", "Gt", "Ge")
RISKY_CALLS = {"saturating_sub", "saturating_add", "checked_sub", "checked_add", "checked_mul", "abs_diff", "max", "min", "cmp", "partial_cmp",
               "lt", "le", "gt", "ge", "clamp", "pow", "checked_rem", "checked_div"}
# lap-vs-lap ordered comparisons confirmed by reading (key = function | canonical shape)
LAP_CMP_BENIGN = {
    "ogre_std::ogre_queues::atomic::atomic_move::AtomicMove::try_publish_leaked_internal_index":
        "candidate id restarts from lap 0 on every call; a false answer only makes the try_* API report 'retry'",
    "ogre_std::ogre_queues::atomic::atomic_move::AtomicMove::try_unleak_slot_index_internal":
        "same as above, on the reservation counter",
}


def check(ctx):
    fx = ctx.fx
    dm = dims.Dims(fx, lambda f: f["key"].startswith(SCOPE) and "log_topics" not in f["key"])
    n_abs_sites = 0
    for k, body in dm.bodies.items():
        dg = dm.dags[k]
        short = k
        for blk in sorted(body.reachable):
            for i, st in enumerate(body.stmts(blk)):
                if st[0] != "A" or st[2][0] != "Bin": continue
                op = st[2][1]
                if op not in CHECKED and op not in ORDERED: continue
                ea, eb = dg.expr(st[2][2]), dg.expr(st[2][3])
                ka, kb = dm.kind(k, ea), dm.kind(k, eb)
                ka = "Abs" if ka == "Abs?" else ka; kb = "Abs" if kb == "Abs?" else kb
                if isinstance(ka, tuple) or isinstance(kb, tuple): continue
                kinds = (ka, kb)
                shape = f"{ka}{CHECKED.get(op, op)}{kb}"
                site = body.loc(blk, i)
                if op in CHECKED:
                    if not ({"Abs", "Base", "Dist", "DistB", "Lap", "Idx"} & set(kinds)): continue
                    n_abs_sites += 1
                    ok = False; why = ""
                    if op == "MulWithOverflow" and set(kinds) <= {"Lap", "N", "K"}:
                        ok = True; why = "lap * N <= the position it was derived from"
                    elif op == "AddWithOverflow" and set(kinds) == {"Idx", "Base"} or (op == "AddWithOverflow" and set(kinds) == {"Abs", "Base"} and _is_index_param(dm, k, ea, eb)):
                        ok = True; why = "index + lap*N reconstructs a position below the one the lap came from"
                    elif op in ("AddWithOverflow", "SubWithOverflow") and set(kinds) <= {"DistB", "K", "N"}:
                        ok = True; why = "distance is bounded by a dominating guard"
                    elif op in ("AddWithOverflow", "SubWithOverflow") and "Dist" in kinds and set(kinds) <= {"Dist", "K", "N"}:
                        e = ea if ka == "Dist" else eb
                        ok = dm.bounded(k, blk, e); why = "distance bounded by a dominating guard" if ok else "checked arithmetic on an unbounded wrapping distance"
                    elif set(kinds) <= {"Idx", "K", "N"}:
                        ok = True; why = "index arithmetic below N"
                    else:
                        why = "overflow-checked arithmetic on a free-running position: panics (debug) / diverges from a fresh queue once the counter has wrapped"
                    ctx.ob("R15.1", f"{short}|{shape}", ok, site, f"`{show(ea)} {CHECKED[op]} {show(eb)}` kinds {ka},{kb}: {why}")
                else:
                    pos = {"Abs", "Base"}
                    if ka in pos and kb in pos or (ka in pos and kb in ("K", "N")) or (kb in pos and ka in ("K", "N")):
                        n_abs_sites += 1
                        ctx.ob("R15.2", f"{short}|{shape}", False, site,
                               f"ordered comparison `{show(ea)} {op} {show(eb)}` on free-running positions ({ka} vs {kb}): its answer flips when a counter wraps; compare wrapping differences instead")
                    elif ka == "Lap" and kb == "Lap":
                        n_abs_sites += 1
                        reason = LAP_CMP_BENIGN.get(k)
                        ctx.ob("R15.2", f"{short}|{shape}", reason is not None, site,
                               f"lap-vs-lap comparison `{show(ea)} {op} {show(eb)}`: " + (f"listed benign: {reason}" if reason else "not in the list of reviewed lap comparisons"))
                    elif ("Dist" in kinds or "DistB" in kinds) and set(kinds) <= {"Dist", "DistB", "K", "N"}:
                        n_abs_sites += 1
                        ctx.ob("R15.2", f"{short}|{shape}", True, site, f"decision taken on a wrapping difference: `{show(ea)} {op} {show(eb)}`")
        # a range over positions (`for id in head..tail`) is an ordered comparison in disguise: Range::next tests start < end
        for blk in sorted(body.reachable):
            for i, st in enumerate(body.stmts(blk)):
                if st[0] == "A" and st[2][0] == "Agg" and st[2][1][0] == "Adt" and ("ops::Range" in st[2][1][1]) and len(st[2][2]) == 2:
                    ea, eb = dg.expr(st[2][2][0]), dg.expr(st[2][2][1])
                    ka, kb = dm.kind(k, ea), dm.kind(k, eb)
                    ka = "Abs" if ka == "Abs?" else ka; kb = "Abs" if kb == "Abs?" else kb
                    if isinstance(ka, tuple) or isinstance(kb, tuple): continue
                    if ka in ("Abs", "Base") or kb in ("Abs", "Base"):
                        n_abs_sites += 1
                        ctx.ob("R15.2", f"{short}|range({ka},{kb})", False, body.loc(blk, i),
                               f"range `{show(ea)}..{show(eb)}` over free-running positions: it is empty as soon as the end has wrapped and the start has not "
                               "(leftovers are skipped); iterate over the wrapping distance instead")
        # bitwise arithmetic on positions: only `pos & (N-1)` (== pos % N) is position arithmetic
        for blk in sorted(body.reachable):
            for i, st in enumerate(body.stmts(blk)):
                if st[0] == "A" and st[2][0] == "Bin" and st[2][1] in ("BitOr", "BitAnd", "BitXor", "Shl", "Shr"):
                    e = ("bin", st[2][1], dg.expr(st[2][2]), dg.expr(st[2][3]))
                    if dm.kind(k, e) == "AbsBits":
                        n_abs_sites += 1
                        ctx.ob("R15.1", f"{short}|{st[2][1]}-on-position", False, body.loc(blk, i),
                               f"`{show(e)[:120]}`: bitwise arithmetic on a free-running position; positions may only be reduced (`% N`, `/ N`, `& (N-1)`), rebuilt as `index + lap*N`, or moved by wrapping ±const")
        # a wrapping difference / sum must be taken at the counter's own width (u32): widening first changes the modulus
        seen_w = set()
        for blk in sorted(body.reachable):
            sites = []
            for i, st in enumerate(body.stmts(blk)):
                if st[0] == "A" and st[2][0] == "Bin" and st[2][1] in ("Add", "Sub", "AddWithOverflow", "SubWithOverflow"):
                    sites.append((st[2][1], st[2][2], st[2][3], body.loc(blk, i)))
            t = body.term(blk)
            if t[0] == "Call" and t[1].get("fname") in ("wrapping_sub", "overflowing_sub", "wrapping_add", "overflowing_add") and len(t[1]["args"]) == 2:
                sites.append((t[1]["fname"], t[1]["args"][0], t[1]["args"][1], body.loc(blk)))
            for (opn, oa, ob, site) in sites:
                ka, kb = dm.kind(k, dg.expr(oa)), dm.kind(k, dg.expr(ob))
                if "AbsW" in (ka, kb) and (ka, kb, opn) not in seen_w:
                    seen_w.add((ka, kb, opn)); n_abs_sites += 1
                    ctx.ob("R15.1", f"{short}|{opn}({ka},{kb})|widened", False, site,
                           f"`{show(dg.expr(oa))} {opn} {show(dg.expr(ob))}`: a u32 position is widened before the difference/sum is taken, so the result no longer wraps at 2^32 "
                           "(a live window straddling the wrap yields a huge distance)")
        for (b, c) in body.calls:
            if c.get("fname") in RISKY_CALLS and c.get("fcrate") != fx.meta["crate"]:
                ks = [dm.kind(k, dg.expr(a)) for a in c["args"]]
                ks = ["Abs" if x == "Abs?" else x for x in ks]
                if any(x in ("Abs", "Base") for x in ks if not isinstance(x, tuple)):
                    n_abs_sites += 1
                    ctx.ob("R15.1", f"{short}|{c['fname']}({','.join(map(str, ks))})", False, body.loc(b),
                           f"`{c['fname']}` applied to a free-running position: saturating / checked / ordering APIs answer differently after the counter wraps")
    ctx.note(f"functions in scope: {len(dm.bodies)}; parameter kinds inferred: {sum(1 for v in dm.param.values() if v not in ('O', 'K', 'N'))}")
    for (fk, i), v in sorted(dm.param.items()):
        if v in ("Abs", "Dist", "DistB", "Idx"): ctx.note(f"param kind: {fk.split('::')[-1]}#{i} = {v}")
    # ------------------------------------------------------------------ R15.3 power-of-two ring sizes
    for adt, name in ((R.AM, "AtomicMove"), (R.FSM, "FullSyncMove")):
        ctors = [f for f in fx.fns if f.get("impl_self") == adt and f["key"].split("::")[-1] in ("new", "with_initializer")]
        refs = []
        for f in ctors:
            for blk in f["blocks"]:
                for st in blk["stmts"]:
                    if st[0] == "A" and "POWER_OF_2" in str(st[2]): refs.append(f["key"])
        cdef = [c for c in fx.consts if "POWER_OF_2" in str(c) and name in str(c)] if isinstance(fx.consts, list) else [c for c in fx.consts if "POWER_OF_2" in c and name in c]
        ctx.ob("R15.3", f"{adt}|power-of-two-enforced", bool(refs), ctors[0]["file"] + ":" + str(ctors[0]["line"]) if ctors else "",
               f"constructor(s) {sorted(set(x.split('::')[-1] for x in refs))} reference the BUFFER_SIZE_MUST_BE_A_POWER_OF_2 const (evaluation fails for other sizes), so pos % N and pos / N are continuous across the 2^32 wrap")
    if ctx.config == "lib":
        ctx.floor("R15.1", 8); ctx.floor("R15.2", 6)
    ctx.floor("R15.3", 2)


def _is_index_param(dm, k, ea, eb):
    for e in (ea, eb):
        e = strip_casts(e)
        if e[0] == "param" and "index" in str(e[2]): return True
    return False
