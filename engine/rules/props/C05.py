"""C05 - payloads are destroyed exactly once and their storage is never reused while held; no use-after-free at teardown."""
import dag as D, guards, util, ts, roles as R, facts as F
from dag import strip_casts, show
from mir import Body, op_local
import importlib

LEVEL = "other"
EXPLANATION = ("(R05.1, type-level, every instantiation) in any struct that owns a pool allocator by value and a field whose type holds "
               "OgreArc/OgreUnique handles into it, the handle-holding field is declared (hence dropped) before the allocator; (R05.2/3) the "
               "OgreArc / OgreUnique drop protocols of C14 (only the decrement that observes 1 frees; unique->shared suppresses the unique "
               "drop); (R05.4) dealloc_id destroys the payload strictly before re-enqueueing the slot, once; (R05.5) the rings' Drop impls drain "
               "through consume_movable so buffered ManuallyDrop payloads are dropped once, and slots are moved out only by ptr::read inside "
               "consume_movable; (R05.6) each zero-copy consume creates exactly one OgreUnique per dequeued id; the multi ogre_arc fan-out "
               "pre-loads the reference count before the first copy becomes visible.")
EXPLANATION += " R05.4 also requires drop_in_place to be instantiated at the payload type (not a ManuallyDrop / MaybeUninit wrapper, whose drop glue is empty) and to sit on the needs_drop == true side; (R05.8) second-layer who-may-free: the zero-copy containers' unleak_slot_* / release_leaked_* (which run the destructor on the slot's bytes) are called only by the container's consume and the channels' try_cancel_slot_reserve, and each of them deallocates its own argument exactly once on every path; (R05.9) buffered payloads leave a ring only through the counter protocol of C02 R02.1 (a head that is jumped forward forgets ManuallyDrop payloads)."
EXPLANATION += " R05.2 also imports C14's R14.1 (every reference-count mutation is one atomic add / subtract: a `store(1 + n)` forgets existing handles); R05.4 also requires dealloc_ref to release through dealloc_id (C13 R13.2)."
EXPLANATION += ' (R05.10) no library function drops a value of a payload type parameter through a reference (an assignment `*slot = item` into a ring / pool slot drops the stale copy of an already-delivered payload from the second lap on); R05.4 / R05.2 imports as listed under C13 / C14.'
EXPLANATION += ' R05.3 also requires `From<OgreUnique> for OgreArc` to go through into_ogre_arc (C14 R14.8).'
EXPLANATION += " (R05.11) a reserved slot wrapped in its owning handle is answered true (C08 R08.6: a false invites a second free) and the ogre_arc sends own their slot through one handle from allocation to fan-out, also across the setter's await (C03 R03.2: a future dropped mid-await frees it)."
ASSUMPTIONS = ["setters initialise slots without reading/dropping previous bytes; handles do not outlive their channel (property's own assumptions)",
               "races between a late reader and slot recycling beyond the refcount protocol are not decided"]

def ty_contains_handle(t, alloc_param):
    """type tree contains OgreArc<_, P> / OgreUnique<_, P> with P the given generic parameter"""
    if not isinstance(t, dict): return False
    if t.get("k") == "adt":
        if t["path"] in (R.ARC, R.UNIQUE):
            for a in t.get("args", []):
                if a.get("k") == "param" and a.get("s") == alloc_param: return True
        return any(ty_contains_handle(a, alloc_param) for a in t.get("args", []))
    for key in ("to", "elem"):
        if key in t and ty_contains_handle(t[key], alloc_param): return True
    if t.get("k") == "tuple":
        return any(ty_contains_handle(a, alloc_param) for a in t["elems"])
    return False

def check(ctx):
    fx = ctx.fx
    # ------------------------------------------------------------------ R05.1 teardown order
    n = 0
    for path, a in sorted(fx.adts.items()):
        if a["kind"] != "Struct": continue
        fields = a["variants"][0]["fields"]
        for i, f in enumerate(fields):
            t = f["ty"]
            # an allocator owned by value: a field whose type is a bare generic parameter P (or the pool type itself)
            if t.get("k") == "param":
                P = t["s"]
                holders = [(j, g["name"]) for j, g in enumerate(fields) if j != i and ty_contains_handle(g["ty"], P)]
                for (j, gname) in holders:
                    n += 1
                    ctx.ob("R05.1", f"{path}|{gname}-before-{f['name']}", j < i, f"{a['file']}:{a['line']}",
                           f"field `{gname}` holds handles into allocator field `{f['name']}`; Rust drops fields in declaration order, so `{gname}` must be declared before `{f['name']}` (else teardown with buffered events frees them through a dropped pool)")
    ctx.floor("R05.1", 2)
    # ------------------------------------------------------------------ R05.2 / R05.3 / R05.4: shared with C14 / C13
    # (R14.1: every count mutation is one atomic read-modify-write that ADDS / SUBTRACTS -- a `store(1 + n)` forgets the handles that already exist and the payload is
    #  destroyed while they are still held; R13.2: `dealloc_ref` releases through `dealloc_id`, the only place that runs the destructor)
    for (mod, rules, prefix) in (("props.C14", ("R14.1", "R14.2", "R14.5"), {"R14.1": "R05.2", "R14.2": "R05.2", "R14.5": "R05.3"}),
                                 ("props.C13", ("R13.1", "R13.2", "R13.3"), {"R13.1": "R05.4", "R13.2": "R05.4", "R13.3": "R05.8"})):
        m = importlib.import_module(mod)
        sub = type(ctx)(ctx.pid, fx, ctx.tier, ctx.config)
        m.check(sub)
        for o in sub.obs:
            if o["rule"] == "R13.2" and "dealloc_ref" not in o["key"]: continue
            if o["rule"] in rules and ("dealloc_id" in o["key"] or o["rule"] != "R13.1"):
                r = prefix[o["rule"]]
                ctx.ob(r, o["key"].split("|", 1)[1], o["ok"], o["site"], o["detail"], o["nontrivial"])
    # ------------------------------------------------------------------ R05.9 buffered payloads leave a ring only through consume (counter protocol shared with C02 R02.1)
    # (ring slots are ManuallyDrop: a `head` that is stored / jumped forward -- a constant-time 'discard all' -- forgets the payloads in between: they are never
    #  destroyed, their reference counts never reach zero and their pool slots stay occupied)
    C02 = importlib.import_module("props.C02")
    class OnlyProtocol(util.PrefixedCtx):
        def ob(self, rule, key, ok, site="", detail="", nontrivial=True, undecided=False):
            if rule == "R02.1": return super().ob(rule, key, ok, site, detail, nontrivial, undecided)
            return ok
    C02.check(OnlyProtocol(ctx, "R05.9"))
    # ------------------------------------------------------------------ R05.5 leftovers & who-may-move-out
    for ring in (R.AM, R.FSM):
        kd = f"{ring} as std::ops::Drop::drop"
        f = fx.fn_opt(kd)
        if f is None:
            ctx.note(f"{ring}: no Drop impl (leftovers leak, which 'at most once' allows)"); continue
        body = Body(f); dg = D.Dag(body)
        cons = [(b, c) for (b, c) in body.calls if c.get("fname") == "consume_movable"]
        ok = len(cons) == 1 and util.in_loop(body, cons[0][0])
        detail = "drains through consume_movable in a loop"
        if ok:
            # loop exits only on the None edge of the consume result
            h = [h for h, blocks in body.loops.items() if cons[0][0] in blocks]
            exits = body.loop_exits(h[0]) if h else []
            good = True
            for (xb, xt) in exits:
                ve = util.variant_edges(body, xb)
                if not ve: good = False; continue
                (subj, arms, oth) = ve
                is_none_edge = (arms.get(0) == xt) or (oth == xt and 1 in arms)
                src = dg.local(subj)
                if not (is_none_edge and src[0] == "call" and src[1].endswith("consume_movable")): good = False
            ok = good and bool(exits)
            detail = "drain loop is left only when consume_movable answers None"
        ctx.ob("R05.5", f"{kd}|drains-leftovers", ok, f"{f['file']}:{f['line']}", detail)
        # who may ptr::read slots of this ring
        for g in fx.fns:
            if g.get("impl_self") != ring: continue
            for blk in g["blocks"]:
                t = blk["term"]
                if t[0] == "Call" and t[1].get("f") in ("std::ptr::read", "std::ptr::read_volatile", "std::ptr::read_unaligned") and not t[1].get("exp"):
                    nme = g["owner_fn"].split("::")[-1]
                    ctx.ob("R05.5", f"{g['owner_fn']}|moves-out-slot", nme == "consume_movable", f"{g['file']}:{t[1]['line']}", f"`{nme}` moves a payload out of the ring with ptr::read; only consume_movable may (each buffered payload is dropped once)")
    # ------------------------------------------------------------------ R05.10 slots are written, never assigned
    # A ring / pool slot handed to a producer (`&mut ItemType` from leak_slot / reserve_slot / the setter's parameter) holds either the Default value of the first lap or
    # the bytes of a payload that was already delivered and destroyed.  `*slot = item` first DROPS what the slot held -- from the second lap on that is the stale copy:
    # the delivered payload is destroyed a second time.  No library function drops a value of a payload type parameter through a reference (payloads are moved in with
    # ptr::write and out with ptr::read; the one sanctioned destruction is dealloc_id's drop_in_place).
    n10 = 0
    PRIMS = {"u8", "u16", "u32", "u64", "usize", "i8", "i16", "i32", "i64", "isize", "bool", "f32", "f64", "char", "()", "str"}
    for f in fx.fns:
        for bi, blk in enumerate(f["blocks"]):
            t = blk["term"]
            if t[0] != "Drop" or blk.get("cleanup") or not isinstance(t[1], dict) or "*" not in t[1].get("p", []): continue
            ty = str(t[5]) if len(t) > 5 else ""
            is_param = bool(ty) and "::" not in ty and "<" not in ty and "&" not in ty and "[" not in ty and "(" not in ty and ty not in PRIMS
            if not is_param: continue
            n10 += 1
            ctx.ob("R05.10", f"{f['key']}|drops-a-payload-through-a-reference|{ty}", False, f"{f['file']}:{t[4] if len(t) > 4 else f['line']}",
                   f"a value of the payload type `{ty}` is dropped in place through a reference (an assignment `*slot = value` drops what the slot held): slots hold stale copies of "
                   "delivered payloads from the second lap on -- use ptr::write")
    ctx.ob("R05.10", "no-payload-dropped-through-a-reference", n10 == 0, "", f"{n10} drops of a payload-typed place behind a reference", nontrivial=False)
    # ------------------------------------------------------------------ R05.6 one OgreUnique per dequeued id
    for name in ("uni.zero_copy.atomic", "uni.zero_copy.full_sync"):
        k = f"{R.CHANNELS[name]} as {R.T_CONS}::consume"
        body = Body(fx.fn(k))
        mk = [(b, c) for (b, c) in body.calls if c.get("fname") in ("from_allocated_ref", "from_allocated_id") and R.UNIQUE in (c.get("f") or "")]
        inner = []
        for ck in fx.children.get(k, []):
            bb = Body(ck)
            inner += [(b, c) for (b, c) in bb.calls if c.get("fname") in ("from_allocated_ref", "from_allocated_id") and R.UNIQUE in (c.get("f") or "")]
        tot = mk + inner
        ok = len(tot) == 1 and not any(util.in_loop(body, b) for (b, _) in mk)
        ctx.ob("R05.6", f"{k}|one-unique-handle-per-item", ok, f"{body.f['file']}:{body.f['line']}", f"{len(tot)} OgreUnique constructions per consumed slot; exactly one")
    for tr in ("std::clone::Clone", "std::marker::Copy"):
        has = [i for i in fx.impls_of(tr) if i["self"] == R.UNIQUE]
        ctx.ob("R05.6", f"{R.UNIQUE}|not-{tr.split('::')[-1]}", not has, "", f"OgreUnique must not implement {tr}", nontrivial=False)
    # ------------------------------------------------------------------ R05.7 refcount pre-load precedes the first visible copy (multi ogre_arc)
    for name in ("multi.ogre_arc.atomic", "multi.ogre_arc.full_sync"):
        k = f"{R.CHANNELS[name]} as {R.T_PROD}::send_derived"
        body = Body(fx.fn(k))
        incs = [(b, c) for (b, c) in body.calls if c.get("fname") == "increment_references"]
        pubs = [(b, c) for (b, c) in body.calls if c.get("fname") in ("publish_movable", "publish")]
        ok = len(incs) == 1 and bool(pubs) and all(body.dominates(incs[0][0], pb) for (pb, _) in pubs) and not util.in_loop(body, incs[0][0])
        ctx.ob("R05.7", f"{k}|preload-before-fanout", ok, body.loc(incs[0][0]) if incs else f"{body.f['file']}:{body.f['line']}",
               "the reference count must be raised for all copies before the first copy is published (a listener that consumes and drops inside the send window would otherwise free the payload while other handles exist)")
    # ... and equals the number of copies handed out: one reference too few destroys the payload while a listener still holds it, one too many keeps its
    # storage occupied for good (pairing rule shared with C17 R17.2)
    import importlib as _il
    _il.import_module("props.C17").check_refcount_pairing(util.PrefixedCtx(ctx, "R05.7"))
    # 'one owner per pool slot' across the OgreUnique -> OgreArc conversion (shared with C14 R14.5 / R14.8): a conversion that lets the unique handle's Drop run frees
    # the slot the new shared handle still owns -- the slot is handed out twice (two accepted events in one slot) and freed twice
    __import__("importlib").import_module("props.C14").check_unique_to_shared(ctx, "R05.3")
    # R05.11 a reserved slot that was wrapped in its owning handle is answered `true` (a `false` invites the documented retry / cancel: a second free -- C08 R08.6), and
    # the ogre_arc sends own their slot through ONE handle from allocation to fan-out, also across the setter's await (a future dropped mid-await must free it -- C03 R03.2)
    for (mod_, rules_, filt_) in (("props.C08", ("R08.6",), ""), ("props.C03", ("R03.2",), "ogre_arc")):
        sub_ = util.fresh_ctx(ctx, mod_[-3:])
        util.guarded(ctx, importlib.import_module(mod_).check, sub_)
        for o in sub_.obs:
            if o["rule"] in rules_ and filt_ in o["key"]: ctx.ob("R05.11", o["key"], o["ok"], o["site"], o["detail"], o["nontrivial"])
    ctx.floor("R05.5", 4); ctx.floor("R05.6", 2); ctx.floor("R05.7", 2); ctx.floor("R05.2", 5); ctx.floor("R05.4", 4)
