"""C18 - stand-alone stacks and queues are linearizable bounded LIFO / FIFO.
Stacks: complete critical sections (sufficient for mutual exclusion => histories are interleavings of whole operations).
Queues: thin wrappers => structural delegation checks (their concurrency behaviour is C01/C02's clauses)."""
import ts, guards, lockrules, util, roles as R, facts as F
from mir import op_local, op_int, op_place

LEVEL = "other"
EXPLANATION = ("Lock-state typestate over push/pop of both stacks (atomic-flag and parking-lot): every read/write of head, buffer and the "
               "non-atomic metrics happens with the flag/mutex held on all paths, every return leaves it free, acquire is "
               "swap(true, >=Acquire) tested for false / RawMutex::lock, release after writes is >=Release; full/empty guards are the exact "
               "canonical forms. The two non-blocking queues are checked to be delegations to the ring containers (enqueue=publish, "
               "dequeue=consume with copy-out before release) and (R18.7) the rings underneath satisfy the ring shape conditions shared with C02 (counter "
               "protocol shapes, exact fullness / emptiness guards on the signed wrapping distance, index agreement, complete full-sync critical sections) and the zero-copy "
               "containers' callback-style consume reads the element out before its slot is released to the pool.")
EXPLANATION += " R18.5 also requires enqueue / dequeue to answer only after asking the ring (or its own length query) exactly once: no early-out on a side length counter, whose update happens at another instant than the ring's; (R18.8) the LIFO data path of both stacks: push stores its argument at buffer[head], then head + 1, and answers true after storing; pop hands out buffer[head - 1] (read before the decrement, or buffer[head] read after it), head - 1, and answers Some of exactly that element."
EXPLANATION += ' R18.3 accepts the acquire as swap(true) tested for false or compare_exchange(false -> true) tested for Ok, and the release as store(false) or swap(false) with the answer ignored, with the same ordering requirements.'
ASSUMPTIONS = ["mutual exclusion + the sequential behaviour covered by the single-threaded unit tests => linearizability of the stacks",
               "linearizability of the atomic ring under contention is not decided statically (see C01/C02 notes)"]

STACKS = {
    "atomic": ("ogre_std::ogre_stacks::non_blocking_atomic_stack::Stack", "flag"),
    "parking_lot": ("ogre_std::ogre_stacks::non_blocking_parking_lot_stack::Stack", "concurrency_guard"),
}
TRAIT = "ogre_std::ogre_stacks::OgreStack"

def check(ctx):
    fx = ctx.fx
    eng = ts.Engine(fx)
    for name, (adt, lockf) in STACKS.items():
        a = fx.adts.get(adt)
        if not a: raise F.InfraError(f"stack type missing: {adt}")
        fields = [f["name"] for f in a["variants"][0]["fields"]]
        if lockf not in fields: raise F.InfraError(f"{adt}: lock field {lockf} missing")
        lock_pred = lambda r, lf=lockf: r[0] == "lock" and r[1] and r[1][-1] == lf
        keys = [f"{adt} as {TRAIT}::push", f"{adt} as {TRAIT}::pop"]
        for k in keys: fx.fn(k)
        # guarded = every non-atomic field written in push/pop
        written = set()
        for k in keys:
            for acc in guards.accesses(eng.body(k), adt, None):
                if acc["kind"] == "w": written.add(acc["field"])
        atomics = {f["name"] for f in a["variants"][0]["fields"] if "Atomic" in f["ty"].get("s", "") or f["ty"].get("path", "").startswith("std::sync::atomic")}
        guarded = (written | {"head", "buffer"}) - atomics - {lockf}
        ctx.note(f"{name} stack: guarded fields {sorted(guarded)}")
        lockrules.check_critical_sections(ctx, eng, "R18.1", keys, adt, lock_pred, guarded=guarded,
            exempt_blocks=lambda body: guards.const_param_guard_blocks(body, "DEBUG"))
        for k in keys:
            body = eng.body(k); an = eng.analyse(k)
            # R18.2 every exit free
            leaks = [o for o in an.outcomes if o[1]]
            ctx.ob("R18.2", f"{k}|returns-with-lock-free", not leaks, f"{body.f['file']}:{body.f['line']}",
                   "every return path leaves the lock released" if not leaks else f"a return path leaves lock state {sorted(leaks[0][1])}")
            # R18.3 orderings
            acc = guards.accesses(body, adt, guarded)
            wblocks = {x["b"] for x in acc if x["kind"] == "w"}
            for (b, c) in body.calls:
                at = R.atomic_target(body, c)
                if at and at[1] == lockf:
                    meth = at[2]
                    is_cas_acq = meth in ("compare_exchange", "compare_exchange_weak") and R.op_int(c["args"][1]) == 0 and R.op_int(c["args"][2]) == 1
                    if (meth == "swap" and R.op_int(c["args"][1]) == 1) or is_cas_acq:
                        o = lockrules.ordering_of(body, c["args"][3 if is_cas_acq else 2])
                        ctx.ob("R18.3", f"{k}|acquire-ordering", o in lockrules.ORD_OK_ACQ, body.loc(b), f"flag acquire is {meth}(.. true, {o}); needs >= Acquire on success")
                    elif meth == "store" or (meth == "swap" and R.op_int(c["args"][1]) == 0):
                        o = lockrules.ordering_of(body, c["args"][2])
                        after_write = any(b in body.reach_from(w) for w in wblocks)
                        ok = o in lockrules.ORD_OK_REL or not after_write
                        ctx.ob("R18.3", f"{k}|release-ordering|{'after-write' if after_write else 'no-write'}", ok, body.loc(b),
                               f"flag release store(false, {o}) {'after writes to guarded state needs >= Release' if after_write else 'with nothing written (Relaxed accepted)'}")
                    else:
                        ctx.ob("R18.3", f"{k}|flag-op|{meth}", meth in ("load",), body.loc(b), f"unexpected operation `{meth}` on the lock flag")
            # R18.4 exact guards
            check_guard(ctx, k, body, adt, "push" if k.endswith("push") else "pop")
            check_data_path(ctx, k, body, adt, "push" if k.endswith("push") else "pop")
    ctx.floor("R18.1", 4); ctx.floor("R18.2", 4); ctx.floor("R18.4", 4)
    queues(ctx, eng)

def _head_read(body, o):
    """operand is a copy of `.head`"""
    l = op_local(o)
    p = op_place(o)
    if p is not None and p["p"] and any(e != "*" and e[0] == "f" and e[1] == "head" for e in p["p"]):
        return True
    if l is None: return False
    d = body.single_def(l)
    if not d: return False
    rv = d[2]
    if rv[0] == "Use": return _head_read(body, rv[1])
    if rv[0] == "Cast": return _head_read(body, rv[2])
    return False

def _is_const(body, o, name=None, val=None):
    l = op_local(o)
    if l is not None:
        d = body.single_def(l)
        if d and d[2][0] == "Use": return _is_const(body, d[2][1], name, val)
        if d and d[2][0] == "Cast": return _is_const(body, d[2][2], name, val)
        return False
    if o[0] != "k": return False
    k = o[1]
    if name is not None: return k.get("param") == name or k.get("s") == name
    return k.get("int") == val

def check_guard(ctx, key, body, adt, op):
    """push: the branch that reports 'full' is taken iff head >= BUFFER_SIZE; pop: 'empty' iff head == 0 -- judged on the canonical form of the comparison
    (operand order, strict / non-strict spelling and negation do not matter: `N <= head`, `!(head < N)`, `head < 1`, `0 == head` ...)"""
    import dag as D_
    dg = D_.Dag(body)
    is_head = lambda e: D_.strip_casts(e) == ("mem", ("head",))
    is_n = lambda e: D_.strip_casts(e) == ("gconst", "BUFFER_SIZE")
    found = False
    for b in sorted(body.reachable):
        c = D_.cmp_of_switch(body, dg, b)
        if not c: continue
        if any(tg not in body.can_return for tg in (c[3], c[4])): continue       # an assertion restating the bound (one edge only panics)
        cb = D_.canon_branch(c)
        if not cb: continue
        kind, x, y, T, Fl = cb
        if op == "push" and kind == "lt" and is_head(x) and is_n(y):
            found = True
            ok = returns_const(body, Fl, "bool", 0)           # F: !(head < N) = full
            ctx.ob("R18.4", f"{key}|full-guard", ok, body.loc(b), "the arm taken when !(head < BUFFER_SIZE) answers false (full) -- and only that arm")
        elif op == "push" and ((kind == "lt" and is_n(x) and is_head(y)) or (kind == "eq" and {True} == {is_head(x) or is_head(y)} and (is_n(x) or is_n(y)))):
            found = True
            ctx.ob("R18.4", f"{key}|full-guard", False, body.loc(b), f"full test is `{D_.show(c[1])} {c[0]} {D_.show(c[2])}`; the full arm must be exactly head >= BUFFER_SIZE")
        if op == "pop":
            zero = lambda e: D_.strip_casts(e) == ("const", 0)
            if kind == "eq" and ((zero(x) and is_head(y)) or (zero(y) and is_head(x))):
                found = True
                ctx.ob("R18.4", f"{key}|empty-guard", returns_const(body, T, "variant", 0), body.loc(b), "the arm taken when head == 0 answers None (empty) -- and only that arm")
            elif kind == "lt" and zero(x) and is_head(y):
                found = True
                ctx.ob("R18.4", f"{key}|empty-guard", returns_const(body, Fl, "variant", 0), body.loc(b), "the arm taken when !(0 < head) answers None (empty) -- and only that arm")
            elif kind in ("lt", "eq") and (is_head(x) or is_head(y)) and any(D_.strip_casts(z)[0] == "const" for z in (x, y)):
                found = True
                ctx.ob("R18.4", f"{key}|empty-guard", False, body.loc(b), f"empty test is `{D_.show(c[1])} {c[0]} {D_.show(c[2])}`; the empty arm must be exactly head == 0")
    if not found:
        ctx.ob("R18.4", f"{key}|{'full' if op == 'push' else 'empty'}-guard", False, f"{body.f['file']}:{body.f['line']}", "no recognisable full/empty guard on `head`")


def check_data_path(ctx, key, body, adt, op):
    """R18.8 last in, first out: push stores its argument at buffer[head] and then advances head by one, answering true; pop hands out buffer[head - 1] -- read
    before the decrement, or buffer[head] read after it -- moves head back by one, and answers Some of exactly that element"""
    import dag as D_
    from dag import strip_casts, show
    dg = D_.Dag(body)
    site = f"{body.f['file']}:{body.f['line']}"
    head = ("mem", ("head",))
    hw = [a for a in guards.accesses(body, adt, {"head"}) if a["kind"] == "w" and a["i"] != "T"]
    idx = [(b, c) for (b, c) in body.calls if c.get("fname") in ("get_unchecked", "get_unchecked_mut", "index", "index_mut") and "buffer" in show(dg.expr(c["args"][0]))]
    if len(hw) != 1 or len(idx) != 1:
        ctx.ob("R18.8", f"{key}|one-slot-access-one-head-update", False, site, f"{len(idx)} buffer accesses, {len(hw)} writes of head; expected one each"); return
    hb = hw[0]["b"]; ib = idx[0][0]
    step = strip_casts(dg.rvalue((hb, hw[0]["i"], body.stmts(hb)[hw[0]["i"]][2]), 0))
    i_e = strip_casts(idx[0][1]["args"][1] and dg.expr(idx[0][1]["args"][1]))
    is_head = lambda e: strip_casts(e) == head
    if op == "push":
        ok_step = step[0] == "bin" and step[1].rstrip("!~") == "Add" and is_head(step[2]) and strip_casts(step[3]) == ("const", 1)
        sts = [(b, c_, i_, rv) for (b, c_, i_, rv) in util.element_stores(body, dg) if "buffer" in show(c_)]
        ok_store = len(sts) == 1 and is_head(sts[0][2]) and rv_is_param(body, dg, sts[0][3], 2)
        ok_order = ok_store and (body.dominates(sts[0][0], hb) and sts[0][0] != hb)
        ok_ans = ok_store and returns_const(body, sts[0][0], "bool", 1)
        ctx.ob("R18.8", f"{key}|stores-the-argument-at-head-then-advances", ok_step and ok_store and ok_order, body.loc(ib),
               f"stores into buffer[{show(i_e)}], head <- {show(step)}; required: buffer[head] = element, then head + 1")
        ctx.ob("R18.8", f"{key}|answers-true-after-storing", ok_ans, site, "every answer after the store is `true`")
    else:
        ok_step = step[0] == "bin" and step[1].rstrip("!~") == "Sub" and is_head(step[2]) and strip_casts(step[3]) == ("const", 1)
        if is_head(i_e): ok_idx = body.dominates(hb, ib) and hb != ib                      # decrement first, then read buffer[head]
        elif i_e[0] == "bin" and i_e[1].rstrip("!~") == "Sub" and is_head(i_e[2]) and strip_casts(i_e[3]) == ("const", 1): ok_idx = body.dominates(ib, hb) and hb != ib   # read buffer[head-1], then decrement
        else: ok_idx = False
        ctx.ob("R18.8", f"{key}|hands-out-the-top-element", ok_step and ok_idx, body.loc(ib), f"reads buffer[{show(i_e)}], head <- {show(step)}; required: the element at head - 1 (the last one pushed), head - 1")
        # (the answer may be parked in a local until after the unlock: `let popped = if empty { None } else { ..; Some(element) }; unlock(); popped`)
        somes = [(b, st) for b in sorted(body.reachable) for st in body.stmts(b) if st[0] == "A" and not st[1]["p"] and st[2][0] == "Agg" and st[2][1][0] == "Adt" and st[2][1][2] == "Some"
                 and body.locals[st[1]["l"]]["ty"] == body.locals[0]["ty"]]
        ok_pay = bool(somes) and all(any(isinstance(x, tuple) and ((x[:1] == ("call",) and len(x) > 3 and x[3] == ib) or (x[0] == "mem" and "buffer" in x[1])) for x in _walk_e(dg.expr(st[2][2][0]))) for (_, st) in somes)
        ctx.ob("R18.8", f"{key}|answers-some-of-that-element", ok_pay and returns_const(body, ib, "variant", 1), site, "the answer after the read is Some(the element read)")


def rv_is_param(body, dg, rv, n):
    from dag import strip_casts
    if rv[0] != "Use": return False
    e = strip_casts(dg.expr(rv[1]))
    return e[:2] == ("param", n)


def _walk_e(e, depth=0):
    if not isinstance(e, tuple) or depth > 12: return
    yield e
    for x in e:
        if isinstance(x, tuple): yield from _walk_e(x, depth + 1)


def returns_const(body, start, kind, val):
    """every answer on the paths through `start` is that constant (flag-aware: the answer may be parked in a local until after the unlock)"""
    import dag as D_
    vals = util.returned_values(body, D_.Dag(body), start)
    want = ("const", val) if kind == "bool" else ("variant", val)
    return vals == {want}

def queues(ctx, eng):
    fx = ctx.fx
    Q = {"atomic": "ogre_std::ogre_queues::atomic::non_blocking_queue::NonBlockingQueue",
         "full_sync": "ogre_std::ogre_queues::full_sync::non_blocking_queue::NonBlockingQueue"}
    for name, adt in Q.items():
        if adt not in fx.adts: raise F.InfraError(f"queue type missing: {adt}")
        enq = [f for f in fx.fns if f.get("impl_self") == adt and f["key"].endswith("::enqueue")]
        deq = [f for f in fx.fns if f.get("impl_self") == adt and f["key"].endswith("::dequeue")]
        if len(enq) != 1 or len(deq) != 1: raise F.InfraError(f"{adt}: enqueue/dequeue not found")
        be = eng.body(enq[0]["key"]); bd = eng.body(deq[0]["key"])
        pubs = [c for (_, c) in be.calls if c.get("fname") in ("publish_movable", "publish") and "Publisher" in (c.get("trait") or "")]
        ctx.ob("R18.5", f"{enq[0]['key']}|delegates-to-publish", len(pubs) >= 1, f"{enq[0]['file']}:{enq[0]['line']}",
               f"enqueue delegates to the ring's publication ({[c.get('fname') for c in pubs]})")
        cons = [c for (_, c) in bd.calls if c.get("fname") in ("consume_movable", "consume") ]
        ctx.ob("R18.5", f"{deq[0]['key']}|delegates-to-consume", len(cons) >= 1, f"{deq[0]['file']}:{deq[0]['line']}",
               f"dequeue delegates to the ring's consumption ({[c.get('fname') for c in cons]})")
        # 'full' / 'empty' answers are the ring's: every answer of enqueue / dequeue is produced after asking the ring (no early-out on a side length counter,
        # which is updated at another instant than the ring and therefore reports full / empty when no such instant existed), and exactly once
        for (bq, calls_, what) in ((be, ("publish_movable", "publish"), "enqueue"), (bd, ("consume_movable", "consume"), "dequeue")):
            asks = [b for (b, c) in bq.calls if c.get("fname") in calls_]
            asks_len = [b for (b, c) in bq.calls if c.get("fname") in ("available_elements_count", "is_empty", "is_full") and "base_queue" in str(util.arg_path(bq, c, 0))]
            esc = [r for r in bq.returns if r in bq.reach_from(0, avoid=frozenset(asks) | frozenset(asks_len))] if asks and 0 not in asks and 0 not in asks_len else []
            lo, hi, inloop = util.count_on_paths(bq, lambda b: b in set(asks))
            ctx.ob("R18.5", f"{bq.key}|answers-only-after-asking-the-ring", bool(asks) and not esc and (lo, hi) == (1, 1) and not inloop,
                   bq.loc(esc[0]) if esc else f"{bq.f['file']}:{bq.f['line']}",
                   f"{what} asks the ring exactly once on every path and answers afterwards" if (asks and not esc and (lo, hi) == (1, 1)) else
                   f"{what} can answer without asking the ring (or asks {lo}..{hi} times): a 'full' / 'empty' decided from a side counter is not consistent with any instant of the call")
        for k in (enq[0]["key"], deq[0]["key"]):
            an = eng.analyse(k)
            leaks = [o for o in an.outcomes if o[1]]
            ctx.ob("R18.6", f"{k}|no-resource-left", not leaks, "", "no ring reservation / lock survives the call" if not leaks else f"returns holding {sorted(leaks[0][1])}")
    ctx.floor("R18.5", 8)


# ---------------------------------------------------------------------------------------------- R18.7 (added after seed C18-s2)
_check_c18 = check
def check(ctx):
    _check_c18(ctx)
    # the two non-blocking queues are thin wrappers (checked above); what makes their concurrent behaviour that of a queue are the shape conditions of the
    # rings underneath: counter protocol shapes, exact fullness / emptiness guards (signed view of the wrapping distance), index agreement, complete
    # full-sync critical sections -- shared with C02
    import importlib, util
    C02 = importlib.import_module("props.C02")
    C02.check(util.PrefixedCtx(ctx, "R18.7"))
    C01 = importlib.import_module("props.C01")
    C01.check_zero_copy_getters(util.PrefixedCtx(ctx, "R18.7"), "R01.1")      # dequeue copies the element out before its slot is released
    ctx.floor("R18.7", 32)
