"""C09 - log channel: full ordered replay; old/new subscriptions partition the history."""
import dag as D, util, guards, roles as R, facts as F
from dag import strip_casts, show, norm
from mir import Body, op_local

LEVEL = "other"
EXPLANATION = ("Necessary shape conditions of ordered replay and of the old/new split, decided on all paths of mmap_meta.rs and the MmapLog channel: (R09.1) publish reserves "
               "its position with publisher_tail.fetch_add(1), writes slot[position] through the setter and only then commits with a CAS on consumer_tail whose expected value "
               "is that very position and whose new value is position+1, retried until it succeeds -- so positions become visible strictly in reservation order and never "
               "before they are written; (R09.2) one split point: the old subscriber's fixed_tail and the new subscriber's starting head are the SAME value, defined by a "
               "single load of consumer_tail (the published tail), the old cursor starts at 0; new-only starts at a load of consumer_tail, joined at 0; (R09.3) subscribers "
               "compare their cursor (their own fetch_add result) with the published tail (Dynamic: a load of consumer_tail, never publisher_tail; Fixed: fixed_tail), read "
               "slot[cursor], and on the empty answer recede with CAS (cursor+1 -> cursor) before returning None; (R09.4) storage stability: the only mutable slot access is "
               "publish at its reserved position, the mapping is created and sized only in `new`; (R09.5) the old-events arm of MmapLog::consume cancels its own stream when "
               "the fixed subscriber reports empty; (R09.6) create_streams_for_old_and_new_events stores each subscriber under the id of the stream it returns for it.")
EXPLANATION += ' R09.3 also requires the recede CAS to be retried until it succeeds (its loop is left only on the Ok edge) and the empty answer to invoke report_empty_fn exactly once (the old-events stream ends through it, R09.5).'
EXPLANATION += " R09.5 accepts the self-cancel inside the report-empty callback or on the None edge of the fixed subscriber's answer; R09.6 accepts a tuple or a named struct as the split's answer (which component goes where is enforced by the variants' payload types); (R09.7) C04's wake-site rules on the log channel: every send wakes every live listener after the publication, and the listener set it walks is read after the publication."
EXPLANATION += ' R09.6 also requires both subscriber stores on every path (a re-used / rewound subscriber keeps the previous split point).'
ASSUMPTIONS = ["ordering under weak memory (the log's CAS / loads are Relaxed) is not decided; the property quantifies over interleavings",
               "the old-only subscription is todo!() upstream and excluded by the property"]

M = R.MMAP
MOD = "ogre_std::ogre_queues::log_topics::mmap_meta::"
DYN, FIX = MOD + "MMapMetaDynamicSubscriber", MOD + "MMapMetaFixedSubscriber"
LOG = R.MULTI_CHANNELS["multi.mmap_log"]


def _atomic(e, field=None, meth=None):
    e = strip_casts(e)
    return e[0] == "atomic" and (field is None or e[2][-1:] == (field,)) and (meth is None or e[1] == meth)


def _aggs(body, dg, adt_suffix):
    out = []
    for b in sorted(body.reachable):
        for st in body.stmts(b):
            if st[0] == "A" and st[2][0] == "Agg" and st[2][1][0] == "Adt" and st[2][1][1].endswith(adt_suffix):
                out.append((b, dict(zip(st[2][1][4], [dg.expr(o) for o in st[2][2]]))))
    return out


def _new_arg(e):
    """AtomicUsize::new(x) -> x"""
    e = strip_casts(e)
    if e[0] == "call" and e[1].endswith("::new") and len(e[2]) == 1: return strip_casts(e[2][0])
    return None


def check(ctx):
    fx = ctx.fx
    # ------------------------------------------------------------------ R09.1 publish
    k = [x for x in fx.by_key if x.startswith(M + " as ") and x.endswith("::publish")][0]
    body = Body(fx.fn(k)); dg = D.Dag(body)
    site = f"{body.f['file']}:{body.f['line']}"
    res = [(b, c) for (b, c) in body.calls if (R.atomic_target(body, c) or (0, 0, 0))[1:] == ("publisher_tail", "fetch_add")]
    setters = [(b, c) for (b, c) in body.calls if c.get("f") == "std::ops::FnOnce::call_once" and "setter" in show(dg.expr(c["args"][0]))]
    commits = [(b, c, R.atomic_target(body, c)[2]) for (b, c) in body.calls if (R.atomic_target(body, c) or (0, 0, 0))[1] == "consumer_tail" and R.atomic_target(body, c)[2] != "load"]
    ok = len(res) == 1 and len(setters) == 1 and len(commits) == 1
    ctx.ob("R09.1", f"{k}|reserve-write-commit-present", ok, site, f"{len(res)} reservation (publisher_tail.fetch_add), {len(setters)} payload write, {len(commits)} update(s) of consumer_tail; required 1/1/1")
    if ok:
        rb, rc = res[0]; sb, sc = setters[0]; cb, cc, meth = commits[0]
        ctx.ob("R09.1", f"{k}|reserve-by-one", strip_casts(dg.expr(rc["args"][1])) == ("const", 1) and not util.in_loop(body, rb), body.loc(rb), "one position reserved per publish")
        ctx.ob("R09.1", f"{k}|write-between-reserve-and-commit", body.dominates(rb, sb) and body.dominates(sb, cb), body.loc(sb), "the slot is written after the reservation and before the commit")
        pos = dg.rvalue(body.single_def(rc["dst"]["l"]), 0) if body.single_def(rc["dst"]["l"]) else None
        idx = [(b, c) for (b, c) in body.calls if c.get("fname") == "get_unchecked_mut"]
        okidx = len(idx) == 1 and norm(strip_casts(dg.expr(idx[0][1]["args"][1]))) == norm(pos)
        ctx.ob("R09.1", f"{k}|writes-its-reserved-slot", okidx, body.loc(idx[0][0]) if idx else site, "the slot written is buffer[reserved position]")
        if meth.startswith("compare_exchange"):
            exp = strip_casts(dg.expr(cc["args"][1])); new = strip_casts(dg.expr(cc["args"][2]))
            ok_e = norm(exp) == norm(pos)
            ok_n = new[0] == "bin" and new[1].rstrip("!~") == "Add" and {norm(strip_casts(new[2])), norm(strip_casts(new[3]))} == {norm(pos), ("const", 1)}
            ctx.ob("R09.1", f"{k}|in-order-commit", ok_e and ok_n, body.loc(cb), f"commit CAS on consumer_tail: expected=`{show(exp)}` new=`{show(new)}`; required (reserved position -> position+1): a publisher waits for all earlier positions to be committed")
            # retried until success: in a loop whose exits lie on the success side
            hs = [h for h, blocks in body.loops.items() if cb in blocks]
            ok_l = False
            if hs:
                h = min(hs, key=lambda x: len(body.loops[x]))
                exits = body.loop_exits(h)
                ok_l = bool(exits)
                for (x, y) in exits:
                    t = body.term(x)
                    e = dg.expr(t[1]) if t[0] == "Switch" else ("?",)
                    # `while cas.is_err() { spin }` : exit on is_err == false
                    good = False
                    if e[0] == "call" and e[1].endswith("is_err"):
                        zero = [tg for (v, tg) in t[2] if v == 0]; good = bool(zero) and y == zero[0]
                    elif e[0] == "call" and e[1].endswith("is_ok"):
                        good = y == t[3]
                    else:
                        vs = util.variant_switch(body, dg, x)
                        good = bool(vs) and vs[3] == cc["dst"]["l"] and vs[1].get(0, vs[2]) == y
                    ok_l = ok_l and good
            ctx.ob("R09.1", f"{k}|commit-retried-until-success", ok_l, body.loc(cb), "the commit is retried until its CAS succeeds (publish never returns with its position uncommitted)")
        else:
            ctx.ob("R09.1", f"{k}|in-order-commit", False, body.loc(cb),
                   f"consumer_tail is advanced by `{meth}` instead of a CAS from the publisher's own position: the published tail can move past a position that is still being written, and positions no longer become visible in reservation order")
    # ------------------------------------------------------------------ R09.2 split point / starting cursors
    k = M + "::subscribe_to_separated_old_and_new_events"
    body = Body(fx.fn(k)); dg = D.Dag(body)
    site = f"{body.f['file']}:{body.f['line']}"
    fx_ = _aggs(body, dg, "MMapMetaFixedSubscriber"); dy = _aggs(body, dg, "MMapMetaDynamicSubscriber")
    loads = [(b, c) for (b, c) in body.calls if (R.atomic_target(body, c) or (0, 0, 0))[2:] == ("load",)]
    if len(fx_) == 1 and len(dy) == 1:
        ft = strip_casts(fx_[0][1]["fixed_tail"]); nh = _new_arg(dy[0][1]["head"]); oh = _new_arg(fx_[0][1]["head"])
        ok = nh is not None and norm(ft) == norm(nh) and _atomic(ft, "consumer_tail", "load")
        ctx.ob("R09.2", f"{k}|one-split-point", ok, site, f"old.fixed_tail=`{show(ft)}`, new.head starts at `{show(nh) if nh else None}`; required: the same value, from one load of consumer_tail (the published tail)")
        ctx.ob("R09.2", f"{k}|single-load", len(loads) == 1, site, f"{len(loads)} counter load(s) in the split; exactly one defines the split point")
        ctx.ob("R09.2", f"{k}|old-starts-at-zero", oh == ("const", 0), site, f"old cursor starts at `{show(oh) if oh else None}`")
    else:
        ctx.ob("R09.2", f"{k}|one-split-point", False, site, f"{len(fx_)} fixed / {len(dy)} dynamic subscribers built; expected one of each")
    for fn, want in (("subscribe_to_new_events_only", "tail"), ("subscribe_to_joined_old_and_new_events", "zero")):
        k = M + "::" + fn
        body = Body(fx.fn(k)); dg = D.Dag(body)
        dy = _aggs(body, dg, "MMapMetaDynamicSubscriber")
        h = _new_arg(dy[0][1]["head"]) if len(dy) == 1 else None
        ok = h is not None and (_atomic(h, "consumer_tail", "load") if want == "tail" else h == ("const", 0))
        ctx.ob("R09.2", f"{k}|starting-cursor", ok, f"{body.f['file']}:{body.f['line']}", f"cursor starts at `{show(h) if h else None}`; required: {'a load of consumer_tail (published tail)' if want == 'tail' else '0 (whole history)'}")
    # ------------------------------------------------------------------ R09.3 subscribers' bounds, slot, recede
    for adt, bound in ((DYN, "consumer_tail"), (FIX, "fixed_tail")):
        k = [x for x in fx.by_key if x.startswith(adt + " as ") and x.endswith("::consume")][0]
        body = Body(fx.fn(k)); dg = D.Dag(body)
        site = f"{body.f['file']}:{body.f['line']}"
        cur = [(b, c) for (b, c) in body.calls if (R.atomic_target(body, c) or (0, 0, 0))[1:] == ("head", "fetch_add")]
        if len(cur) != 1:
            ctx.ob("R09.3", f"{k}|cursor-advance", False, site, f"{len(cur)} fetch_add on the cursor; required exactly one per consume"); continue
        pos = dg.rvalue(body.single_def(cur[0][1]["dst"]["l"]), 0)
        cmps = [(b, D.cmp_of_switch(body, dg, b)) for b in sorted(body.reachable) if D.cmp_of_switch(body, dg, b)]
        found = None
        cands = []
        for (b, c) in cmps:
            op, x, y, tt, ft = c
            cop, lo, hi = D.canon_cmp(op, x, y)
            # empty iff tail <= cursor   (cursor >= tail)
            if cop == "le" and norm(strip_casts(hi)) == norm(pos): cands.append((b, strip_casts(lo), tt, ft))
            elif cop == "lt" and norm(strip_casts(lo)) == norm(pos): cands.append((b, strip_casts(hi), ft, tt))   # cursor < tail: non-empty on true
        if cands:
            # the bound test is the outermost one; later comparisons of the same two values (a `debug_assert!(head < tail)` on the non-empty path) restate it
            found = min(cands, key=lambda x_: len(body.dom[x_[0]]))
        if not found:
            ctx.ob("R09.3", f"{k}|bound-test", False, site, "no comparison of the cursor with a tail found"); continue
        b, tail, empty_t, item_t = found
        ok_b = _atomic(tail, "consumer_tail", "load") if bound == "consumer_tail" else (tail[0] == "mem" and tail[1][-1:] == ("fixed_tail",))
        ctx.ob("R09.3", f"{k}|bounded-by-published-tail", ok_b, body.loc(b), f"cursor compared with `{show(tail)}`; required: {'a load of consumer_tail (never publisher_tail: reserved-but-unwritten slots must stay invisible)' if bound == 'consumer_tail' else 'fixed_tail'}")
        idx = [(bb, c) for (bb, c) in body.calls if c.get("fname") in ("get_unchecked", "get_unchecked_mut")]
        okidx = len(idx) == 1 and norm(strip_casts(dg.expr(idx[0][1]["args"][1]))) == norm(pos) and util.only_via(body, dg, b, item_t, empty_t, idx[0][0])
        ctx.ob("R09.3", f"{k}|reads-slot-at-cursor", okidx, body.loc(idx[0][0]) if idx else site, "yields buffer[cursor], only on the non-empty edge")
        rec = [(bb, c) for (bb, c) in body.calls if (R.atomic_target(body, c) or (0, 0, ""))[1] == "head" and "compare_exchange" in (R.atomic_target(body, c) or (0, 0, ""))[2]]
        okr = len(rec) == 1 and util.only_via(body, dg, b, empty_t, item_t, rec[0][0])
        if okr:
            exp = strip_casts(dg.expr(rec[0][1]["args"][1])); new = strip_casts(dg.expr(rec[0][1]["args"][2]))
            okr = norm(new) == norm(pos) and exp[0] == "bin" and exp[1].rstrip("!~") == "Add" and {norm(strip_casts(exp[2])), norm(strip_casts(exp[3]))} == {norm(pos), ("const", 1)}
        ctx.ob("R09.3", f"{k}|recedes-on-empty", okr, body.loc(rec[0][0]) if rec else site, "on the empty answer the cursor is put back with CAS (cursor+1 -> cursor): the next poll sees the same position again (no event skipped)")
        if okr:
            # the recede is retried until it succeeds: the loop around the CAS is left only on its Ok edge (leaving on a failed CAS keeps the cursor one ahead: an event is skipped)
            rb = rec[0][0]
            hs = [h for h, bl in body.loops.items() if rb in bl]
            good_l = bool(hs)
            if hs:
                h = min(hs, key=lambda x_: len(body.loops[x_]))
                ok_edges = {(tb, ok_t) for (tb, ok_t, err_t) in util.option_test_edges(body, dg, rec[0][1]["dst"]["l"]) if ok_t != err_t}
                exits = [(x_, y_) for (x_, y_) in body.loop_exits(h) if y_ in body.can_return]
                good_l = bool(exits) and all(e_ in ok_edges for e_ in exits)
            ctx.ob("R09.3", f"{k}|recede-retried-until-it-succeeds", good_l, body.loc(rb), "the recede CAS sits in a loop that is left only when the CAS succeeded")
        # the empty answer is reported: the report-empty callback is invoked on the empty edge, once (the old-events stream ends through it: R09.5)
        def _callee_param(c):
            l_ = op_local(c["args"][0])
            for _ in range(6):
                if l_ is None: return ""
                if 1 <= l_ <= body.f["argc"]: return body.lname(l_) or ""
                d_ = body.single_def(l_)
                if d_ is None or d_[1] == "T": return ""
                rv_ = d_[2]
                l_ = rv_[2]["l"] if rv_[0] in ("Ref", "RawPtr") else (rv_[1][1]["l"] if rv_[0] == "Use" and rv_[1][0] in ("c", "m") else None)
            return ""
        rep = [(bb, c) for (bb, c) in body.calls if c.get("f") in ("std::ops::Fn::call", "std::ops::FnMut::call_mut", "std::ops::FnOnce::call_once") and c["args"] and _callee_param(c).startswith("report_empty")]
        rset = {bb for (bb, _) in rep}
        lo_r, hi_r, _il = util.count_on_paths(body, lambda bb: bb in rset, start=empty_t)
        ctx.ob("R09.3", f"{k}|reports-emptiness", bool(rep) and (lo_r, hi_r) == (1, 1), body.loc(rep[0][0]) if rep else site,
               f"report_empty_fn is invoked {lo_r}..{hi_r} times on the paths of the empty answer; required exactly once")
        nones = [bb for bb in sorted(body.reachable) for st in body.stmts(bb) if st[0] == "A" and not st[1]["p"] and st[1]["l"] == 0 and st[2][0] == "Agg" and st[2][1][0] == "Adt" and st[2][1][2] == "None"]
        nones += [bb for (bb, c_) in body.calls if (c_.get("f") or "").endswith("FromResidual::from_residual") and not c_["dst"]["p"] and c_["dst"]["l"] == 0]      # `opt?` answering None
        ctx.ob("R09.3", f"{k}|none-only-when-empty", bool(nones) and all(util.only_via(body, dg, b, empty_t, item_t, nb) for nb in nones), site, "None is answered only on the empty edge")
    # ------------------------------------------------------------------ R09.4 storage stability
    writers = []
    for f in fx.fns:
        if not f["key"].startswith(MOD): continue
        body = Body(f)
        for (b, c) in body.calls:
            if c.get("fname") == "get_unchecked_mut" and "buffer" in str(util.arg_path(body, c, 0)):
                writers.append((f["key"], body.loc(b)))
            if c.get("fname") in ("map_mut", "set_len", "map", "remap", "map_anon", "map_copy") and any(x in (c.get("f") or "") for x in ("memmap", "MmapOptions", "fs::File", "MmapMut")):
                ok = f["key"].endswith("::new") or f["owner_fn"].endswith("::new")
                ctx.ob("R09.4", f"{f['owner_fn']}|{c['fname']}|only-in-new", ok, body.loc(b), f"`{c['fname']}` (creates / sizes the mapping) is called only by the constructor: references handed out stay valid and unchanged")
    for (wk, loc) in writers:
        ctx.ob("R09.4", f"{wk}|mutable-slot-access", wk.endswith("::publish"), loc, "the only mutable access to a log slot is publish at its reserved position")
    ctx.ob("R09.4", f"{M}|writer-found", len(writers) >= 1, "", "positive control: the publish-side slot access is seen", nontrivial=False)
    # ------------------------------------------------------------------ R09.5 old stream self-cancels
    k = f"{LOG} as {R.T_CONS}::consume"
    body = Body(fx.fn(k)); dg = D.Dag(body)
    found = False
    for (b, c) in body.calls:
        if c.get("fname") != "consume": continue
        recv_ty = body.locals[op_local(c["args"][0])]["ty"] if op_local(c["args"][0]) is not None else ""
        if "MMapMetaFixedSubscriber" not in recv_ty and "Fixed" not in show(dg.expr(c["args"][0])): continue
        found = True
        cl = dg.expr(c["args"][2])
        ok = False
        if cl[0] == "closure":
            cb_ = Body(fx.fn(cl[1])); cd = D.Dag(cb_)
            cs = [(bb, cc) for (bb, cc) in cb_.calls if (cc.get("resolved") or cc.get("f")) == R.SM + "::cancel_stream"]
            ok = len(cs) == 1 and util.on_every_return_path(cb_, cs[0][0]) and "stream_id" in show(cd.expr(cs[0][1]["args"][1])) and util.plain_forward(cd.expr(cs[0][1]["args"][1]))
        if not ok and not c["dst"]["p"]:
            # same moment, other spelling: the cancel sits on the `None` edge of the subscriber's answer (the empty answer is the last thing the subscriber does),
            # on every path from that edge to a return
            cs = [bb for (bb, cc) in body.calls if (cc.get("resolved") or cc.get("f")) == R.SM + "::cancel_stream" and
                  "stream_id" in show(dg.expr(cc["args"][1])) and util.plain_forward(dg.expr(cc["args"][1]))]
            tests = util.option_test_edges(body, dg, c["dst"]["l"])
            ok = bool(tests) and bool(cs)
            for (tb, has_t, empty_t) in tests:
                if empty_t in cs: continue
                escapes = [r for r in body.returns if r in body.reach_from(empty_t, avoid=frozenset(cs)) or r == empty_t]
                if escapes: ok = False
            # the answer must not reach a return untested
            if ok:
                tested = {tb for (tb, _, _) in tests}
                if any(r in body.reach_from(b, avoid=frozenset(tested)) for r in body.returns): ok = False
        ctx.ob("R09.5", f"{k}|old-stream-cancels-itself-when-exhausted", ok, body.loc(b), "the report-empty callback of the fixed (old events) subscriber cancels exactly this stream, so the old stream ends after the last old event")
    ctx.ob("R09.5", f"{k}|fixed-arm-found", found, f"{body.f['file']}:{body.f['line']}", "the Fixed subscriber arm of consume was identified", nontrivial=False)
    # ------------------------------------------------------------------ R09.6 ids <-> subscribers
    k = f"{LOG} as {R.T_MULTI}::create_streams_for_old_and_new_events"
    body = Body(fx.fn(k)); dg = D.Dag(body)
    site = f"{body.f['file']}:{body.f['line']}"
    ids = [(b, c) for (b, c) in body.calls if (c.get("resolved") or c.get("f")) == R.SM + "::create_stream_id"]
    split = [(b, c) for (b, c) in body.calls if c.get("fname") == "subscribe_to_separated_old_and_new_events"]
    ok = len(ids) == 2 and len(split) == 1
    ctx.ob("R09.6", f"{k}|two-ids-one-split", ok, site, f"{len(ids)} ids taken, {len(split)} split call")
    if ok:
        stores = []     # (block, index expr, payload expr)
        for (b_, cont_, idx_, rv_) in util.element_stores(body, dg):
            if rv_[0] == "Use": stores.append((b_, idx_, dg.expr(rv_[1])))
        news = [(b, c) for (b, c) in body.calls if (c.get("f") or "").endswith("MutinyStream::new")]
        pair = {}
        for (b, idx, val) in stores:
            if val[0] == "adt" and val[1] in ("Fixed", "Dynamic"):
                pair[val[1]] = (idx, val[2][0])
        ok2 = set(pair) == {"Fixed", "Dynamic"}
        if ok2:
            # ... on every path: a subscriber that is kept (rewound, re-used) when the id "already served old events" keeps the previous split's frozen end, so the
            # events published between the two split points are yielded by neither stream
            sblocks = {v[1]: b for (b, idx, v) in stores if v[0] == "adt" and v[1] in ("Fixed", "Dynamic")}
            ok2 = all(util.on_every_return_path(body, b) for b in sblocks.values())
        if ok2:
            fi, fp = pair["Fixed"]; di, dp = pair["Dynamic"]
            # the two ids are distinct create_stream_id results; Fixed gets split.0, Dynamic split.1
            # (which component is the fixed / the dynamic subscriber is enforced by the variants' payload types; tuple or named struct is all the same)
            def of_split(e):
                e = strip_casts(e)
                return e[0] == "field" and strip_casts(e[2])[0] == "call" and strip_casts(e[2])[1].split("::")[-1] == "subscribe_to_separated_old_and_new_events"
            ok2 = norm(fi) != norm(di) and "create_stream_id" in show(fi) and "create_stream_id" in show(di) and \
                  of_split(fp) and of_split(dp) and str(strip_casts(fp)[1]) != str(strip_casts(dp)[1])
        ctx.ob("R09.6", f"{k}|subscribers-stored-under-their-ids", ok2, site, "subscribers[old id] = Fixed(split.0) and subscribers[new id] = Dynamic(split.1) with two distinct ids")
        if ok2:
            r = dg.local(0)
            sr = show(r)
            # returned tuple: ((stream(old id), old id), (stream(new id), new id))
            okr = r[0] == "tuple" and len(r[1]) == 2
            if okr:
                (a, b_) = r[1]
                def pair_ok(t, want_idx):
                    t = strip_casts(t)
                    return t[0] == "tuple" and len(t[1]) == 2 and norm(strip_casts(t[1][1])) == norm(want_idx) and norm(strip_casts(strip_casts(t[1][0])[2][0])) == norm(want_idx) if strip_casts(t[1][0])[0] == "call" else False
                okr = pair_ok(a, pair["Fixed"][0]) and pair_ok(b_, pair["Dynamic"][0])
            ctx.ob("R09.6", f"{k}|returns-old-then-new", okr, site, "returns ((stream over the old id, old id), (stream over the new id, new id))")
    # ------------------------------------------------------------------ R09.7 a parked subscriber is told about what was published (C04's wake-site rules on the log channel)
    # ('a subscriber yields every event of its range': a listener that subscribed, saw nothing yet and parked must be woken by the publication -- the log channel's
    #  sends wake EVERY live listener AFTER the event became visible, and the set of listeners they wake is read after the publication)
    import importlib
    C04 = importlib.import_module("props.C04")
    sub = util.fresh_ctx(ctx, "C04")
    util.guarded(ctx, C04.check, sub)
    n7 = 0
    for o in sub.obs:
        if o["rule"] in ("R04.3", "R04.5", "R04.6") and "mmap_log" in o["key"]:
            n7 += 1
            ctx.ob("R09.7", o["key"], o["ok"], o["site"], o["detail"], o["nontrivial"])
    if not getattr(ctx, "deferred_infra", None): ctx.floor("R09.7", 6)
    ctx.floor("R09.1", 6); ctx.floor("R09.2", 5); ctx.floor("R09.3", 8); ctx.floor("R09.4", 2); ctx.floor("R09.6", 3)
