"""C11 - executors account for every pipeline item exactly once; honour timeout and limit."""
import dag as D, util, roles as R, facts as F
from dag import strip_casts, show
from mir import Body, op_local

LEVEL = "other"
EXPLANATION = ("Path-complete accounting over the built MIR of every item processor reachable from the 7 tokio::spawn'ed executor coroutines (the closure handed to "
               "for_each / for_each_concurrent plus every closure it calls and every async block it builds, counted interprocedurally): (R11.1) with the counting "
               "guard true every non-diverging path records exactly one outcome (one AtomicIncrementalAverage64::inc over ok/failed/timed_out), with it false none; "
               "the counter matches the arm (ok on no Err edge, failed under the item's Err edge, timed_out under the timeout's Err edge); (R11.2) the error callback is "
               "called exactly once on every path through the item's Err edge, never elsewhere, and its future is awaited; (R11.3) no panic / diverging block is reachable "
               "in either configuration, so a failed or timed-out item cannot stop the loop; (R11.4) on the non-zero-timeout arm the awaited future is "
               "tokio::time::timeout(self.futures_timeout, <the item itself>) -- never a wrapper that also contains the accounting or the error callback; (R11.5) the first "
               "argument of every for_each_concurrent is the concurrency_limit parameter up to integer casts and for_each is used only on the limit == 1 arm; "
               "(R11.6) the counting guard is implied by Instruments::metrics() for every instruments value (bit masks compared); (R11.7) the configured timeout is the enforced "
               "one: the Duration handed to Uni / Multi spawn_* reaches StreamExecutor.futures_timeout (the value the dispatch tests against ZERO and R11.4 hands to "
               "tokio::time::timeout) through plain forwarding only -- no call site recomputes, rounds or clamps it, and the field is never rewritten.")
EXPLANATION += ' R11.2 also requires every executor kind that is GIVEN an error callback to invoke it somewhere in its item processor (an unused callback is not even captured by the closure, so its absence is asked for at the level of the spawn function).'
EXPLANATION += ' R11.4 also requires the zero / non-zero timeout dispatch to test the configured Duration itself (no unit-truncating view such as as_millis()).'
EXPLANATION += " R11.5 also follows the concurrency limit across the Uni / Multi layers: every spawn_*executor* call is handed the caller's own limit, unchanged (captures resolved)."
ASSUMPTIONS = ["tokio::time::timeout cancels the wrapped future and futures::StreamExt::for_each_concurrent bounds the in-flight futures (dependencies, trusted)",
               "Instruments::metrics() is the definition of 'metrics enabled'"]
TRUSTED = ["tokio::time::timeout, futures::StreamExt::{for_each, for_each_concurrent}"]

EXE = R.EXECUTOR
INC = R.METRIC + "::inc"
GUARD = "instruments::Instruments::cheap_profiling"
CALLS = ("std::ops::Fn::call", "std::ops::FnMut::call_mut", "std::ops::FnOnce::call_once")
COUNTERS = {"ok_events_avg_future_duration": "ok", "failed_events_avg_future_duration": "failed", "timed_out_events_avg_future_duration": "timed_out"}


class Unit:
    """interprocedural view of one item processor"""
    def __init__(self, ctx):
        self.ctx = ctx; self.fx = ctx.fx; self.bodies = {}; self.dags = {}

    def body(self, k):
        if k not in self.bodies:
            self.bodies[k] = Body(self.fx.fn(k)); self.dags[k] = D.Dag(self.bodies[k])
        return self.bodies[k]

    def dag(self, k):
        self.body(k); return self.dags[k]

    def closure_of(self, k, o, depth=0):
        """key of the closure / coroutine an operand evaluates to (local aggregate, or a capture bound in the lexical parent)"""
        e = strip_casts(self.dag(k).expr(o))
        return self._closure_expr(k, e, depth)

    def _closure_expr(self, k, e, depth=0):
        while e[0] in ("deref",) and isinstance(e[1], tuple): e = e[1]
        if e[0] == "closure": return e[1]
        name = None
        if e[0] == "field" and strip_casts(e[2])[0] in ("param", "deref"): name = e[1]
        if e[0] in ("mem", "ref") and e[1] and str(e[1][-1]).startswith("<cap:"): name = e[1][-1][5:-1].lstrip("*")
        if name and "::{closure#" in k and depth < 4:
            parent = k.rsplit("::{closure#", 1)[0]
            pb = self.body(parent)
            for l, loc in enumerate(pb.locals):
                if loc.get("name") == name:
                    r = self._closure_expr(parent, strip_casts(self.dag(parent).local(l)), depth + 1)
                    if r: return r
        return None

    def guard_edge(self, k, b, B):
        """successors of block b with the counting guard fixed to B"""
        body = self.body(k)
        t = body.term(b)
        if t[0] == "Switch" and t[5] == "bool":
            l = op_local(t[1])
            d = body.single_def(l) if l is not None else None
            if d and d[2][0] == "CallRes" and d[2][1].get("f") == GUARD:
                zero = [tg for (v, tg) in t[2] if v == 0]
                return [t[3]] if B else zero
        return body.succ(b)

    def events(self, k, b, is_event):
        """number of events contributed by block b: (min, max) -- direct, or through a closure call / a coroutine built here"""
        body = self.body(k)
        lo = hi = 0
        t = body.term(b)
        if t[0] == "Call":
            c = t[1]
            if is_event(k, b, c): lo += 1; hi += 1
            elif c.get("f") in CALLS and c["args"]:
                g = self.closure_of(k, c["args"][0])
                if g:
                    a, z = self.count(g, self._B, is_event); lo += a; hi += z
        for st in body.stmts(b):
            if st[0] == "A" and st[2][0] == "Agg" and st[2][1][0] in ("Coroutine",):
                a, z = self.count(st[2][1][1], self._B, is_event); lo += a; hi += z
        return lo, hi

    def count(self, k, B, is_event, start=0, memo=None):
        self._B = B
        ck = (k, B, id(is_event), start)
        if not hasattr(self, "_memo"): self._memo = {}
        if ck in self._memo: return self._memo[ck]
        self._memo[ck] = (0, 0)
        body = self.body(k)
        back = set(body.back_edges)
        memo = {}
        def go(b):
            if b in memo: return memo[b]
            memo[b] = None
            e = self.events(k, b, is_event)
            succ = [s for s in self.guard_edge(k, b, B) if (b, s) not in back and s in body.can_return]
            if body.term(b)[0] == "Return":
                r = e
            else:
                rs = [x for x in (go(s) for s in succ) if x is not None]
                # a block whose only way on is a back edge (await / retry loops) ends no path of its own
                r = (e[0] + min(x[0] for x in rs), e[1] + max(x[1] for x in rs)) if rs else None
            memo[b] = r
            return r
        r = go(start) or (0, 0)
        self._memo[ck] = r
        return r

    def reachable(self, k, B):
        body = self.body(k)
        seen = {0}; st = [0]
        while st:
            b = st.pop()
            for s in self.guard_edge(k, b, B):
                if s not in seen: seen.add(s); st.append(s)
        return seen

    def members(self, k, acc=None):
        """the closure/coroutine bodies of a unit"""
        acc = acc if acc is not None else []
        if k in acc: return acc
        acc.append(k)
        body = self.body(k)
        for b in sorted(body.reachable):
            t = body.term(b)
            if t[0] == "Call" and t[1].get("f") in CALLS and t[1]["args"]:
                g = self.closure_of(k, t[1]["args"][0])
                if g: self.members(g, acc)
            for st in body.stmts(b):
                if st[0] == "A" and st[2][0] == "Agg" and st[2][1][0] == "Coroutine": self.members(st[2][1][1], acc)
        return acc


def _inc_counter(u, k, c):
    p = util.arg_path(u.body(k), c, 0)
    for x in reversed(p or ()):
        if x in COUNTERS: return COUNTERS[x]
    return None


def check(ctx):
    fx = ctx.fx
    u = Unit(ctx)
    spawned = []       # (spawning fn key, coroutine key, block)
    for f in fx.fns:
        if f.get("impl_self") != EXE or "{closure" in f["key"]: continue
        body = u.body(f["key"])
        for (b, c) in body.calls:
            if c.get("f") == "tokio::spawn":
                g = u.closure_of(f["key"], c["args"][0])
                if g: spawned.append((f["key"], g, b))
    ctx.ob("R11.0", f"{EXE}|spawned-executors", len(spawned) == 7, "", f"{len(spawned)} tokio::spawn'ed executor coroutines found (7 confirmed by reading)", nontrivial=False)
    is_inc = lambda k, b, c: (c.get("resolved") or c.get("f")) == INC
    processors = []
    for (fnk, co, sb) in spawned:
        cb = u.body(co); cd = u.dag(co)
        short = co.replace("stream_executor::StreamExecutor::", "")
        loops = [(b, c) for (b, c) in cb.calls if c.get("fname") in ("for_each", "for_each_concurrent") and "StreamExt" in (c.get("f") or "")]
        # ---------------------------------------------------------------- R11.5 limit forwarded
        for (b, c) in loops:
            if c["fname"] == "for_each_concurrent":
                e = strip_casts(cd.expr(c["args"][1]))
                ok = e[0] == "field" and e[1] == "concurrency_limit" and strip_casts(e[2])[0] == "param"
                ctx.ob("R11.5", f"{co}|for_each_concurrent-limit", ok, cb.loc(b), f"limit argument is `{show(e)}`; required: the concurrency_limit parameter itself (integer casts only)")
            else:
                sw = [x for x in cb.reachable if cb.term(x)[0] == "Switch" and strip_casts(cd.expr(cb.term(x)[1]))[:2] == ("field", "concurrency_limit")]
                ok = False
                for x in sw:
                    one = [tg for (v, tg) in cb.term(x)[2] if v == 1]
                    if one and cb.dominates(one[0], b) and one[0] != cb.term(x)[3]: ok = True
                # `if concurrency_limit == 1 {..} else {..}`: the same test as a comparison
                for (tb_, eq_t, ne_t, subj_) in util.eq_const_edge(cb, cd, lambda e_: e_[:2] == ("field", "concurrency_limit"), 1):
                    if eq_t != ne_t and (cb.dominates(eq_t, b) or eq_t == b): ok = True
                ctx.ob("R11.5", f"{co}|for_each-only-when-limit-1", ok, cb.loc(b), "sequential for_each is used only on the `concurrency_limit == 1` arm")
        if not loops:
            ctx.ob("R11.5", f"{co}|drives-stream", False, f"{cb.f['file']}:{cb.f['line']}", "executor coroutine has no for_each / for_each_concurrent over its stream"); continue
        for (b, c) in loops:
            fk = u.closure_of(co, c["args"][-1])
            if not fk:
                ctx.ob("R11.1", f"{co}|{c['fname']}|processor-resolved", False, cb.loc(b), "the closure handed to the stream loop could not be resolved"); continue
            processors.append((co, c["fname"], fk, fnk))
    # ---------------------------------------------------------------- R11.1 .. R11.3 per item processor
    seen_units = set()
    for (co, loopname, fk, fnk) in processors:
        mem = u.members(fk)
        tag = f"{co}|{loopname}"
        site = f"{u.body(fk).f['file']}:{u.body(fk).f['line']}"
        for B in (True, False):
            lo, hi = u.count(fk, B, is_inc)
            want = 1 if B else 0
            ctx.ob("R11.1", f"{tag}|outcomes-per-item|guard={B}", (lo, hi) == (want, want), site,
                   f"with the counting guard {B}: between {lo} and {hi} outcome records per item over all paths of {len(mem)} bodies; required exactly {want}")
            for k in mem:
                body = u.body(k)
                reach = u.reachable(k, B)
                div = [b for b in body.diverging if b in reach and not _benign_diverge(body, b)]
                ctx.ob("R11.3", f"{k}|no-diverging-path|guard={B}", not div, body.loc(div[0]) if div else f"{body.f['file']}:{body.f['line']}",
                       "no panic / abort reachable: a failed or timed-out item cannot stop the processing of later ones" if not div else "a panicking block is reachable in the item processor: the executor task would die on this item")
        for k in mem:
            if k in seen_units: continue
            seen_units.add(k)
            _arms(ctx, u, k)
        # the executor kinds that take an error callback use it: some body of the item processor invokes it (an unused callback is not even captured,
        # so its absence must be asked for at the level of the function that received it)
        fb_ = u.body(fnk)
        takes_cb = any((fb_.lname(l_) or "") == "on_err_callback" for l_ in range(1, fb_.f["argc"] + 1))
        if takes_cb:
            n_cb = 0
            for k in mem:
                mb = u.body(k); md = u.dag(k)
                n_cb += sum(1 for (b, c) in mb.calls if c.get("f") in ("std::ops::Fn::call", "std::ops::FnMut::call_mut", "std::ops::FnOnce::call_once") and c["args"] and "on_err_callback" in show(md.expr(c["args"][0])))
            ctx.ob("R11.2", f"{tag}|error-callback-is-invoked", n_cb >= 1, site, f"{n_cb} invocation(s) of the on_err_callback this executor was given, in its item processor; required at least one (placement is checked per body)")
    ctx.floor("R11.1", 28)
    # ---------------------------------------------------------------- R11.4 timeout wrapper on the non-zero arm
    by_fn = {}
    for (fnk, co, sb) in spawned: by_fn.setdefault(fnk, []).append((co, sb))
    for fnk, lst in by_fn.items():
        pb = u.body(fnk); pd = u.dag(fnk)
        procs = {co: [fk for (c2, ln, fk, _) in processors if c2 == co] for (co, _) in lst}
        is_future_kind = any(fx.fn(m).get("is_coroutine") for co in procs for fk in procs[co] for m in u.members(fk))
        if not is_future_kind: continue
        # which spawn site is on the all-zero arm of the test on self.futures_timeout ?
        zero_blocks = set()
        for b in pb.reachable:
            t = pb.term(b)
            if t[0] == "Switch" and "futures_timeout" in show(pd.expr(t[1])):
                zero = [tg for (v, tg) in t[2] if v == 0]
                if zero: zero_blocks.add(("z", zero[0]))
        c = None
        tests = [b for b in pb.reachable if pb.term(b)[0] == "Switch" and _mentions_timeout(pb, pd, b)]
        ctx.ob("R11.4", f"{fnk}|timeout-dispatch", bool(tests) and len(lst) == 2, f"{pb.f['file']}:{pb.f['line']}",
               f"{len(lst)} spawned variants selected by a test on self.futures_timeout ({len(tests)} test blocks); required: a zero-timeout and a timeout-enforcing variant")
        if not tests or len(lst) != 2: continue
        # ... and the test is on the Duration itself (== ZERO, its secs / nanos fields, is_zero(), as_nanos()): a unit-truncating view (`as_millis() == 0`,
        # `as_secs()`, a division) sends every non-zero timeout below the unit to the variant that enforces none
        LOSSY = ("as_millis", "as_secs", "as_micros", "as_secs_f32", "as_secs_f64", "subsec_millis", "subsec_micros", "div_duration_f32", "div_duration_f64")
        def lossy(e, depth=0):
            if not isinstance(e, tuple) or depth > 30: return False
            if e and e[0] == "call" and e[1].split("::")[-1] in LOSSY: return True
            if e and e[0] == "bin" and str(e[1]).rstrip("!~") in ("Div", "Rem", "Shr"): return True
            return any(lossy(x, depth + 1) for x in e if isinstance(x, tuple))
        bad_t = [b for b in tests if lossy(pd.expr(pb.term(b)[1]))]
        ctx.ob("R11.4", f"{fnk}|timeout-dispatch-tests-the-duration-itself", not bad_t, pb.loc(bad_t[0]) if bad_t else f"{pb.f['file']}:{pb.f['line']}",
               "the zero / non-zero dispatch compares the configured Duration exactly" if not bad_t else
               f"the dispatch tests `{show(pd.expr(pb.term(bad_t[0])[1]))[:80]}`: a truncated view of the timeout -- sub-unit timeouts select the non-enforcing variant")
        entry = min(tests, key=lambda b: len(pb.dom[b]))
        nonzero_first = _zero_edges(pb, entry, pd)[1]          # the edge of the first test on which (some part of) the timeout is non-zero
        for (co, sb) in lst:
            enforcing = sb == nonzero_first or pb.dominates(nonzero_first, sb) or not _only_via_zero(pb, tests, sb, pd)
            touts = []
            for fk in procs[co]:
                for m in u.members(fk):
                    mb = u.body(m)
                    for (b, cc) in mb.calls:
                        if cc.get("f") == "tokio::time::timeout": touts.append((m, b, cc))
            if not enforcing:
                ctx.ob("R11.4", f"{co}|zero-timeout-variant", True, pb.loc(sb), f"variant for futures_timeout == ZERO ({len(touts)} timeout wrappers)", nontrivial=False)
                continue
            ctx.ob("R11.4", f"{co}|timeout-present", bool(touts), pb.loc(sb), "the variant selected for a non-zero futures_timeout wraps the item in tokio::time::timeout")
            for (m, b, cc) in touts:
                mb = u.body(m); md = u.dag(m)
                dur = strip_casts(md.expr(cc["args"][0])); fut = strip_casts(md.expr(cc["args"][1]))
                okd = "futures_timeout" in show(dur) and dur[0] in ("mem", "field", "deref")
                ctx.ob("R11.4", f"{m}|timeout-duration", okd, mb.loc(b), f"timeout duration is `{show(dur)}`; required: self.futures_timeout")
                is_item = (fut[0] == "field" and strip_casts(fut[2])[0] == "param") or fut[0] == "param"
                ctx.ob("R11.4", f"{m}|timeout-wraps-the-item", is_item, mb.loc(b),
                       f"timeout wraps `{show(fut)}`; required: the item future handed to the processor (a wrapper future that also runs the accounting / error callback makes a slow callback count the item twice)")
                # awaited: the Timeout value is polled
                polled = any("Timeout" in (c3.get("resolved") or "") and c3.get("fname") == "poll" for (_, c3) in mb.calls)
                ctx.ob("R11.4", f"{m}|timeout-awaited", polled, mb.loc(b), "the Timeout future is awaited")
    ctx.floor("R11.4", 8); ctx.floor("R11.5", 14)
    # ---------------------------------------------------------------- R11.7 the configured timeout is the enforced timeout
    # the Duration handed to Uni / Multi spawn_* reaches StreamExecutor.futures_timeout -- the value tested against ZERO by the dispatch and handed to
    # tokio::time::timeout (R11.4) -- without being recomputed on the way: a rounded / clamped copy changes which items time out (sub-millisecond
    # timeouts rounded to ZERO select the variant that enforces nothing)
    def _forwarded(e, depth=0):
        e = strip_casts(e)
        if not isinstance(e, tuple) or depth > 12: return False
        if e[0] in ("param", "mem", "ref"): return True
        if e[0] == "const": return "ZERO" in str(e[1]) or e[1] == 0
        if e[0] == "gconst": return True
        if e[0] in ("field",): return _forwarded(e[2], depth + 1)
        if e[0] in ("deref",): return _forwarded(e[1], depth + 1)
        if e[0] == "call" and e[1].split("::")[-1] in ("clone", "deref", "borrow", "as_ref", "futures_timeout") and len(e[2]) == 1: return _forwarded(e[2][0], depth + 1)
        return False
    adt = fx.adts.get(EXE)
    fidx = [i for i, fl in enumerate(adt["variants"][0]["fields"]) if fl["name"] == "futures_timeout"] if adt else []
    n7 = 0
    for f in fx.fns:
        body = None; dg = None
        for b_, blk in enumerate(f["blocks"]):
            for i_, st in enumerate(blk["stmts"]):
                if st[0] == "A" and st[2][0] == "Agg" and st[2][1][0] == "Adt" and st[2][1][1] == EXE and fidx:
                    body = body or Body(f); dg = dg or D.Dag(body)
                    if b_ not in body.reachable: continue
                    e = dg.expr(st[2][2][fidx[0]])
                    n7 += 1
                    ctx.ob("R11.7", f"{f['key']}|stores-the-configured-timeout", _forwarded(e), body.loc(b_, i_),
                           f"StreamExecutor.futures_timeout is initialised with `{show(e)[:100]}`; required: the caller's Duration, unchanged")
            t = blk["term"]
            if t[0] != "Call": continue
            c = t[1]
            name = c.get("fname") or ""
            tgt = c.get("resolved") or c.get("f") or ""
            if not (name == "with_futures_timeout" or ("executor" in name and name.startswith("spawn"))) or not tgt.split("<")[0].startswith(("stream_executor::", "uni::", "multi::")): continue
            body = body or Body(f); dg = dg or D.Dag(body)
            if b_ not in body.reachable: continue
            for ai, a in enumerate(c["args"]):
                l = op_local(a)
                if l is None or body.locals[l]["ty"] != "std::time::Duration": continue
                e = dg.expr(a)
                n7 += 1
                ctx.ob("R11.7", f"{f['key']}|forwards-the-timeout|{name}", _forwarded(e), body.loc(b_),
                       f"{name}(.., {show(e)[:100]}, ..): the futures timeout handed on must be the caller's own Duration (or ZERO), unchanged")
            # ... and so does the concurrency limit (R11.5 across the Uni / Multi layers): a limit "shared among the consumers" (limit / MAX_STREAMS) reaches
            # for_each_concurrent as 0 = unlimited whenever it is smaller than the number of streams
            for ai, a in enumerate(c["args"]):
                l = op_local(a)
                if l is None or body.locals[l]["ty"] != "u32": continue
                e = dg.expr(a)
                if "concurrency_limit" not in show(e): continue
                e = util.resolve_capture(fx, f["key"], e)[1]
                n7 += 1
                ctx.ob("R11.5", f"{f['key']}|forwards-the-concurrency-limit|{name}", _forwarded(e), body.loc(b_),
                       f"{name}(.., {show(e)[:100]}, ..): the concurrency limit handed on must be the caller's own value, unchanged")
    for f in fx.fns:
        if f.get("impl_self") != EXE and "futures_timeout" not in str(f["blocks"])[:0]: pass
    import guards as _g
    for f in fx.fns:
        if not any(st[0] == "A" and any(e != "*" and e[0] == "f" and e[1] == "futures_timeout" for e in st[1]["p"]) for blk in f["blocks"] for st in blk["stmts"]): continue
        body = Body(f)
        for a in _g.accesses(body, EXE, {"futures_timeout"}):
            if a["kind"] == "w":
                ctx.ob("R11.7", f"{f['key']}|rewrites-the-timeout", False, a["site"], "StreamExecutor.futures_timeout is written after construction")
    ctx.floor("R11.7", 10)
    # ---------------------------------------------------------------- R11.6 counting guard implied by metrics()
    masks = {}
    for fn in ("cheap_profiling", "metrics"):
        k = "instruments::Instruments::" + fn
        b = Body(fx.fn(k)); d = D.Dag(b)
        masks[fn] = _mask(fx, d.local(0))
    g, m = masks["cheap_profiling"], masks["metrics"]
    if g is None or m is None:
        ctx.undecided("R11.6", "instruments::Instruments|guard-implied-by-metrics", "", f"predicates are not of the form `into(self) & MASK > 0` (cheap_profiling={g}, metrics={m})")
    else:
        ctx.ob("R11.6", "instruments::Instruments|guard-implied-by-metrics", (m & ~g) == 0, "src/instruments.rs",
               f"counting guard mask {g:#x}, metrics() mask {m:#x}: every instruments value with metrics() true must make the counting guard true"
               + ("" if (m & ~g) == 0 else f"; bits {m & ~g:#x} enable metrics without counting"))


def _benign_diverge(body, b):
    t = body.term(b)
    return t[0] == "Unreachable" if isinstance(t[0], str) else False


def _mentions_timeout(pb, pd, b):
    try: return "futures_timeout" in show(pd.expr(pb.term(b)[1])) or "futures_timeout" in str(pb.term(b)[1])
    except Exception: return False


def _zero_edges(pb, tb, pd=None):
    """(edge taken when the tested part of the timeout IS zero, the other edge) of a test on futures_timeout -- polarity-aware: `== ZERO` / `is_zero()` / a field pattern
    `0` answer zero on their true / matching edge, `!= ZERO` on its false edge, a leading `!` flips"""
    t = pb.term(tb)
    z = [tg for (v, tg) in t[2] if v == 0]
    if t[5] != "bool":
        return (z[0] if z else None, t[3])
    true_t, false_t = t[3], (z[0] if z else None)
    zero_on_true = True
    if pd is not None:
        e = pd.expr(t[1]); neg = False
        while isinstance(e, tuple) and e[0] == "un" and e[1] == "Not": e = e[2]; neg = not neg
        e = strip_casts(e)
        if e[0] == "call" and e[1].split("::")[-1] == "ne": zero_on_true = False
        elif e[0] == "bin" and str(e[1]).rstrip("!~") == "Ne": zero_on_true = False
        if neg: zero_on_true = not zero_on_true
    return (true_t, false_t) if zero_on_true else (false_t, true_t)


def _only_via_zero(pb, tests, sb, pd=None):
    """sb is reachable only through the `== 0` edges of every test block (the all-zero arm)"""
    for tb in tests:
        zero_t = _zero_edges(pb, tb, pd)[0]
        if zero_t is None or not (pb.dominates(zero_t, sb) or zero_t == sb): return False
    return True


def _mask(fx, e):
    """`into(self) & MASK > 0` -> MASK"""
    e = strip_casts(e)
    if e[0] != "bin" or e[1] not in ("Gt", "Ne"): return None
    a, b = strip_casts(e[2]), strip_casts(e[3])
    if b != ("const", 0): return None
    if a[0] != "bin" or a[1] != "BitAnd": return None
    for x, y in ((a[2], a[3]), (a[3], a[2])):
        x = strip_casts(x)
        if x[0] == "call" and x[1].endswith("Instruments::into"):
            return _eval(fx, y)
    return None


def _eval(fx, e):
    e = strip_casts(e)
    if e[0] == "const" and isinstance(e[1], int): return e[1]
    if e[0] == "gconst":
        for c in fx.consts:
            if c["key"] == e[1] and "int" in c: return c["int"]
        return None
    if e[0] == "bin":
        a, b = _eval(fx, e[2]), _eval(fx, e[3])
        if a is None or b is None: return None
        op = e[1].rstrip("!~")
        return {"BitOr": a | b, "BitAnd": a & b, "Add": a + b, "BitXor": a ^ b}.get(op)
    return None


def _arms(ctx, u, k):
    """counter / callback vs. match arm, inside one body"""
    body = u.body(k); dg = u.dag(k)
    err_item, err_timeout = [], []
    for b in sorted(body.reachable):
        ve = util.variant_edges_place(body, b)       # also the inner Result of a flattened `Ok(Ok(x)) / Ok(Err(e)) / Err(_)` match
        if not ve: continue
        pl, ty, arms, other = ve
        if not ty or not ty.startswith("std::result::Result<"): continue
        tgt = arms.get(1, other)
        if tgt is None: continue
        (err_timeout if "Elapsed" in ty else err_item).append(tgt)
    under = lambda b, edges: any(body.dominates(e, b) for e in edges)
    for (b, c) in body.calls:
        if (c.get("resolved") or c.get("f")) == INC:
            which = _inc_counter(u, k, c)
            if which is None:
                ctx.ob("R11.1", f"{k}|inc-target", False, body.loc(b), "outcome record on something that is not one of the three outcome counters"); continue
            if which == "ok": ok = not under(b, err_item) and not under(b, err_timeout)
            elif which == "failed": ok = under(b, err_item) and not under(b, err_timeout)
            else: ok = under(b, err_timeout)
            ctx.ob("R11.1", f"{k}|{which}-counter-on-its-arm", ok, body.loc(b),
                   f"`{which}` is recorded {'on' if ok else 'OUTSIDE'} its arm (ok: no Err edge; failed: under the item's Err edge; timed_out: under the timeout's Err edge)")
    # error callback
    cbs = []
    for (b, c) in body.calls:
        if c.get("f") in ("std::ops::Fn::call", "std::ops::FnMut::call_mut", "std::ops::FnOnce::call_once") and c["args"]:
            e = show(dg.expr(c["args"][0]))
            if "on_err_callback" in e: cbs.append((b, c))
    has_cb_capture = any("on_err_callback" in str(n) for (n, _) in (body.f.get("captures") or []))
    if cbs or (has_cb_capture and err_item):
        for (b, c) in cbs:
            ctx.ob("R11.2", f"{k}|callback-only-on-failed-items", under(b, err_item) and not util.in_loop(body, b), body.loc(b),
                   "the error callback is invoked only under the item's Err edge")
            if body.f.get("is_coroutine"):
                dl = c["dst"]["l"]
                aw = any(cc.get("fname") == "into_future" and any(op_local(a) == dl for a in cc["args"]) for (_, cc) in body.calls)
                ctx.ob("R11.2", f"{k}|callback-future-awaited", aw, body.loc(b), "the future returned by the error callback is awaited (an un-awaited async callback never runs)")
        for e in err_item:
            is_cb = lambda bb: any(bb == b for (b, _) in cbs)
            lo, hi, inloop = util.count_on_paths(body, is_cb, start=e)
            ctx.ob("R11.2", f"{k}|callback-once-per-failed-item", (lo, hi) == (1, 1), body.loc(e), f"between {lo} and {hi} error-callback invocations on the paths through the Err arm; required exactly 1")
