"""Small exact symbolic evaluators over expression DAGs (dag.py trees).  Nothing here runs analysed code: the trees are
interpreted over (a) bit-vectors of symbolic bits (pack/unpack round trips) and (b) rational functions with exact rational
coefficients (algebraic identity of an update formula)."""
from fractions import Fraction

# ---------------------------------------------------------------------------------------------- symbolic bit vectors
WIDTH = {"u8": 8, "i8": 8, "u16": 16, "i16": 16, "u32": 32, "i32": 32, "f32": 32, "u64": 64, "i64": 64, "f64": 64, "usize": 64, "isize": 64}

class Unknown(Exception):
    pass

def const_bits(v, w):
    return [(v >> i) & 1 for i in range(w)]

def is_concrete(bv):
    return all(b in (0, 1) for b in bv)

def to_int(bv):
    return sum(b << i for i, b in enumerate(bv))

def fit(bv, w):
    return bv[:w] + [0] * max(0, w - len(bv))

def bits(e, env, width_hint=64):
    """e: dag tree; env: {("param", i): bitvector}.  Returns a list of bits (LSB first), each 0, 1 or a symbol (name, i)."""
    k = e[0]
    if k == "param":
        if (k, e[1]) in env: return list(env[(k, e[1])])
        raise Unknown(f"param {e[2]}")
    if k == "const":
        if isinstance(e[1], int): return const_bits(e[1], width_hint)
        raise Unknown(f"const {e[1]}")
    if k == "cast":
        w = WIDTH.get(e[1])
        if w is None: raise Unknown("cast to " + str(e[1]))
        return fit(bits(e[2], env, width_hint), w)
    if k == "pair":
        return bits(e[1], env, width_hint)
    if k == "call" and (e[1].endswith("::to_bits") or e[1].endswith("::from_bits")) and len(e[2]) == 1:
        return bits(e[2][0], env, width_hint)
    if k == "bin":
        op = e[1].rstrip("!~")
        if op in ("Shl", "Shr"):
            a = bits(e[2], env, width_hint); n = bits(e[3], env, 32)
            if not is_concrete(n): raise Unknown("symbolic shift")
            n = to_int(n); w = len(a)
            if n >= w: raise Unknown("shift >= width")
            return ([0] * n + a)[:w] if op == "Shl" else a[n:] + [0] * n
        a = bits(e[2], env, width_hint)
        b = bits(e[3], env, len(a))
        if e[2][0] == "const" and e[3][0] != "const":
            a = bits(e[2], env, len(b))
        w = max(len(a), len(b)); a = fit(a, w); b = fit(b, w)
        if op == "BitOr":
            return [_or(x, y) for x, y in zip(a, b)]
        if op == "BitAnd":
            return [_and(x, y) for x, y in zip(a, b)]
        if op in ("Add", "Sub", "Mul") and is_concrete(a) and is_concrete(b):
            x, y = to_int(a), to_int(b)
            r = x + y if op == "Add" else x - y if op == "Sub" else x * y
            return const_bits(r % (1 << w), w)
        raise Unknown("bin " + e[1])
    raise Unknown(str(e)[:60])

def _or(x, y):
    if x == 0: return y
    if y == 0: return x
    if x == 1 or y == 1: return 1
    if x == y: return x
    return ("or", x, y)

def _and(x, y):
    if x == 0 or y == 0: return 0
    if x == 1: return y
    if y == 1: return x
    if x == y: return x
    return ("and", x, y)

def sym(name, w):
    return [(name, i) for i in range(w)]

# ---------------------------------------------------------------------------------------------- rational functions
class Poly:
    """multivariate polynomial with Fraction coefficients: {monomial (tuple of (var, exp) sorted): coeff}"""
    __slots__ = ("t",)
    def __init__(self, t=None):
        self.t = {m: c for m, c in (t or {}).items() if c != 0}
    @staticmethod
    def const(c): return Poly({(): Fraction(c)})
    @staticmethod
    def var(v): return Poly({((v, 1),): Fraction(1)})
    def __add__(self, o):
        t = dict(self.t)
        for m, c in o.t.items(): t[m] = t.get(m, 0) + c
        return Poly(t)
    def __neg__(self): return Poly({m: -c for m, c in self.t.items()})
    def __sub__(self, o): return self + (-o)
    def __mul__(self, o):
        t = {}
        for m1, c1 in self.t.items():
            for m2, c2 in o.t.items():
                d = dict(m1)
                for v, e in m2: d[v] = d.get(v, 0) + e
                m = tuple(sorted(d.items()))
                t[m] = t.get(m, 0) + c1 * c2
        return Poly(t)
    def __eq__(self, o): return self.t == o.t
    def is_zero(self): return not self.t

class Rat:
    __slots__ = ("n", "d")
    def __init__(self, n, d=None):
        self.n = n; self.d = d if d is not None else Poly.const(1)
    def __add__(self, o): return Rat(self.n * o.d + o.n * self.d, self.d * o.d)
    def __sub__(self, o): return Rat(self.n * o.d - o.n * self.d, self.d * o.d)
    def __mul__(self, o): return Rat(self.n * o.n, self.d * o.d)
    def div(self, o):
        if o.n.is_zero(): raise Unknown("division by zero polynomial")
        return Rat(self.n * o.d, self.d * o.n)
    def equals(self, o): return (self.n * o.d - o.n * self.d).is_zero()

def rat(e, leaf):
    """dag tree -> Rat; `leaf(e)` maps leaves to variable names (or None).  Casts are transparent (exact arithmetic over Q)."""
    v = leaf(e)
    if v is not None:
        return Rat(Poly.var(v))
    k = e[0]
    if k == "const":
        c = e[1]
        if isinstance(c, int): return Rat(Poly.const(c))
        s = str(c)
        for suf in ("f32", "f64", "_f32", "_f64"):
            if s.endswith(suf): s = s[:-len(suf)]
        try: return Rat(Poly.const(Fraction(s.rstrip("_"))))
        except Exception: raise Unknown("const " + str(c))
    if k == "cast": return rat(e[2], leaf)
    if k == "pair": return rat(e[1], leaf)
    if k == "bin":
        op = e[1].rstrip("!~")
        a, b = rat(e[2], leaf), rat(e[3], leaf)
        if op == "Add": return a + b
        if op == "Sub": return a - b
        if op == "Mul": return a * b
        if op == "Div": return a.div(b)
        raise Unknown("bin " + e[1])
    if k == "un" and e[1] == "Neg":
        return Rat(Poly.const(0)) - rat(e[2], leaf)
    raise Unknown(str(e)[:80])
