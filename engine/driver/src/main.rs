//! rm-facts-driver: a `rustc_private` driver that dumps the *resolved program* of the crate `reactive_mutiny`
//! (type-checked built MIR of every body + type-level facts) as one JSON fact file.
//!
//! It is injected through `RUSTC_WORKSPACE_WRAPPER` (argv[1] is the real rustc path and is dropped).
//! It never evaluates / executes any code of the analysed crate: it only serialises what rustc computed.
//!
//! env: RMF_OUT   = path of the fact file to write (required for the target crate)
//!      RMF_NONCE = string copied into the fact file (freshness check by the caller)
//!      RMF_CRATE = crate name to analyse (default: reactive_mutiny)
#![feature(rustc_private)]
#![allow(static_mut_refs)]
extern crate rustc_abi;
extern crate rustc_data_structures;
extern crate rustc_driver;
extern crate rustc_hir;
extern crate rustc_interface;
extern crate rustc_middle;
extern crate rustc_session;
extern crate rustc_span;

use rustc_data_structures::steal::Steal;
use rustc_driver::{Callbacks, Compilation};
use rustc_hir::def::DefKind;
use rustc_hir::def_id::{DefId, LocalDefId, LOCAL_CRATE};
use rustc_interface::interface::{Compiler, Config};
use rustc_middle::mir::{
    self, AggregateKind, Body, Operand, Place, ProjectionElem, Rvalue, StatementKind, TerminatorKind, UnwindAction,
};
use rustc_middle::ty::{self, GenericArgKind, Ty, TyCtxt};
use rustc_middle::util::Providers;
use rustc_span::Span;
use std::fmt::Write as _;
use std::io::Write as _;
use std::sync::Mutex;

// ------------------------------------------------------------------------------------------------ tiny JSON
enum J {
    Null,
    B(bool),
    I(i128),
    S(String),
    A(Vec<J>),
    O(Vec<(&'static str, J)>),
}
fn s<T: Into<String>>(x: T) -> J {
    J::S(x.into())
}
impl J {
    fn write(&self, out: &mut String) {
        match self {
            J::Null => out.push_str("null"),
            J::B(b) => out.push_str(if *b { "true" } else { "false" }),
            J::I(i) => {
                let _ = write!(out, "{}", i);
            }
            J::S(st) => {
                out.push('"');
                for c in st.chars() {
                    match c {
                        '"' => out.push_str("\\\""),
                        '\\' => out.push_str("\\\\"),
                        '\n' => out.push_str("\\n"),
                        '\r' => out.push_str("\\r"),
                        '\t' => out.push_str("\\t"),
                        c if (c as u32) < 0x20 => {
                            let _ = write!(out, "\\u{:04x}", c as u32);
                        }
                        c => out.push(c),
                    }
                }
                out.push('"');
            }
            J::A(v) => {
                out.push('[');
                for (i, x) in v.iter().enumerate() {
                    if i > 0 {
                        out.push(',');
                    }
                    x.write(out);
                }
                out.push(']');
            }
            J::O(v) => {
                out.push('{');
                for (i, (k, x)) in v.iter().enumerate() {
                    if i > 0 {
                        out.push(',');
                    }
                    let _ = write!(out, "\"{}\":", k);
                    x.write(out);
                }
                out.push('}');
            }
        }
    }
}

static FNS: Mutex<Vec<String>> = Mutex::new(Vec::new());
static mut DEFAULT_MIR_BUILT: Option<for<'tcx> fn(TyCtxt<'tcx>, LocalDefId) -> &'tcx Steal<Body<'tcx>>> = None;

fn target_crate() -> String {
    std::env::var("RMF_CRATE").unwrap_or_else(|_| "reactive_mutiny".to_string())
}

// ------------------------------------------------------------------------------------------------ helpers
fn span_line(tcx: TyCtxt<'_>, sp: Span) -> (String, i128, i128) {
    let sm = tcx.sess.source_map();
    // use the outermost call site for macro expansions so that lines point into the crate's own files
    let sp = sp.source_callsite();
    let lo = sm.lookup_char_pos(sp.lo());
    let hi = sm.lookup_char_pos(sp.hi());
    (lo.file.name.prefer_local_unconditionally().to_string(), lo.line as i128, hi.line as i128)
}

/// A stable, generics-free key for a definition: `module::Type::method`, `module::Type as trait::Trait::method`,
/// closures/coroutines `<parent key>::{closure#n}`.
fn def_key(tcx: TyCtxt<'_>, def: DefId) -> String {
    use rustc_hir::definitions::DefPathData;
    let key = tcx.def_key(def);
    match key.disambiguated_data.data {
        DefPathData::Closure => {
            let parent = tcx.parent(def);
            return format!("{}::{{closure#{}}}", def_key(tcx, parent), key.disambiguated_data.disambiguator);
        }
        _ => {}
    }
    let kind = tcx.def_kind(def);
    match kind {
        DefKind::AssocFn | DefKind::AssocConst { .. } | DefKind::AssocTy => {
            let parent = tcx.parent(def);
            let name = tcx.item_name(def).to_string();
            match tcx.def_kind(parent) {
                DefKind::Impl { of_trait } => {
                    let self_ty = tcx.type_of(parent).instantiate_identity().skip_norm_wip();
                    let st = ty_head(tcx, self_ty);
                    if of_trait {
                        let tr = tcx.impl_trait_ref(parent).instantiate_identity().skip_norm_wip();
                        format!("{} as {}::{}", st, tcx.def_path_str(tr.def_id), name)
                    } else {
                        format!("{}::{}", st, name)
                    }
                }
                _ => format!("{}::{}", tcx.def_path_str(parent), name),
            }
        }
        DefKind::Fn if matches!(tcx.def_kind(tcx.parent(def)), DefKind::Fn | DefKind::AssocFn | DefKind::Closure) => {
            // nested fn item
            format!("{}::{}", def_key(tcx, tcx.parent(def)), tcx.item_name(def))
        }
        _ => tcx.def_path_str(def),
    }
}

/// head of a type: ADT path without generics (refs / raw pointers peeled), or the printed type
fn ty_head<'tcx>(tcx: TyCtxt<'tcx>, t: Ty<'tcx>) -> String {
    match t.kind() {
        ty::Adt(adt, _) => tcx.def_path_str(adt.did()),
        ty::Ref(_, inner, _) => format!("&{}", ty_head(tcx, *inner)),
        ty::RawPtr(inner, _) => format!("*{}", ty_head(tcx, *inner)),
        _ => t.to_string(),
    }
}

fn peel<'tcx>(t: Ty<'tcx>) -> Ty<'tcx> {
    match t.kind() {
        ty::Ref(_, inner, _) => peel(*inner),
        ty::RawPtr(inner, _) => peel(*inner),
        _ => t,
    }
}

fn ty_json<'tcx>(tcx: TyCtxt<'tcx>, t: Ty<'tcx>, depth: usize) -> J {
    if depth > 8 {
        return J::O(vec![("k", s("deep")), ("s", s(t.to_string()))]);
    }
    match t.kind() {
        ty::Adt(adt, args) => {
            let mut a = Vec::new();
            for ga in args.iter() {
                match ga.kind() {
                    GenericArgKind::Type(t2) => a.push(ty_json(tcx, t2, depth + 1)),
                    GenericArgKind::Const(c) => a.push(J::O(vec![("k", s("const")), ("s", s(c.to_string()))])),
                    GenericArgKind::Lifetime(_) => {}
                }
            }
            J::O(vec![("k", s("adt")), ("path", s(tcx.def_path_str(adt.did()))), ("args", J::A(a)), ("s", s(t.to_string()))])
        }
        ty::Ref(_, inner, m) => J::O(vec![("k", s("ref")), ("mut", J::B(m.is_mut())), ("to", ty_json(tcx, *inner, depth + 1))]),
        ty::RawPtr(inner, m) => J::O(vec![("k", s("ptr")), ("mut", J::B(m.is_mut())), ("to", ty_json(tcx, *inner, depth + 1))]),
        ty::Array(elem, len) => J::O(vec![("k", s("array")), ("elem", ty_json(tcx, *elem, depth + 1)), ("len", s(len.to_string()))]),
        ty::Slice(elem) => J::O(vec![("k", s("slice")), ("elem", ty_json(tcx, *elem, depth + 1))]),
        ty::Tuple(ts) => J::O(vec![("k", s("tuple")), ("elems", J::A(ts.iter().map(|x| ty_json(tcx, x, depth + 1)).collect()))]),
        ty::Param(p) => J::O(vec![("k", s("param")), ("s", s(p.name.to_string()))]),
        _ => J::O(vec![("k", s("other")), ("s", s(t.to_string()))]),
    }
}

fn place_json<'tcx>(tcx: TyCtxt<'tcx>, body: &Body<'tcx>, p: &Place<'tcx>) -> J {
    let mut proj = Vec::new();
    let mut pty = mir::PlaceTy::from_ty(body.local_decls[p.local].ty);
    for elem in p.projection.iter() {
        match elem {
            ProjectionElem::Deref => proj.push(s("*")),
            ProjectionElem::Field(f, _) => {
                let (name, owner) = match pty.ty.kind() {
                    ty::Adt(adt, _) => {
                        let v = match pty.variant_index {
                            Some(v) => adt.variant(v),
                            None => {
                                if adt.is_enum() {
                                    adt.variant(0u32.into())
                                } else {
                                    adt.non_enum_variant()
                                }
                            }
                        };
                        (v.fields[f].name.to_string(), tcx.def_path_str(adt.did()))
                    }
                    ty::Closure(did, _) | ty::Coroutine(did, _) | ty::CoroutineClosure(did, _) => {
                        // captured variable #f
                        let name = did
                            .as_local()
                            .and_then(|l| tcx.closure_captures(l).get(f.as_usize()).map(|c| c.to_string(tcx)))
                            .unwrap_or_else(|| format!("{}", f.as_u32()));
                        (name, "{closure}".to_string())
                    }
                    _ => (format!("{}", f.as_u32()), String::new()),
                };
                proj.push(J::A(vec![s("f"), s(name), J::I(f.as_u32() as i128), s(owner)]));
            }
            ProjectionElem::Downcast(name, vi) => {
                proj.push(J::A(vec![s("d"), s(name.map(|n| n.to_string()).unwrap_or_default()), J::I(vi.as_u32() as i128)]))
            }
            ProjectionElem::Index(l) => proj.push(J::A(vec![s("i"), J::I(l.as_u32() as i128)])),
            ProjectionElem::ConstantIndex { offset, from_end, .. } => {
                proj.push(J::A(vec![s("ci"), J::I(offset as i128), J::B(from_end)]))
            }
            other => proj.push(J::A(vec![s("o"), s(format!("{:?}", other))])),
        }
        pty = pty.projection_ty(tcx, elem);
    }
    J::O(vec![("l", J::I(p.local.as_u32() as i128)), ("p", J::A(proj))])
}

fn const_json<'tcx>(tcx: TyCtxt<'tcx>, c: &mir::ConstOperand<'tcx>) -> J {
    let t = c.const_.ty();
    let mut v = vec![("ty", s(t.to_string())), ("s", s(format!("{}", c.const_)))];
    match t.kind() {
        ty::FnDef(did, args) => {
            v.push(("fn", s(def_key(tcx, *did))));
            v.push(("fn_path", s(tcx.def_path_str_with_args(*did, args))));
        }
        _ => {}
    }
    match c.const_ {
        mir::Const::Unevaluated(u, _) => {
            v.push(("uneval", s(def_key(tcx, u.def))));
            v.push(("uneval_path", s(tcx.def_path_str_with_args(u.def, u.args))));
        }
        mir::Const::Ty(_, ct) => {
            if let ty::ConstKind::Param(p) = ct.kind() {
                v.push(("param", s(p.name.to_string())));
            }
        }
        mir::Const::Val(..) => {}
    }
    // scalar value when it is a plain integer / bool
    if let Some(sc) = c.const_.try_to_scalar_int() {
        if t.is_integral() || t.is_bool() || t.is_char() {
            let size = sc.size();
            let raw = sc.to_bits(size);
            let val: i128 = if t.is_signed() { sc.to_int(size) } else { raw as i128 };
            v.push(("int", J::I(val)));
        }
    }
    J::O(v)
}

fn op_json<'tcx>(tcx: TyCtxt<'tcx>, body: &Body<'tcx>, o: &Operand<'tcx>) -> J {
    match o {
        Operand::Copy(p) => J::A(vec![s("c"), place_json(tcx, body, p)]),
        Operand::Move(p) => J::A(vec![s("m"), place_json(tcx, body, p)]),
        Operand::Constant(c) => J::A(vec![s("k"), const_json(tcx, c)]),
        other => J::A(vec![s("o"), s(format!("{:?}", other))]),
    }
}

fn unwind_json(u: &UnwindAction) -> J {
    match u {
        UnwindAction::Cleanup(bb) => J::I(bb.as_u32() as i128),
        _ => J::Null,
    }
}

fn rvalue_json<'tcx>(tcx: TyCtxt<'tcx>, body: &Body<'tcx>, rv: &Rvalue<'tcx>) -> J {
    match rv {
        Rvalue::Use(o, ..) => J::A(vec![s("Use"), op_json(tcx, body, o)]),
        Rvalue::BinaryOp(op, ops) => J::A(vec![s("Bin"), s(format!("{:?}", op)), op_json(tcx, body, &ops.0), op_json(tcx, body, &ops.1)]),
        Rvalue::UnaryOp(op, o) => J::A(vec![s("Un"), s(format!("{:?}", op)), op_json(tcx, body, o)]),
        Rvalue::Cast(k, o, t) => J::A(vec![s("Cast"), s(format!("{:?}", k)), op_json(tcx, body, o), s(t.to_string())]),
        Rvalue::Ref(_, bk, p) => J::A(vec![s("Ref"), s(format!("{:?}", bk)), place_json(tcx, body, p)]),
        Rvalue::RawPtr(k, p) => J::A(vec![s("RawPtr"), s(format!("{:?}", k)), place_json(tcx, body, p)]),
        Rvalue::Discriminant(p) => J::A(vec![s("Discr"), place_json(tcx, body, p)]),
        Rvalue::CopyForDeref(p) => J::A(vec![s("Use"), J::A(vec![s("c"), place_json(tcx, body, p)])]),
        Rvalue::Repeat(o, n) => J::A(vec![s("Repeat"), op_json(tcx, body, o), s(n.to_string())]),
        Rvalue::Aggregate(kind, ops) => {
            let k = match &**kind {
                AggregateKind::Array(_) => J::A(vec![s("Array")]),
                AggregateKind::Tuple => J::A(vec![s("Tuple")]),
                AggregateKind::Adt(did, vi, _, _, _) => {
                    let adt = tcx.adt_def(*did);
                    let v = adt.variant(*vi);
                    let fields: Vec<J> = v.fields.iter().map(|f| s(f.name.to_string())).collect();
                    J::A(vec![s("Adt"), s(tcx.def_path_str(*did)), s(v.name.to_string()), J::I(vi.as_u32() as i128), J::A(fields)])
                }
                AggregateKind::Closure(did, _) => J::A(vec![s("Closure"), s(def_key(tcx, *did))]),
                AggregateKind::Coroutine(did, _) => J::A(vec![s("Coroutine"), s(def_key(tcx, *did))]),
                AggregateKind::CoroutineClosure(did, _) => J::A(vec![s("CoroutineClosure"), s(def_key(tcx, *did))]),
                AggregateKind::RawPtr(..) => J::A(vec![s("RawPtrAgg")]),
            };
            J::A(vec![s("Agg"), k, J::A(ops.iter().map(|o| op_json(tcx, body, o)).collect())])
        }
        other => J::A(vec![s("Other"), s(format!("{:?}", other))]),
    }
}

fn callee_json<'tcx>(tcx: TyCtxt<'tcx>, owner: LocalDefId, func: &Operand<'tcx>, body: &Body<'tcx>) -> Vec<(&'static str, J)> {
    let mut v: Vec<(&'static str, J)> = Vec::new();
    if let Some((did, args)) = func.const_fn_def() {
        v.push(("f", s(def_key(tcx, did))));
        v.push(("fpath", s(tcx.def_path_str_with_args(did, args))));
        v.push(("fname", s(tcx.item_name(did).to_string())));
        v.push(("fcrate", s(tcx.crate_name(did.krate).to_string())));
        // generic arguments (types as heads + printed)
        let mut ga = Vec::new();
        for a in args.iter() {
            match a.kind() {
                GenericArgKind::Type(t) => ga.push(J::A(vec![s("T"), s(t.to_string()), s(ty_head(tcx, peel(t)))])),
                GenericArgKind::Const(c) => ga.push(J::A(vec![s("C"), s(c.to_string())])),
                GenericArgKind::Lifetime(_) => {}
            }
        }
        v.push(("gargs", J::A(ga)));
        // trait method?
        if let Some(tr) = tcx.trait_of_assoc(did) {
            v.push(("trait", s(tcx.def_path_str(tr))));
            // try to resolve to an impl item (works when impl selection does not depend on the caller's generics)
            let env = ty::TypingEnv::post_analysis(tcx, owner.to_def_id());
            if let Ok(Some(inst)) = ty::Instance::try_resolve(tcx, env, did, args) {
                let rd = inst.def_id();
                if rd != did {
                    v.push(("resolved", s(def_key(tcx, rd))));
                }
            }
        } else if let Some(imp) = tcx.impl_of_assoc(did) {
            let st = tcx.type_of(imp).instantiate_identity().skip_norm_wip();
            v.push(("impl_self", s(ty_head(tcx, st))));
        }
    } else {
        v.push(("indirect", op_json(tcx, body, func)));
        // type of the callee operand (closure / fn pointer / generic F)
        let t = func.ty(&body.local_decls, tcx);
        v.push(("indirect_ty", s(t.to_string())));
    }
    v
}

fn body_json<'tcx>(tcx: TyCtxt<'tcx>, def: LocalDefId, body: &Body<'tcx>) -> J {
    let did = def.to_def_id();
    let kind = tcx.def_kind(def);
    let (file, line, end_line) = span_line(tcx, body.span);
    let mut o: Vec<(&'static str, J)> = Vec::new();
    o.push(("key", s(def_key(tcx, did))));
    o.push(("path", s(tcx.def_path_str(did))));
    o.push(("kind", s(format!("{:?}", kind))));
    o.push(("file", s(file)));
    o.push(("line", J::I(line)));
    o.push(("end_line", J::I(end_line)));
    o.push(("argc", J::I(body.arg_count as i128)));
    o.push(("is_coroutine", J::B(body.coroutine.is_some())));
    // parent / impl info
    let mut cur = did;
    while tcx.is_closure_like(cur) || matches!(tcx.def_kind(cur), DefKind::Closure | DefKind::InlineConst | DefKind::AnonConst) {
        cur = tcx.parent(cur);
    }
    o.push(("owner_fn", s(def_key(tcx, cur))));
    if matches!(tcx.def_kind(cur), DefKind::AssocFn | DefKind::AssocConst { .. }) {
        let parent = tcx.parent(cur);
        if let DefKind::Impl { of_trait } = tcx.def_kind(parent) {
            let st = tcx.type_of(parent).instantiate_identity().skip_norm_wip();
            o.push(("impl_self", s(ty_head(tcx, st))));
            if of_trait {
                let tr = tcx.impl_trait_ref(parent).instantiate_identity().skip_norm_wip();
                o.push(("impl_trait", s(tcx.def_path_str(tr.def_id))));
            }
        } else if let DefKind::Trait = tcx.def_kind(parent) {
            o.push(("in_trait", s(tcx.def_path_str(parent))));
        }
    }
    if matches!(kind, DefKind::Fn | DefKind::AssocFn) {
        let sig = tcx.fn_sig(did).instantiate_identity().skip_norm_wip();
        o.push(("unsafe", J::B(sig.safety().is_unsafe())));
        o.push(("vis", s(format!("{:?}", tcx.visibility(did)))));
        o.push(("sig", s(sig.to_string())));
    }
    if tcx.is_closure_like(did) {
        let caps: Vec<J> = tcx
            .closure_captures(def)
            .iter()
            .map(|c| J::A(vec![s(c.to_string(tcx)), J::B(c.is_by_ref())]))
            .collect();
        o.push(("captures", J::A(caps)));
    }
    // locals
    let mut names: Vec<Option<String>> = vec![None; body.local_decls.len()];
    let mut dbg = Vec::new();
    for vdi in &body.var_debug_info {
        match &vdi.value {
            mir::VarDebugInfoContents::Place(p) => {
                if p.projection.is_empty() {
                    names[p.local.as_usize()] = Some(vdi.name.to_string());
                }
                dbg.push(J::A(vec![s(vdi.name.to_string()), place_json(tcx, body, p)]));
            }
            mir::VarDebugInfoContents::Const(c) => dbg.push(J::A(vec![s(vdi.name.to_string()), J::A(vec![s("k"), const_json(tcx, c)])])),
        }
    }
    o.push(("dbg", J::A(dbg)));
    let locals: Vec<J> = body
        .local_decls
        .iter_enumerated()
        .map(|(l, d)| {
            J::O(vec![
                ("ty", s(d.ty.to_string())),
                ("head", s(ty_head(tcx, peel(d.ty)))),
                ("name", names[l.as_usize()].clone().map(J::S).unwrap_or(J::Null)),
                ("user", J::B(d.is_user_variable())),
            ])
        })
        .collect();
    o.push(("locals", J::A(locals)));
    // blocks
    let mut blocks = Vec::new();
    for (_bb, data) in body.basic_blocks.iter_enumerated() {
        let mut stmts = Vec::new();
        for st in &data.statements {
            let (_, l, _) = span_line(tcx, st.source_info.span);
            match &st.kind {
                StatementKind::Assign(b) => {
                    let (pl, rv) = &**b;
                    stmts.push(J::A(vec![s("A"), place_json(tcx, body, pl), rvalue_json(tcx, body, rv), J::I(l)]));
                }
                StatementKind::SetDiscriminant { place, variant_index } => {
                    stmts.push(J::A(vec![s("SD"), place_json(tcx, body, place), J::I(variant_index.as_u32() as i128), J::I(l)]));
                }
                StatementKind::StorageDead(loc) => stmts.push(J::A(vec![s("Dead"), J::I(loc.as_u32() as i128)])),
                StatementKind::StorageLive(loc) => stmts.push(J::A(vec![s("Live"), J::I(loc.as_u32() as i128)])),
                StatementKind::Intrinsic(i) => stmts.push(J::A(vec![s("Intr"), s(format!("{:?}", i)), J::I(l)])),
                _ => {}
            }
        }
        let term = match &data.terminator {
            None => J::A(vec![s("None")]),
            Some(t) => {
                let (_, l, _) = span_line(tcx, t.source_info.span);
                let exp = t.source_info.span.from_expansion();
                match &t.kind {
                    TerminatorKind::Goto { target } => J::A(vec![s("Goto"), J::I(target.as_u32() as i128)]),
                    TerminatorKind::SwitchInt { discr, targets } => {
                        let arms: Vec<J> = targets.iter().map(|(v, t)| J::A(vec![J::I(v as i128), J::I(t.as_u32() as i128)])).collect();
                        J::A(vec![
                            s("Switch"),
                            op_json(tcx, body, discr),
                            J::A(arms),
                            J::I(targets.otherwise().as_u32() as i128),
                            J::I(l),
                            s(discr.ty(&body.local_decls, tcx).to_string()),
                        ])
                    }
                    TerminatorKind::Call { func, args, destination, target, unwind, fn_span, .. } => {
                        let mut v = callee_json(tcx, def, func, body);
                        v.push(("args", J::A(args.iter().map(|a| op_json(tcx, body, &a.node)).collect())));
                        v.push(("dst", place_json(tcx, body, destination)));
                        v.push(("t", target.map(|t| J::I(t.as_u32() as i128)).unwrap_or(J::Null)));
                        v.push(("uw", unwind_json(unwind)));
                        v.push(("line", J::I(l)));
                        v.push(("exp", J::B(exp || fn_span.from_expansion())));
                        J::A(vec![s("Call"), J::O(v)])
                    }
                    TerminatorKind::TailCall { func, args, .. } => {
                        let mut v = callee_json(tcx, def, func, body);
                        v.push(("args", J::A(args.iter().map(|a| op_json(tcx, body, &a.node)).collect())));
                        v.push(("line", J::I(l)));
                        J::A(vec![s("TailCall"), J::O(v)])
                    }
                    TerminatorKind::Drop { place, target, unwind, .. } => J::A(vec![
                        s("Drop"),
                        place_json(tcx, body, place),
                        J::I(target.as_u32() as i128),
                        unwind_json(unwind),
                        J::I(l),
                        s(place.ty(&body.local_decls, tcx).ty.to_string()),
                    ]),
                    TerminatorKind::Assert { cond, expected, msg, target, .. } => {
                        let kind = format!("{:?}", msg);
                        let kind = kind.split('(').next().unwrap_or("").to_string();
                        J::A(vec![s("Assert"), op_json(tcx, body, cond), J::B(*expected), s(kind), J::I(target.as_u32() as i128), J::I(l)])
                    }
                    TerminatorKind::Yield { value, resume, resume_arg, drop } => J::A(vec![
                        s("Yield"),
                        op_json(tcx, body, value),
                        J::I(resume.as_u32() as i128),
                        place_json(tcx, body, resume_arg),
                        drop.map(|d| J::I(d.as_u32() as i128)).unwrap_or(J::Null),
                        J::I(l),
                    ]),
                    TerminatorKind::Return => J::A(vec![s("Return")]),
                    TerminatorKind::Unreachable => J::A(vec![s("Unreachable")]),
                    TerminatorKind::UnwindResume => J::A(vec![s("Resume")]),
                    TerminatorKind::UnwindTerminate(_) => J::A(vec![s("Terminate")]),
                    TerminatorKind::CoroutineDrop => J::A(vec![s("CoroutineDrop")]),
                    TerminatorKind::FalseEdge { real_target, imaginary_target } => {
                        J::A(vec![s("FalseEdge"), J::I(real_target.as_u32() as i128), J::I(imaginary_target.as_u32() as i128)])
                    }
                    TerminatorKind::FalseUnwind { real_target, unwind } => {
                        J::A(vec![s("FalseUnwind"), J::I(real_target.as_u32() as i128), unwind_json(unwind)])
                    }
                    TerminatorKind::InlineAsm { .. } => J::A(vec![s("InlineAsm")]),
                }
            }
        };
        blocks.push(J::O(vec![("cleanup", J::B(data.is_cleanup)), ("stmts", J::A(stmts)), ("term", term)]));
    }
    o.push(("blocks", J::A(blocks)));
    J::O(o)
}

fn my_mir_built<'tcx>(tcx: TyCtxt<'tcx>, def: LocalDefId) -> &'tcx Steal<Body<'tcx>> {
    let res = unsafe { (DEFAULT_MIR_BUILT.unwrap())(tcx, def) };
    if tcx.crate_name(LOCAL_CRATE).as_str() != target_crate() {
        return res;
    }
    let kind = tcx.def_kind(def);
    // generic constants (`const INDEX_MASK: usize = BUFFER_SIZE - 1` in an impl with const generics) cannot be evaluated polymorphically:
    // their bodies are emitted (kind Const / AssocConst) so that the rules can read the defining expression
    let generic_const = matches!(kind, DefKind::Const { .. } | DefKind::AssocConst { .. })
        && tcx.generics_of(def.to_def_id()).requires_monomorphization(tcx);
    if !matches!(kind, DefKind::Fn | DefKind::AssocFn | DefKind::Closure) && !generic_const {
        return res;
    }
    let body = res.borrow();
    let mut out = String::new();
    body_json(tcx, def, &body).write(&mut out);
    FNS.lock().unwrap().push(out);
    drop(body);
    res
}

// ------------------------------------------------------------------------------------------------ type-level facts
fn type_facts<'tcx>(tcx: TyCtxt<'tcx>) -> (J, J, J, J) {
    let mut adts = Vec::new();
    let mut impls = Vec::new();
    let mut aliases = Vec::new();
    let mut consts = Vec::new();
    for ldid in tcx.hir_crate_items(()).definitions() {
        let did = ldid.to_def_id();
        let kind = tcx.def_kind(did);
        match kind {
            DefKind::Struct | DefKind::Enum | DefKind::Union => {
                let adt = tcx.adt_def(did);
                let (file, line, _) = span_line(tcx, tcx.def_span(did));
                let mut variants = Vec::new();
                for v in adt.variants().iter() {
                    let mut fields = Vec::new();
                    for f in v.fields.iter() {
                        let t = tcx.type_of(f.did).instantiate_identity().skip_norm_wip();
                        fields.push(J::O(vec![
                            ("name", s(f.name.to_string())),
                            ("ty", ty_json(tcx, t, 0)),
                            ("vis", s(format!("{:?}", f.vis))),
                        ]));
                    }
                    variants.push(J::O(vec![("name", s(v.name.to_string())), ("fields", J::A(fields))]));
                }
                let generics: Vec<J> = tcx.generics_of(did).own_params.iter().map(|p| s(p.name.to_string())).collect();
                adts.push(J::O(vec![
                    ("path", s(tcx.def_path_str(did))),
                    ("kind", s(format!("{:?}", kind))),
                    ("file", s(file)),
                    ("line", J::I(line)),
                    ("generics", J::A(generics)),
                    ("variants", J::A(variants)),
                ]));
            }
            DefKind::Impl { of_trait } => {
                let st = tcx.type_of(did).instantiate_identity().skip_norm_wip();
                let (file, line, _) = span_line(tcx, tcx.def_span(did));
                let mut o = vec![
                    ("self", s(ty_head(tcx, st))),
                    ("self_ty", ty_json(tcx, st, 0)),
                    ("file", s(file)),
                    ("line", J::I(line)),
                ];
                if of_trait {
                    let tr = tcx.impl_trait_ref(did).instantiate_identity().skip_norm_wip();
                    o.push(("trait", s(tcx.def_path_str(tr.def_id))));
                    o.push(("trait_full", s(tr.to_string())));
                    o.push(("negative", J::B(matches!(tcx.impl_polarity(did), ty::ImplPolarity::Negative))));
                }
                let items: Vec<J> = tcx
                    .associated_items(did)
                    .in_definition_order()
                    .map(|it| J::A(vec![s(it.opt_name().map(|n| n.to_string()).unwrap_or_default()), s(format!("{:?}", it.tag()))]))
                    .collect();
                o.push(("items", J::A(items)));
                impls.push(J::O(o));
            }
            DefKind::TyAlias => {
                let t = tcx.type_of(did).instantiate_identity().skip_norm_wip();
                let generics: Vec<J> = tcx.generics_of(did).own_params.iter().map(|p| s(p.name.to_string())).collect();
                aliases.push(J::O(vec![("path", s(tcx.def_path_str(did))), ("generics", J::A(generics)), ("ty", ty_json(tcx, t, 0))]));
            }
            DefKind::Trait => {
                let items: Vec<J> = tcx
                    .associated_items(did)
                    .in_definition_order()
                    .map(|it| J::A(vec![s(it.opt_name().map(|n| n.to_string()).unwrap_or_default()), s(format!("{:?}", it.tag())), J::B(it.defaultness(tcx).has_value())]))
                    .collect();
                impls.push(J::O(vec![("trait_def", s(tcx.def_path_str(did))), ("items", J::A(items))]));
            }
            DefKind::Const { .. } | DefKind::AssocConst { .. } | DefKind::Static { .. } => {
                let t = tcx.type_of(did).instantiate_identity().skip_norm_wip();
                let mut v = vec![("key", s(def_key(tcx, did))), ("kind", s(format!("{:?}", kind))), ("ty", s(t.to_string()))];
                // value of plain (non-generic) integer / bool constants
                let is_const = !matches!(kind, DefKind::Static { .. });
                if is_const && (t.is_integral() || t.is_bool()) && !tcx.generics_of(did).requires_monomorphization(tcx) {
                    if let Ok(val) = tcx.const_eval_poly(did) {
                        if let Some(sc) = val.try_to_scalar_int() {
                            let size = sc.size();
                            let raw = sc.to_bits(size);
                            let iv: i128 = if t.is_signed() { sc.to_int(size) } else { raw as i128 };
                            v.push(("int", J::I(iv)));
                        }
                    }
                }
                consts.push(J::O(v));
            }
            _ => {}
        }
    }
    (J::A(adts), J::A(impls), J::A(aliases), J::A(consts))
}

struct Cb;
impl Callbacks for Cb {
    fn config(&mut self, config: &mut Config) {
        config.override_queries = Some(|_sess, providers: &mut Providers| {
            unsafe {
                DEFAULT_MIR_BUILT = Some(providers.queries.mir_built);
            }
            providers.queries.mir_built = my_mir_built;
        });
    }
    fn after_analysis<'tcx>(&mut self, _c: &Compiler, tcx: TyCtxt<'tcx>) -> Compilation {
        if tcx.crate_name(LOCAL_CRATE).as_str() == target_crate() {
            if let Ok(p) = std::env::var("RMF_OUT") {
                let (adts, impls, aliases, consts) = type_facts(tcx);
                let fns = FNS.lock().unwrap();
                let mut out = String::with_capacity(64 << 20);
                out.push_str("{\"meta\":");
                J::O(vec![
                    ("nonce", s(std::env::var("RMF_NONCE").unwrap_or_default())),
                    ("crate", s(target_crate())),
                    ("crate_types", s(format!("{:?}", tcx.crate_types()))),
                    ("n_bodies", J::I(fns.len() as i128)),
                    ("is_test", J::B(tcx.sess.opts.test)),
                ])
                .write(&mut out);
                out.push_str(",\"adts\":");
                adts.write(&mut out);
                out.push_str(",\"impls\":");
                impls.write(&mut out);
                out.push_str(",\"aliases\":");
                aliases.write(&mut out);
                out.push_str(",\"consts\":");
                consts.write(&mut out);
                out.push_str(",\"fns\":[");
                for (i, f) in fns.iter().enumerate() {
                    if i > 0 {
                        out.push_str(",\n");
                    }
                    out.push_str(f);
                }
                out.push_str("]}");
                // one write, then atomic rename
                let tmp = format!("{}.tmp{}", p, std::process::id());
                std::fs::File::create(&tmp).unwrap().write_all(out.as_bytes()).unwrap();
                std::fs::rename(&tmp, &p).unwrap();
            }
        }
        Compilation::Continue
    }
}

fn main() {
    let args: Vec<String> = std::env::args().collect();
    let mut a = vec!["rustc".to_string()];
    a.extend(args.into_iter().skip(2));
    rustc_driver::run_compiler(&a, &mut Cb);
}
