#!/usr/bin/env python3
"""Regenerates /verif/MANIFEST.json from the property modules present in engine/rules/props (MANIFEST_* attributes)."""
import importlib, json, os, sys
V = "/verif"
sys.path.insert(0, V + "/engine/rules")
ids = [json.loads(l)["id"] for l in open(V + "/properties.jsonl")]
checks = []; na = []
for pid in ids:
    p = f"{V}/engine/rules/props/{pid}.py"
    if not os.path.exists(p):
        na.append({"property_id": pid, "reason": "check not built yet (see DESIGN.md section 4 for the planned static rules)"}); continue
    m = importlib.import_module("props." + pid)
    if getattr(m, "NOT_APPLICABLE", None):
        na.append({"property_id": pid, "reason": m.NOT_APPLICABLE}); continue
    checks.append({
        "property_id": pid,
        "quick_cmd": f"./check {pid} --tier quick",
        "thorough_cmd": f"./check {pid} --tier thorough",
        "evidence_file": f"/verif/evidence/{pid}.json",
        "replay_cmd_template": "cat {path}",
        "engine": "rm-static",
        "level_claimed": {"category": getattr(m, "LEVEL", "other"), "text": m.EXPLANATION, "design_ref": f"DESIGN.md section 4, {pid}"},
        "level_note": "; ".join(getattr(m, "ASSUMPTIONS", [])) or "trusts rustc's MIR construction and the role table",
        "technique": getattr(m, "TECHNIQUE", "static analysis: custom rules over rustc's type-checked MIR (typestate / dominance / dataflow / who-may-call)"),
    })
man = {
 "version": 1,
 "setup_cmd": "./setup.sh",
 "hooks": {"guard": "none", "enable": "no hooks: the analysis reads the unmodified working tree of /repo (cargo +nightly check under a rustc_private facts driver)",
           "baseline_off_cmd": "/verif/tools/run_baseline.sh /repo", "source_commits": [], "add_only": True},
 "engines": [{"name": "rm-static", "path": "/verif/engine", "serves_properties": [c["property_id"] for c in checks],
              "kind_free_text": "rustc_private driver dumping type-checked MIR + type facts of /repo's current tree as JSON; Python rule engine (CFG dominance/post-dominance, interprocedural typestate with return-value correlation, field-access/lockset, expression DAG, path counting); known_findings.json; self-test mutants"}],
 "checks": checks,
 "notes": "Static analysis only: nothing executes code of the analysed crate. ./check <id> exits 0 (held / only listed KNOWN-FINDINGs), 1 with a VIOLATION line, 2 on infrastructure/anchor problems (no VIOLATION line). `./check selftest [Cxx]` runs the checker's own mutant corpus on scratch copies.",
 "not_applicable": na,
}
json.dump(man, open(V + "/MANIFEST.json", "w"), indent=1)
print("checks:", [c["property_id"] for c in checks], "n/a:", len(na))
