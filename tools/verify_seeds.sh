#!/bin/bash
# usage: verify_seeds.sh <Cxx>   -- independently re-verifies the seeds an agent left in /tmp/wt/<Cxx>-out/seed{1,2} using the
# scratch worktree /tmp/wt/<Cxx>; keeps verified ones as /verif/seeded/<Cxx>-s<k>/ ; removes the worktree afterwards.
P=$1; WT=/tmp/wt/$P; OUT=/tmp/wt/$P-out
export CARGO_NET_OFFLINE=true
cd $WT || exit 2
for k in 1 2 3; do
  S=$OUT/seed$k; [ -f $S/patch.diff ] || continue
  git checkout -q -- . ; git clean -qfd -e target
  R=$S/verify.txt; : > $R
  if [ -f $S/seed_demo.rs ]; then cp $S/seed_demo.rs tests/seed_demo.rs; DEMO="cargo test --offline --test seed_demo"; KIND=integration_test
  elif [ -f $S/demo.patch ]; then git apply $S/demo.patch || { echo "demo.patch does not apply" >> $R; continue; }; DEMO="cargo test --offline --lib seed_demo"; KIND=lib_test_patch
  else echo "no demo" >> $R; continue; fi
  timeout 900 $DEMO > $S/demo_without.log 2>&1; A=$?
  echo "demo without patch: exit $A" >> $R
  git apply $S/patch.diff || { echo "patch does not apply" >> $R; continue; }
  /verif/tools/run_baseline.sh $WT > $S/suite_with.log 2>&1; B=$?
  if [ $B -ne 0 ]; then /verif/tools/run_baseline.sh $WT > $S/suite_with.log 2>&1; B=$?; echo "(suite re-run once)" >> $R; fi
  echo "suite with patch: exit $B: $(head -1 $S/suite_with.log)" >> $R
  timeout 900 $DEMO > $S/demo_with.log 2>&1; C=$?
  echo "demo with patch: exit $C" >> $R
  if [ $A -eq 0 ] && [ $B -eq 0 ] && [ $C -ne 0 ] && [ $C -ne 124 ]; then
    D=/verif/seeded/$P-s$k; mkdir -p $D
    cp $S/patch.diff $D/; [ -f $S/seed_demo.rs ] && cp $S/seed_demo.rs $D/; [ -f $S/demo.patch ] && cp $S/demo.patch $D/
    python3 - $S/meta.json $D/meta.json "${P:0:3}" "$KIND" "$DEMO" "$A" "$B" "$C" <<'PY'
import json,sys
try: m=json.load(open(sys.argv[1]))
except Exception as e: m={"note":"agent meta.json unreadable: %s"%e}
out={"property":sys.argv[3],"breaks":m.get("summary"),"why_it_breaks":m.get("why_it_breaks"),"needs_to_manifest":m.get("needs_to_manifest"),
 "demo_kind":sys.argv[4],"demo_cmd":sys.argv[5],
 "verified_by_me":{"what_i_ran":["demo on clean scratch worktree","git apply patch.diff","tools/run_baseline.sh (cargo test --workspace, 150 stable tests)","demo again"],
   "demo_without_patch_exit":int(sys.argv[6]),"suite_with_patch_exit":int(sys.argv[7]),"demo_with_patch_exit":int(sys.argv[8])},
 "agent_meta":m}
json.dump(out,open(sys.argv[2],'w'),indent=1)
PY
    echo "KEPT as $D" >> $R
  else echo "REJECTED" >> $R; fi
  cat $R
done
cd /; /verif/tools/rmwt.sh $P
