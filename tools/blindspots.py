#!/usr/bin/env python3
"""Blind-spot map of the rule set: a generic, property-agnostic mutation sweep over /repo's non-test source.

For every non-test function of the library a handful of syntactic mutation operators is applied, one mutant at a time, to a scratch copy
(never /repo); the mutated copy must still type-check (the facts driver = `cargo check`), then ALL registered checks run on it.
Nothing is executed.  The output is NOT a verdict about /repo and not a detection score (a generic mutant need not break any property and may
well be caught by the test suite): it is a map of which functions / lines NO rule is sensitive to -- the places where a property-breaking
edit would go unnoticed -- used to decide where rules are missing.

usage: blindspots.py [-j N] [--files glob-substr,...] [--max-per-fn K] [--out file.json] [--ops a,b,..]
"""
import glob, json, os, random, re, shutil, subprocess, sys, time
from concurrent.futures import ThreadPoolExecutor
V = os.path.dirname(os.path.dirname(os.path.abspath(__file__)))
sys.path.insert(0, V + "/engine/rules")
import selftest

args = sys.argv[1:]
def opt(name, default=None):
    if name in args:
        i = args.index(name); v = args[i + 1]; del args[i:i + 2]; return v
    return default
jobs = int(opt("-j", "8"))
only_files = (opt("--files") or "").split(",") if "--files" in sys.argv else None
max_per_fn = int(opt("--max-per-fn", "6"))
out_path = opt("--out", "/tmp/blindspots.json")
ops_sel = (opt("--ops") or "").split(",") if "--ops" in sys.argv else None
seed = int(opt("--seed", "1"))
OPS2 = "--ops2" in args
if OPS2: args.remove("--ops2")
SWAP = "--swap" in args
if SWAP: args.remove("--swap")
replay = opt("--replay")          # a previous output file: re-run only its silent mutants (optionally filtered by --grep on file / fn / source line)
grep = opt("--grep")

SKIP_FILES = ("test_commons.rs", "benchmarks.rs", "blocking_queue.rs", "blocking_stack.rs", "instruments.rs", "/lib.rs", "prelude/prelude.rs")
LOG_RE = re.compile(r"^\s*(trace|debug|info|warn|error|println|eprintln|print|panic|unreachable|todo|unimplemented|debug_assert|debug_assert_eq|assert|assert_eq|write|writeln|format)!")

def non_test_lines(path):
    lines = open(path).read().split("\n")
    end = len(lines)
    for i, l in enumerate(lines):
        if re.match(r"\s*#\[cfg\((any\()?test", l):
            end = i; break
    return lines, end

def candidates(line):
    """yields (op, new_line)"""
    s = line.strip()
    if not s or s.startswith("//") or s.startswith("#[") or s.startswith("*") or s.startswith("/*"): return
    code = line.split("//")[0]
    if LOG_RE.match(code): return
    # 1. delete a call statement
    if re.match(r"^\s*(unsafe\s*\{\s*)?(self\.|[A-Za-z_][A-Za-z0-9_:]*(::<[^>]*>)?\()[^=]*\)\s*(\}\s*)?;\s*$", code) and not re.match(r"^\s*(return|break|continue|let)\b", code):
        yield "del-call", re.sub(r"\S.*$", "", code) + "();"
    # 2. negate a condition
    m = re.match(r"^(\s*(?:\}\s*else\s+)?(?:if|while)\s+)(?!let\b)(.+?)(\s*\{\s*)$", code)
    if m:
        yield "neg-cond", f"{m.group(1)}!({m.group(2)}){m.group(3)}"
    # 3. relational operators
    for a, b in ((" < ", " <= "), (" <= ", " < "), (" > ", " >= "), (" >= ", " > "), (" == ", " != "), (" != ", " == ")):
        if a in code and "->" not in code.split(a)[0][-3:]:
            yield "relop" + a.strip(), code.replace(a, b, 1)
            break
    # 4. constants
    m = re.search(r"(\+|-)\s*1\b(?!\.)", code)
    if m and "=>" not in code and "->" not in code:
        yield "const1", code[:m.start()] + m.group(1) + " 2" + code[m.end():]
    # 5. booleans
    m = re.search(r"\b(true|false)\b", code)
    if m:
        yield "bool", code[:m.start()] + ("false" if m.group(1) == "true" else "true") + code[m.end():]
    # 6. memory orderings
    m = re.search(r"\b(Release|Acquire|AcqRel|SeqCst)\b", code)
    if m and "use " not in code and "Ordering::{" not in code:
        yield "ordering", code[:m.start()] + "Relaxed" + code[m.end():]
    # ---- second operator set (--ops2): sibling methods, argument swaps, literal shifts
    if OPS2:
        for a, b in (("fetch_add", "fetch_sub"), ("fetch_sub", "fetch_add"), ("overflowing_add", "overflowing_sub"), ("overflowing_sub", "overflowing_add"),
                     ("wrapping_add", "wrapping_sub"), ("wrapping_sub", "wrapping_add"), (".max(", ".min("), (".min(", ".max("), ("is_ok()", "is_err()"), ("is_err()", "is_ok()"),
                     ("is_some()", "is_none()"), ("is_none()", "is_some()"), (" && ", " || "), (" || ", " && "), ("break", "continue"), (".0", ".1"), (".1", ".0"),
                     ("take_while", "skip_while"), ("publish_movable", "publish_movable_x")):
            if b.endswith("_x"): continue
            if a in code:
                yield "sib:" + a.strip(), code.replace(a, b, 1)
                break
        m = re.search(r"compare_exchange(_weak)?\(([^,()]+(?:\([^()]*\))?[^,()]*),\s*([^,()]+(?:\([^()]*\))?[^,()]*),", code)
        if m:
            yield "cas-swap", code[:m.start(2)] + m.group(3).strip() + ", " + m.group(2).strip() + "," + code[m.end():]
        m = re.search(r"(==|>|>=|<|<=|!=)\s*0\b(?!\.)", code)
        if m:
            yield "zero-one", code[:m.start()] + m.group(1) + " 1" + code[m.end():]
        m = re.search(r"(\+|-)\s*1\b(?!\.)", code)
        if m and "=>" not in code and "->" not in code:
            yield "drop-one", code[:m.start()] + code[m.end():]
    # 7. early return of an Option / bool removed: `return None;` -> nothing is risky for typing; skip
    # 8. swap the arms' payload of a two-field tuple access
    # 9. drop an `unlock` / `wake` is covered by del-call

def fn_spans():
    import facts as F
    fx, _, _ = F.load("lib")
    spans = {}
    for f in fx.fns:
        if "::{closure#" in f["key"] and f.get("owner_fn"): continue
        spans.setdefault(f["file"], []).append((f["line"], f["end_line"], f["key"]))
    # closures are attributed to their owner: owner span covers them
    return spans

def owner(spans, file, ln):
    best = None
    for (a, b, k) in spans.get(file, []):
        if a <= ln <= b and (best is None or (b - a) < (best[1] - best[0])):
            best = (a, b, k)
    return best[2] if best else None

def main():
    if replay:
        prev = [m for m in json.load(open(replay)) if m["status"] == "silent"]
        if grep: prev = [m for m in prev if re.search(grep, m["file"] + " " + m["fn"] + " " + m["old"])]
        sel_replay = [{k: m[k] for k in ("file", "line", "fn", "op", "old", "new", "old2", "new2") if k in m} for m in prev]
    spans = fn_spans() if not replay else {}
    muts = []
    for path in (sorted(glob.glob("/repo/src/**/*.rs", recursive=True)) if not replay else []):
        rel = os.path.relpath(path, "/repo")
        if any(s in rel for s in SKIP_FILES): continue
        if only_files and not any(s in rel for s in only_files): continue
        lines, end = non_test_lines(path)
        for i in range(end):
            fnk = owner(spans, rel, i + 1)
            if not fnk: continue
            for op, new in candidates(lines[i]):
                if ops_sel and not any(op.startswith(o) for o in ops_sel): continue
                if OPS2 and not (op.startswith("sib:") or op in ("cas-swap", "zero-one", "drop-one")): continue
                if new != lines[i]:
                    muts.append({"file": rel, "line": i + 1, "fn": fnk, "op": op, "old": lines[i], "new": new})
            if SWAP and i + 1 < end and owner(spans, rel, i + 2) == fnk:
                a_, b_ = lines[i], lines[i + 1]
                stmt = lambda l: re.match(r"^\s+[^/\s].*;\s*(//.*)?$", l) and not re.match(r"^\s*(let|return|break|continue|use)\b", l) and not LOG_RE.match(l) and l.count("(") == l.count(")")
                if stmt(a_) and stmt(b_) and (len(a_) - len(a_.lstrip())) == (len(b_) - len(b_.lstrip())) and a_.strip() != b_.strip():
                    muts.append({"file": rel, "line": i + 1, "fn": fnk, "op": "swap", "old": a_, "new": b_, "old2": b_, "new2": a_})
    # cap per function (deterministic sample), keep every del-call and ordering mutant
    rnd = random.Random(seed)
    by_fn = {}
    for m in muts: by_fn.setdefault(m["fn"], []).append(m)
    sel = []
    for k, l in sorted(by_fn.items()):
        keep = [m for m in l if m["op"] in ("del-call", "ordering", "swap", "cas-swap")]
        rest = [m for m in l if m["op"] not in ("del-call", "ordering", "swap", "cas-swap")]
        rnd.shuffle(rest)
        sel += keep + rest[:max(0, max_per_fn - len(keep))]
    if replay: sel = sel_replay
    print(f"{len(muts)} candidate mutants in {len(by_fn)} functions; running {len(sel)}", flush=True)
    props = [c["property_id"] for c in json.load(open(V + "/MANIFEST.json"))["checks"]]
    t0 = time.time()

    def one(m):
        d, repo = selftest.make_scratch()
        try:
            p = os.path.join(repo, m["file"])
            lines = open(p).read().split("\n")
            assert lines[m["line"] - 1] == m["old"]
            lines[m["line"] - 1] = m["new"]
            if "new2" in m:
                assert lines[m["line"]] == m["old2"]
                lines[m["line"]] = m["new2"]
            open(p, "w").write("\n".join(lines))
            env = dict(os.environ, RM_REPO=repo, RM_EVID=os.path.join(d, "ev"))
            res = {}
            for pid in props:
                r = subprocess.run([V + "/check", pid], capture_output=True, text=True, env=env)
                if "cargo check under the facts driver failed" in r.stdout:
                    return dict(m, status="no-compile")
                if r.returncode == 1:
                    res[pid] = sorted({l.split("rule=")[1].split()[0] for l in r.stdout.splitlines() if l.strip().startswith("violation:")})
                elif r.returncode != 0:
                    res[pid] = ["INFRA"]
            return dict(m, status="caught" if res else "silent", by=res)
        except Exception as e:
            return dict(m, status="error", err=str(e)[:200])
        finally:
            shutil.rmtree(d, ignore_errors=True)

    results = []
    with ThreadPoolExecutor(jobs) as ex:
        for n, r in enumerate(ex.map(one, sel)):
            results.append(r)
            if n % 25 == 0 and not replay:
                print(f"[{n}/{len(sel)}] {time.time()-t0:.0f}s", flush=True)
            if replay:
                print(f"{r['status']:7} {r['file']}:{r['line']} {r['op']:9} {r.get('by') or ''} | {r['old'].strip()[:90]}", flush=True)
            json.dump(results, open(out_path, "w"))
    # summary per function
    per = {}
    for r in results:
        if r["status"] in ("no-compile", "error"): continue
        a = per.setdefault(r["fn"], [0, 0]); a[0] += 1; a[1] += r["status"] == "caught"
    print("\nfunctions where no compiling mutant was reported by any check:")
    for k, (n, c) in sorted(per.items()):
        if c == 0: print(f"   {k}  ({n} mutants)")
    tot = sum(n for n, c in per.values()); ct = sum(c for n, c in per.values())
    print(f"\n{tot} compiling mutants, {ct} reported by at least one check, {tot-ct} silent; {time.time()-t0:.0f}s")

main()
