#!/usr/bin/env python3
"""Writes the wake tables of the listed (class C, heuristic) C04 entry points into known_findings.json (field `wake_table` of each C04 `heuristic-wake` finding).
Run by hand on the tree the findings were confirmed on; never at check time (the checks only READ the committed file)."""
import json, sys
sys.path.insert(0, "/verif/engine/rules")
import facts, runner
import props.C04 as C04
fx, _, _ = facts.load("lib")
sites = C04.wake_sites(fx)
per = {}
for s in sites:
    per.setdefault(C04.entry_of(s.key) if hasattr(C04, "entry_of") else s.key, []).append(s)
p = "/verif/known_findings.json"
k = json.load(open(p))
n = 0
for fnd in k["findings"]:
    if fnd["property"] != "C04" or "|heuristic-wake|" not in fnd["key"]: continue
    owner = fnd["key"].split("|")[1]
    ss = [s for s in sites if (s.f.get("owner_fn") or s.key) == owner]
    if not ss:
        print("no sites for", owner); continue
    t = C04.entry_wake_table(fx, ss)
    if t is None:
        print("not evaluable:", owner); continue
    fnd["wake_table"] = C04.table_to_json(t); n += 1
json.dump(k, open(p, "w"), indent=1)
print("tables written:", n)
