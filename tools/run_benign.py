#!/usr/bin/env python3
"""False-alarm test: applies each behaviour-preserving refactor of mutants/benign.json to a scratch copy of /repo and runs ALL registered checks on it.
Every check must exit 0 (listed KNOWN-FINDINGs allowed): a VIOLATION or an infrastructure error on code where the property still holds is a checker defect.
usage: run_benign.py [id-prefix]"""
import json, os, shutil, subprocess, sys
V = "/verif"
sys.path.insert(0, V + "/engine/rules")
import selftest
pref = sys.argv[1] if len(sys.argv) > 1 else ""
ms = [m for m in json.load(open(V + "/mutants/benign.json")) if m["id"].startswith(pref)]
props = [c["property_id"] for c in json.load(open(V + "/MANIFEST.json"))["checks"]]
bad = 0
for m in ms:
    d, repo = selftest.make_scratch()
    try:
        try:
            selftest.apply(repo, m)
        except Exception as e:
            print(f"ERR {m['id']}: {e}"); bad += 1; continue
        env = dict(os.environ, RM_REPO=repo, RM_EVID=os.path.join(d, "ev"))
        alarms = []
        for p in props:
            r = subprocess.run([V + "/check", p], capture_output=True, text=True, env=env)
            if r.returncode != 0:
                first = [l.strip() for l in r.stdout.splitlines() if "violation:" in l or "INFRA-ERROR" in l][:2]
                alarms.append((p, r.returncode, first))
        print(f"{'ok ' if not alarms else 'BAD'} {m['id']:<36} {'' if not alarms else alarms}")
        if alarms: bad += 1
    finally:
        shutil.rmtree(d, ignore_errors=True)
print(f"benign refactors: {len(ms)}, false alarms on {bad}")
sys.exit(1 if bad else 0)
