#!/usr/bin/env python3
"""False-alarm test: applies each behaviour-preserving refactor (textual ones of mutants/benign.json and the independently produced patches under
/verif/benign/<id>/patch.diff) to a scratch copy of /repo and runs ALL registered checks on it.
Every check must exit 0 (listed KNOWN-FINDINGs allowed): a VIOLATION or an infrastructure error on code where the property still holds is a checker defect.
usage: run_benign.py [id-prefix] [-j N]"""
import glob, json, os, shutil, subprocess, sys
from concurrent.futures import ThreadPoolExecutor
V = __import__("os").path.dirname(__import__("os").path.dirname(__import__("os").path.abspath(__file__)))
sys.path.insert(0, V + "/engine/rules")
import selftest
args = sys.argv[1:]
jobs = 4
if "-j" in args:
    i = args.index("-j"); jobs = int(args[i + 1]); del args[i:i + 2]
pref = args[0] if args else ""
ms = [m for m in json.load(open(V + "/mutants/benign.json")) if m["id"].startswith(pref)]
for pd in sorted(glob.glob(V + "/benign/*/patch.diff")):
    bid = os.path.basename(os.path.dirname(pd))
    if bid.startswith(pref): ms.append({"id": bid, "patch": pd})
props = [c["property_id"] for c in json.load(open(V + "/MANIFEST.json"))["checks"]]

def one(m):
    d, repo = selftest.make_scratch()
    try:
        try:
            if "patch" in m:
                r = subprocess.run(["patch", "-s", "-p1", "-d", repo, "-i", m["patch"]], capture_output=True, text=True)
                if r.returncode != 0: raise RuntimeError("patch failed: " + (r.stdout + r.stderr)[-200:])
            else:
                selftest.apply(repo, m)
        except Exception as e:
            return m["id"], [("apply", 2, [str(e)])]
        env = dict(os.environ, RM_REPO=repo, RM_EVID=os.path.join(d, "ev"))
        alarms = []
        for p in props:
            r = subprocess.run([V + "/check", p], capture_output=True, text=True, env=env)
            if r.returncode != 0:
                first = [l.strip() for l in r.stdout.splitlines() if "violation:" in l or "INFRA-ERROR" in l][:3]
                alarms.append((p, r.returncode, first))
        return m["id"], alarms
    finally:
        shutil.rmtree(d, ignore_errors=True)

bad = 0
with ThreadPoolExecutor(jobs) as ex:
    for bid, alarms in ex.map(one, ms):
        print(f"{'ok ' if not alarms else 'BAD'} {bid:<36} {'' if not alarms else alarms}", flush=True)
        if alarms: bad += 1
print(f"benign refactors: {len(ms)}, false alarms on {bad}")
sys.exit(1 if bad else 0)
