#!/usr/bin/env python3
"""Prints the prompt given to an independent *refactoring* sub-agent: behaviour-preserving edits around the anchors of a group of properties
(nothing from /verif except the property texts).  Used to measure false alarms of the registered checks.
usage: benign_prompt.py <group-name> <Cxx> [<Cxx> ...]"""
import json, sys
style = "maint"
if "--style" in sys.argv:
    i = sys.argv.index("--style"); style = sys.argv[i+1]; del sys.argv[i:i+2]
focus = ""
if "--focus" in sys.argv:
    i = sys.argv.index("--focus"); focus = sys.argv[i+1]; del sys.argv[i:i+2]
name = sys.argv[1]
pids = sys.argv[2:]
props = [json.loads(l) for l in open('/verif/properties.jsonl')]
sel = [p for p in props if p['id'] in pids]
wt = f"/tmp/wt/{name}"
short = [{"id": p["id"], "title": p["title"], "statement": p["statement"], "anchors": {k: p["anchors"].get(k) for k in ("files", "state", "mechanism")}} for p in sel]
KINDS_MAINT = """  - rename locals / parameters / private helper functions or private fields (keeping every public name),
  - extract a few statements into a private helper fn or inline a small private helper into its caller,
  - re-express control flow equivalently (match <-> if let, loop+break <-> while, early return <-> else branch, for <-> index loop, `?`-style combinators
    <-> explicit match, negated condition with swapped arms),
  - equivalent comparisons / arithmetic (a <= b <-> b >= a <-> a < b+1 where no overflow is possible; x % N <-> x & (N-1) only where N is enforced to be a
    power of two; wrapping_sub <-> overflowing_sub().0),
  - reorder statements that are truly independent, introduce or remove a named temporary, hoist a loop-invariant read that is genuinely invariant,
  - STRENGTHEN a memory ordering (Relaxed -> Acquire/Release/SeqCst) or add a harmless extra wake / extra fence / debug log / debug_assert / comment / doc,
  - add an unrelated private method, field or trait impl that nothing on the property's paths uses,
  - move a method between impl blocks of the same type, or a private fn between modules (with re-export kept).
"""
KINDS_ADD = """  - ADD a correct small feature next to the mechanism: a new public or crate-private read-only query (is_full / is_empty / capacity / free_slots / a Debug or Display
    impl / a metrics getter), a `#[must_use]` / `#[inline]` / `#[cold]` attribute, a const assertion, a new constructor that delegates to the existing one, a
    `Default` impl that calls `new()`, a `with_capacity`-style alias, an extra trait impl (`AsRef`, `From`, `Debug`) that is correct,
  - ADD a correct convenience wrapper that composes existing operations without changing them (e.g. `send_all(iter)` calling `send` per item and stopping at the first
    rejection; `try_send_or(item, f)`; `drain_into(vec)` built on the existing consume; `close_now()` = existing cancel + existing wait),
  - PERFORMANCE-style edits that keep semantics: `std::hint::spin_loop()` added in a spin, `#[inline(always)]`, a `likely`-style reordering of match arms, replacing
    `x % N` by `x & (N-1)` where N is enforced a power of two, caching a *constant / immutable* value (a generic const, a field that is never written after
    construction) in a local, `CachePadded` around a field, pre-sizing a Vec, avoiding a redundant clone, replacing `Box<[T]>` iteration styles,
  - HARDENING-style edits that keep semantics: strengthen a memory ordering, add a fence, add a `debug_assert!` / `assert!` of something that is always true, add an
    overflow-safe spelling (`wrapping_add` for `overflowing_add().0`), add bounds-checked indexing in place of `get_unchecked`, add an extra (redundant) wake, make a
    private field `pub(crate)` -> private or the reverse when nothing else changes, add `#[derive(Debug)]`, add a `Drop` impl that only logs,
  - LOGGING / TRACING / DOC edits inside the mechanism functions (trace!/debug! lines that read only immutable or already-read values), new doc comments, `#[allow(..)]`,
  - declaration-level edits that keep semantics: reorder fields where drop order does not matter (say why), reorder trait methods / impl blocks, change a generic
    parameter name, turn a magic number into a named const with the same value, turn an associated const into a `const fn` call with the same value.
"""
KINDS_CONTRACT = """  - change the REPRESENTATION of a value that crosses a function / layer boundary CONSISTENTLY on both sides (producer AND every consumer), keeping its meaning:
    e.g. a function that answers `len_before` now answers `len_after` and every caller subtracts 1 where it used the old value (or the reverse); `bool` answer <-> a small
    two-variant enum or `Option<()>` / `Result<(), ()>`; `Option<(a, b)>` <-> a tiny named struct; `u32` id <-> `usize` index with the casts moved; a tuple's components
    reordered with all users updated; a callback that received `(id)` now receives `(id, &slot)` and ignores the second; an out-parameter turned into a return value,
  - swap a primitive for an EQUIVALENT one with the same (or stronger) memory orderings: `swap(true, Acquire)` tested for false <-> `compare_exchange(false, true, Acquire, Relaxed).is_ok()`;
    `fetch_add(1, o)` <-> `fetch_update(o, o, |v| Some(v.wrapping_add(1))).unwrap()`; `compare_exchange_weak` in a retry loop <-> `compare_exchange` in the same loop;
    `lock()` <-> a `while !try_lock() { spin_loop() }` loop; `load` + branch + CAS retry loop <-> `fetch_update`; `store(false, Release)` <-> `swap(false, Release)` ignoring the answer;
    `AtomicU32::fetch_sub(1, o)` <-> `fetch_add(u32::MAX, o)` (wrapping), `parking_lot` guard scopes spelled with explicit `drop(guard)` at the same point,
  - move WHERE a trait method's body lives without changing what runs: a default method in a trait (types.rs / meta_publisher / meta_subscriber / meta_container) overridden by
    an identical body in one impl, or identical bodies in the impls hoisted into a trait default; an inherent method turned into a trait method or the reverse;
    a generic const read through an associated const / a `const fn`,
  - change HOW a callback is delivered while keeping WHEN and HOW OFTEN: closure parameter <-> `impl Fn` generic <-> `&dyn Fn`; a closure that is called once on each branch
    <-> called once after the branches join when nothing in between can observe the difference; `FnOnce` boxed vs unboxed,
  - edits in glue / support code that keep semantics: constructors that build fields in another order (when no field's initialiser depends on another), `Default` <-> `new()`,
    Drop impls that do the same work through a helper, `ogre_sync::lock/unlock` re-expressed, `Instruments` predicates re-expressed with the same truth table
    (e.g. `x & MASK != 0` <-> `x & MASK > 0` <-> `(x & MASK) == MASK` ONLY for single-bit masks), prelude aliases spelled through an intermediate alias.
"""
KINDS_COND = """  - add a CORRECT configuration-dependent specialisation that computes the same thing: e.g. `if MAX_STREAMS == 1 { <the same steps with the loop unrolled for the one entry the
    live list really has> } else { <original> }` (still reading the live list / the same counters), `if BUFFER_SIZE.is_power_of_two() { x & (N-1) } else { x % N }`,
    `if !std::mem::needs_drop::<T>() { <skip ONLY a statement that is a no-op for such types, e.g. an explicit drop(value)> }`, `if size_of::<T>() == 0 { .. same .. }`,
    a `match concurrency_limit { 1 => .., _ => .. }` re-expressed with `if`, a `const IS_SINGLE: bool = MAX_STREAMS == 1;` used in an existing comparison,
  - add a `debug_assert!` / `assert!` / `#[cfg(debug_assertions)]` block that checks something ALWAYS TRUE at that point (on the ACCEPT path of a guard: `len_before < BUFFER_SIZE`;
    after a successful CAS; an index below MAX_STREAMS that was just read from the live list and is not the sentinel; a refcount that is >= 1 before a decrement), or debug-only
    logging of values already read,
  - `cfg!(debug_assertions)`-dependent code whose both arms do the same thing for the library's state (extra checks / logs only),
  - a new generic const / associated const / const fn that merely names an expression already used (`const LAST_STREAM: u32 = MAX_STREAMS as u32 - 1`), used in place of it,
  - hoist a configuration test out of a loop or push it into the loop when the tested value is a generic const or never changes,
  - replace a `match` over `Duration::ZERO` / a bool flag / an Instruments predicate by an equivalent `if` on the very same value (no unit conversion, no extra conjunct),
  - Instruments-dependent branches re-expressed with the same truth table for ALL instrument values (not only the presets),
  - split a function into a `#[inline(always)]` generic helper parameterised by a const bool that is instantiated with both values exactly where the original branched.
"""
print(f"""You are helping to test a static verification tool for false alarms. You have your own scratch git worktree of a Rust library
(zertyz/reactive-mutiny: async reactive event library with Uni/Multi channels over custom lock-free queues, pool allocators, OgreArc refcounting,
an mmap log channel and stream executors) at {wt}. Work ONLY inside {wt} and {wt}-out. Never read or write /repo or /verif.
There is no network: always pass --offline to cargo (CARGO_NET_OFFLINE=true). The worktree has a pre-seeded target/ dir so builds are incremental.

Below are some semantic properties the library satisfies today (statement + code anchors). A tool (which you cannot see) decides them by static
analysis of the source. We need to know whether it raises alarms on code where the properties STILL HOLD.

{json.dumps(short, indent=1)}

YOUR TASK: produce EIGHT different, independent, realistic BEHAVIOUR-PRESERVING changes to the library's non-test source under {wt}/src, each touching
code at or near the anchors above (the mechanisms the properties rest on), such as a maintainer would make in ordinary maintenance:
{KINDS_ADD if style=='additive' else KINDS_CONTRACT if style=='contract' else (KINDS_MAINT + KINDS_CONTRACT) if style=='mixed' else (KINDS_COND + KINDS_MAINT) if style=='conditional' else KINDS_MAINT}{('FOCUS: at least SIX of the eight changes must edit the bodies of these functions (one or two functions per change, different ones across the changes): ' + focus + chr(10)) if focus else ''}Each change must be SEMANTICALLY NEUTRAL with respect to every property above under EVERY interleaving, input and history (do not weaken orderings,
do not move a read/write across a synchronisation point, do not change which value a guard compares, do not change when wakes / releases / publications
happen relative to each other except by adding strictly more wakes). If in doubt whether an edit is neutral, pick another one. Aim for variety across
the eight (different files, different kinds of refactor); at least half should touch the *core* mechanism functions named in the anchors, not only
peripheral code. Sizes from 1 line to ~40 lines.

For each change: it must COMPILE and the EXISTING test suite must still PASS with it. The suite is `cargo test --workspace --no-fail-fast --offline`
run in {wt}; on the untouched tree 150 tests pass, and exactly two fail already and must be ignored:
`ogre_std::ogre_queues::full_sync::non_blocking_queue::tests::peek_test` and the doctest `src/lib.rs - (line 33)`. (A few timing-sensitive tests
may flake when the machine is loaded; re-run a failing test alone before concluding.) To save time you may verify each change with
`cargo test --offline --lib` plus `cargo test --offline --tests`, and run the full suite once with ALL EIGHT applied together if they do not conflict;
otherwise per change. Do not edit tests or #[cfg(test)] code.

DELIVERABLES, for k in 1..8, in directory {wt}-out/benign<k>/ :
  patch.diff - `git diff -- src` of ONLY that change relative to the clean HEAD (each must apply on its own with `git apply` on a clean worktree)
  meta.json  - {{"summary": "...what was changed...", "kind": "rename|extract|inline|control-flow|comparison|reorder|strengthen-ordering|extra-wake|unrelated-addition|move",
                "why_neutral": "...one or two sentences: why no property above can change, under every interleaving...", "files": [...], "suite": "what you ran and result"}}
When finished, restore the worktree to a clean state (`git checkout -- . && git clean -fd -e target` in {wt}) and reply with a one-line summary per change.""")
