#!/bin/bash
# usage: rmwt.sh <name>
git -C /repo worktree remove --force /tmp/wt/$1 2>/dev/null; rm -rf /tmp/wt/$1; git -C /repo worktree prune
