#!/usr/bin/env python3
"""Runs the registered checks against every kept seeded defect (scratch copy of /repo with the patch applied; /repo untouched).
usage: run_seeds.py [seed-id-prefix] [--all-props]   prints which checks raise a VIOLATION for which seed."""
import json, os, shutil, subprocess, sys, tempfile
V = __import__("os").path.dirname(__import__("os").path.dirname(__import__("os").path.abspath(__file__)))
sys.path.insert(0, V + "/engine/rules")
import selftest
pref = sys.argv[1] if len(sys.argv) > 1 and not sys.argv[1].startswith("--") else ""
allp = "--all-props" in sys.argv
man = json.load(open(V + "/MANIFEST.json"))
claimed = [c["property_id"] for c in man["checks"]]
res = json.load(open(V + "/seeded/last_run.json")) if os.path.exists(V + "/seeded/last_run.json") else {}
for sd in sorted(os.listdir(V + "/seeded")):
    if not sd.startswith(pref) or not os.path.isdir(f"{V}/seeded/{sd}"): continue
    meta = json.load(open(f"{V}/seeded/{sd}/meta.json"))
    prop = meta["property"]
    d, repo = selftest.make_scratch()
    try:
        r = subprocess.run(["git", "apply", "--directory", repo.lstrip("/"), "--unsafe-paths", f"{V}/seeded/{sd}/patch.diff"], cwd="/", capture_output=True, text=True)
        if r.returncode != 0:
            r = subprocess.run(["patch", "-p1", "-d", repo, "-i", f"{V}/seeded/{sd}/patch.diff"], capture_output=True, text=True)
            if r.returncode != 0:
                print(sd, "PATCH FAILED", r.stdout[-300:], r.stderr[-300:]); continue
        props = claimed if allp else [prop]
        hits = []
        for p in props:
            if p not in claimed: continue
            env = dict(os.environ, RM_REPO=repo, RM_EVID=os.path.join(d, "ev"))
            rr = subprocess.run([V + "/check", p], capture_output=True, text=True, env=env)
            if "VIOLATION property=" in rr.stdout:
                rules = sorted({l.split("rule=")[1].split()[0] for l in rr.stdout.splitlines() if l.strip().startswith("violation:")})
                hits.append(f"{p}:{','.join(rules)}")
            elif rr.returncode not in (0,):
                hits.append(f"{p}:exit{rr.returncode}")
        status = "CAUGHT" if any(h.startswith(prop + ":R") for h in hits) else ("caught-by-other" if any(":R" in h for h in hits) else ("UNCLAIMED" if prop not in claimed else "MISSED"))
        res[sd] = (status, hits)
        print(f"{sd:<10} {status:<16} {hits}")
    finally:
        shutil.rmtree(d, ignore_errors=True)
json.dump(res, open(V + "/seeded/last_run.json", "w"), indent=1)
