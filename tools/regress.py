#!/usr/bin/env python3
"""Checker regression, both ways, in parallel on scratch copies of /repo (never /repo itself):
  mutants  every mutant of mutants/Cxx.json must be reported by its expected rule
  seeds    every kept seeded defect must be reported by its own property's check
  benign   every behaviour-preserving refactor (mutants/benign.json, benign/*/patch.diff) must leave ALL checks silent
usage: regress.py [mutants|seeds|benign ...] [-j N] [--prop Cxx]"""
import glob, json, os, shutil, subprocess, sys, time
from concurrent.futures import ThreadPoolExecutor
V = __import__("os").path.dirname(__import__("os").path.dirname(__import__("os").path.abspath(__file__)))
sys.path.insert(0, V + "/engine/rules")
import selftest
args = sys.argv[1:]
jobs = 10
prop = None
if "-j" in args:
    i = args.index("-j"); jobs = int(args[i + 1]); del args[i:i + 2]
if "--prop" in args:
    i = args.index("--prop"); prop = args[i + 1]; del args[i:i + 2]
what = args or ["mutants", "seeds", "benign"]
props = [c["property_id"] for c in json.load(open(V + "/MANIFEST.json"))["checks"]]
t0 = time.time()
bad = []

def run_checks(repo, d, ps):
    env = dict(os.environ, RM_REPO=repo, RM_EVID=os.path.join(d, "ev"))
    res = {}
    for p in ps:
        r = subprocess.run([V + "/check", p], capture_output=True, text=True, env=env)
        rules = sorted({l.split("rule=")[1].split()[0] for l in r.stdout.splitlines() if l.strip().startswith("violation:")})
        infra = [l.strip()[:200] for l in r.stdout.splitlines() if "INFRA-ERROR" in l]
        res[p] = (r.returncode, rules, infra)
    return res

def mutant(m):
    try:
        status, rules, out = selftest.run_one(m)
    except Exception as e:
        status, rules = "ERROR " + str(e)[:100], []
    return ("mutant", m["id"], status == "CAUGHT", f"{status} expect={m.get('expect_rule')} got={rules}")

def seed(sd):
    meta = json.load(open(f"{V}/seeded/{sd}/meta.json"))
    p = meta["property"]
    d, repo = selftest.make_scratch()
    try:
        r = subprocess.run(["patch", "-s", "-p1", "-d", repo, "-i", f"{V}/seeded/{sd}/patch.diff"], capture_output=True, text=True)
        if r.returncode: return ("seed", sd, False, "PATCH FAILED")
        res = run_checks(repo, d, [p])
        rc, rules, infra = res[p]
        return ("seed", sd, rc == 1 and bool(rules), f"rc={rc} rules={rules} {infra}")
    finally:
        shutil.rmtree(d, ignore_errors=True)

def benign(m):
    d, repo = selftest.make_scratch()
    try:
        try:
            if "patch" in m:
                r = subprocess.run(["patch", "-s", "-p1", "-d", repo, "-i", m["patch"]], capture_output=True, text=True)
                if r.returncode: raise RuntimeError("patch failed")
            else:
                selftest.apply(repo, m)
        except Exception as e:
            return ("benign", m["id"], False, "APPLY: " + str(e)[:100])
        res = run_checks(repo, d, props)
        alarms = {p: v for p, v in res.items() if v[0] != 0}
        return ("benign", m["id"], not alarms, str(alarms)[:600])
    finally:
        shutil.rmtree(d, ignore_errors=True)

tasks = []
if "mutants" in what:
    tasks += [(mutant, m) for m in selftest.load_mutants(prop)]
if "seeds" in what:
    tasks += [(seed, sd) for sd in sorted(os.listdir(V + "/seeded")) if os.path.isdir(f"{V}/seeded/{sd}") and (prop is None or sd.startswith(prop))]
if "benign" in what:
    ms = list(json.load(open(V + "/mutants/benign.json")))
    for pd in sorted(glob.glob(V + "/benign/*/patch.diff")):
        ms.append({"id": os.path.basename(os.path.dirname(pd)), "patch": pd})
    tasks += [(benign, m) for m in ms]
n = {"mutant": 0, "seed": 0, "benign": 0}
with ThreadPoolExecutor(jobs) as ex:
    for kind, ident, ok, detail in ex.map(lambda t: t[0](t[1]), tasks):
        n[kind] += 1
        if not ok:
            bad.append((kind, ident, detail)); print(f"BAD {kind:<7} {ident:<40} {detail}", flush=True)
print(f"regress: {n} in {time.time()-t0:.0f}s; failures: {len(bad)}")
sys.exit(1 if bad else 0)
