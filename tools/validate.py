#!/usr/bin/env python3-vt
"""validates MANIFEST.json and every evidence file against the schemas in /root/.vp"""
import json, glob, sys, jsonschema
ok = True
try:
    jsonschema.validate(json.load(open('/verif/MANIFEST.json')), json.load(open('/root/.vp/MANIFEST.schema.json')))
except Exception as e:
    ok = False; print("MANIFEST:", str(e)[:500])
es = json.load(open('/root/.vp/EVIDENCE.schema.json'))
for p in sorted(glob.glob('/verif/evidence/C??.json')):
    try: jsonschema.validate(json.load(open(p)), es)
    except Exception as e:
        ok = False; print(p, str(e)[:500])
print("valid" if ok else "INVALID")
sys.exit(0 if ok else 1)
