#!/usr/bin/env python3
"""usage: mkscratch.py <patch.diff | benign-id | seed-id>  -> prints the path of a scratch copy of /repo with the patch applied (remove its parent dir when done)"""
import os, subprocess, sys
sys.path.insert(0, "/verif/engine/rules")
import selftest
a = sys.argv[1]
for cand in (a, f"/verif/benign/{a}/patch.diff", f"/verif/seeded/{a}/patch.diff"):
    if os.path.isfile(cand): a = cand; break
d, repo = selftest.make_scratch()
r = subprocess.run(["patch", "-s", "-p1", "-d", repo, "-i", a], capture_output=True, text=True)
if r.returncode: print("PATCH FAILED", r.stdout, r.stderr, file=sys.stderr)
print(repo)
