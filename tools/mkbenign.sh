#!/bin/bash
# usage: mkbenign.sh <id> <scratch repo dir> "<summary>"  -- records the difference between /repo and the scratch copy as a hand-made benign patch /verif/benign/<id>/
ID=$1; R=$2; SUM=$3
mkdir -p /verif/benign/$ID
: > /verif/benign/$ID/patch.diff
(cd $R && for f in $(find src -name "*.rs"); do if ! cmp -s $f /repo/$f; then diff -u --label a/$f --label b/$f /repo/$f $f >> /verif/benign/$ID/patch.diff; fi; done)
python3 - "$ID" "$SUM" <<'PY'
import json,sys
json.dump({"summary": sys.argv[2], "kind": "hand-made twin of a rule added in session 4", "why_neutral": "same operations in the same order; only the spelling differs", "author": "verifier (not independent)"}, open(f"/verif/benign/{sys.argv[1]}/meta.json","w"), indent=1)
PY
wc -l /verif/benign/$ID/patch.diff
