#!/bin/bash
# Runs the pinned test suite of a checkout (default /repo) with `cargo test` (nextest cannot list this crate's tests:
# a #[ctor] logs to stdout) and compares with BASELINE.json's stable_pass list.
# usage: run_baseline.sh [dir]    exit 0 iff every stable_pass test passed
D=${1:-/repo}
cd "$D" || exit 2
export CARGO_NET_OFFLINE=true
LOG=$(mktemp)
cargo test --workspace --no-fail-fast --offline >"$LOG" 2>&1
python3 - "$LOG" <<'PY'
import sys,json,re
base=json.load(open('/root/.vp/BASELINE.json'))
want=set(base['stable_pass'])
cur=None; passed=set(); failed=set()
for line in open(sys.argv[1],errors='replace'):
    m=re.search(r'Running (?:unittests )?(\S+) \(target/\S+/deps/([A-Za-z0-9_]+)-[0-9a-f]+\)',line)
    if m: cur=m.group(2); continue
    if 'Doc-tests' in line: cur='doctest'; continue
    m=re.match(r'test (\S+)(?: - should panic)? \.\.\. (\w+)',line)
    if m and cur:
        n=cur+'::'+m.group(1)
        (passed if m.group(2)=='ok' else failed if m.group(2)=='FAILED' else set()).add(n)
missing=sorted(want-passed)
print(f"passed={len(passed)} failed={len(failed)} baseline={len(want)} missing={len(missing)}")
for m in missing: print("  MISSING/FAILED:",m)
for f in sorted(failed): print("  failed:",f)
sys.exit(1 if missing else 0)
PY
rc=$?
[ $rc -ne 0 ] && cp "$LOG" /tmp/baseline_last_fail.log
rm -f "$LOG"
exit $rc
