#!/bin/bash
# usage: mkwt.sh <name>  -> creates scratch worktree /tmp/wt/<name> of /repo HEAD with a pre-seeded target dir (deps reused)
set -e
N=$1; D=/tmp/wt/$N
mkdir -p /tmp/wt
git -C /repo worktree add --detach "$D" HEAD >/dev/null 2>&1
mkdir -p "$D/target"
cp -r /repo/target/debug "$D/target/debug" 2>/dev/null || true
rm -rf "$D/target/debug/incremental"
mkdir -p /tmp/wt/$N-out
echo "$D"
