#!/usr/bin/env python3
"""Regenerates engine/rules/anchors.json (names of fields and functions the rules were confirmed against) from /repo's current tree.
Run only on a tree on which every check was confirmed by hand (the unchanged tree + the fix: commits)."""
import json, os, sys
sys.path.insert(0, "/verif/engine/rules")
os.environ["RM_NO_ANCHOR_RECOVERY"] = "1"
import facts as F, anchors
path, cached, secs = F.run_driver("lib")
d = json.load(open(path))
snap = anchors.snapshot(d)
json.dump(snap, open("/verif/engine/rules/anchors.json", "w"), indent=0, sort_keys=True)
print("anchors:", len(snap["adts"]), "ADTs,", len(snap["fns"]), "functions")
