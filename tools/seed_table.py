#!/usr/bin/env python3
"""renders seeded/last_run.json + meta.json as the markdown table of DESIGN.md section 8"""
import json, os
V = "/verif"
res = json.load(open(V + "/seeded/last_run.json"))
print("| seed | breaks (property) | change | needs, to manifest | reported by (own property) | also reported by |")
print("|------|-------------------|--------|--------------------|----------------------------|------------------|")
for sd in sorted(os.listdir(V + "/seeded")):
    d = f"{V}/seeded/{sd}"
    if not os.path.isdir(d): continue
    m = json.load(open(d + "/meta.json"))
    prop = m["property"]
    status, hits = res.get(sd, ("?", []))
    own = [h for h in hits if h.startswith(prop + ":")]
    other = [h for h in hits if not h.startswith(prop + ":")]
    def short(t, n):
        t = " ".join(str(t or "").split()); return (t[:n] + "…") if len(t) > n else t
    print(f"| {sd} | {prop} | {short(m.get('breaks'), 170)} | {short(m.get('needs_to_manifest'), 130)} | {', '.join(o.split(':')[1] for o in own) or '**MISSED**'} | {', '.join(other) or '—'} |")
