#!/usr/bin/env python3
"""Prints the prompt given to an independent mutation sub-agent for one property (nothing from /verif except the property text)."""
import json,sys
pid=sys.argv[1]
wave=sys.argv[2] if len(sys.argv)>2 else ''
p=[json.loads(l) for l in open('/verif/properties.jsonl') if json.loads(l)['id']==pid][0]
wt=f"/tmp/wt/{pid}{wave}"
WAVE2 = ("" if not wave else "This is a LATER ROUND: earlier rounds already produced the obvious single-statement slips at the property's main mechanism (a moved statement, an off-by-one in the guard named in the anchors, a dropped wake). Produce something different: prefer changes in helper / callee functions the mechanism relies on, in a sibling implementation (another channel / container / executor kind than the first one listed), in configuration-dependent paths, in memory-ordering or visibility assumptions, or two cooperating edits that each look fine alone.\n\n")
if wave == "c":
    WAVE2 = ("This is a THIRD ROUND. Earlier rounds produced single-statement slips and cooperating edits in helpers / siblings. This time DISGUISE the defect inside an "
             "otherwise behaviour-preserving REFACTORING of the mechanism, so that the diff reads like ordinary maintenance: e.g. extract part of the mechanism into a new "
             "private helper (or merge a helper back) and let the defect ride along; re-express a match / loop / early return in another style (combinators, `?`, "
             "labelled blocks, while-let, index loops, a flag variable) with one arm subtly wrong; pass a value through a wrapper struct / Option / tuple and "
             "unpack a stale or wrong component; cache something in a local before a synchronisation point that used to be read after it; rename things along the way. "
             "The change as a whole must still break the property and satisfy (a)-(d); a reviewer skimming the diff should think 'just a refactor'.\n\n")
if wave == "d":
    WAVE2 = ("This is a FOURTH ROUND. Earlier rounds produced (1) single-statement slips at the main mechanism, (2) cooperating edits in helpers / sibling "
             "implementations, (3) defects disguised inside refactorings of the mechanism. This time the change should look like a FEATURE, OPTIMISATION or HARDENING "
             "commit that mostly ADDS code or changes declarations rather than editing the statements of the known mechanism: e.g. a new fast path / early-out / cache of a "
             "value that used to be re-read, a new public or crate-private convenience method (clear / reset / peek / try_* / batch variant / len shortcut) that existing "
             "code paths start using or that a user would reasonably call, a new or changed Drop / Clone / Default / Send / Sync impl or derive, a changed field type, "
             "field order, generic const, const assertion, initial value in a constructor, type alias in the prelude, default trait method in types.rs, macro, "
             "instrument flag, visibility, or a weakened / mismatched memory ordering used as the mechanism. The defect may sit in a place the property relies on "
             "only indirectly (constructors, trait defaults, aliases, the glue between layers) rather than in the functions the anchors name. "
             "The change as a whole must still break the property and satisfy (a)-(d); a reviewer should think 'reasonable small feature / perf tweak'.\n\n")
if wave == "e":
    WAVE2 = ("This is a FIFTH ROUND. Earlier rounds produced (1) single-statement slips at the main mechanism, (2) cooperating edits in helpers / siblings, (3) defects disguised "
             "inside refactorings, (4) feature / optimisation / hardening commits that add fast paths, caches, guards and accessors. This time change the CONTRACT of something "
             "that crosses a function or layer boundary, at the place that PRODUCES it, and leave its consumers untouched: what a return value / callback argument / out-parameter / "
             "struct field / trait method / generic constant MEANS (length before vs after, count of reserved vs published, inclusive vs exclusive bound, id vs index, "
             "'true = retry' vs 'true = done', Some/None or Ok/Err swapped in a corner case, units, which of two similar fields is returned), when a callback is invoked "
             "(before vs after a state change, on which branch, how many times), or which primitive implements an operation (lock vs try_lock, swap vs load+store, "
             "compare_exchange_weak without a retry loop, a different memory ordering where the ordering is the mechanism, Mutex vs RwLock read guard, fetch_add vs fetch_update). "
             "Prefer the glue and support code (types.rs trait defaults, meta_publisher / meta_subscriber / meta_container traits, ogre_sync, instruments, prelude aliases, "
             "constructors, Drop impls, the streams manager's small helpers) over the functions the anchors name. Each change must be small (1-15 lines), look deliberate and "
             "reasonable in isolation, and still break the property and satisfy (a)-(d).\n\n")
if wave == "f":
    WAVE2 = ("This is a SIXTH ROUND. Earlier rounds produced (1) single-statement slips at the main mechanism, (2) cooperating edits in helpers / siblings, (3) defects disguised "
             "inside refactorings, (4) feature / optimisation / hardening commits that add code, (5) contract drift at the producer of a value crossing a layer boundary. "
             "This time make the defect CONDITIONAL: the code must stay right for the configurations the test-suite uses and go wrong only for another one. Sources of such "
             "conditions in this crate: generic consts (BUFFER_SIZE, MAX_STREAMS, POOL_SIZE, the INSTRUMENTS bit set, `const DEBUG` / `METRICS` flags) and arithmetic or branches on them "
             "(a special case for `MAX_STREAMS == 1`, `BUFFER_SIZE <= 2`, `size_of::<T>() == 0`, `needs_drop::<T>()`), `cfg!(debug_assertions)` / `#[cfg(debug_assertions)]` / "
             "`#[cfg(not(test))]` / target-pointer-width branches, item types (zero-sized, `Copy` vs `Drop`, `Option<Box<..>>`), the `Instruments` variants, `Duration::ZERO` vs non-zero "
             "timeouts, sequential vs parallel transitions, the first vs later laps of a ring (`slot_id / BUFFER_SIZE`), the first vs a recycled stream id, executors with "
             "`concurrency_limit == 1` vs `> 1`, fallible vs non-fallible / future vs non-future pipeline kinds, macros in the crate whose expansion differs per call site. "
             "The change may be a new special-case branch, a changed constant expression, a changed macro arm, a changed `where` bound / trait impl picked only for some types, or an "
             "edit of a branch that only some configuration reaches. Keep it small (1-15 lines) and plausible ('micro-optimisation for the common case', 'debug-only check', "
             "'simplification valid for the defaults'). It must still break the property for SOME configuration inside the property's quantifier and satisfy (a)-(d).\n\n")
if wave == "g":
    WAVE2 = ("This is a SEVENTH ROUND. Earlier rounds produced single-statement slips, cooperating edits, defects disguised as refactorings, additive feature commits, contract drift at "
             "layer boundaries and configuration-conditional defects -- mostly in the core files (atomic_move.rs, full_sync_move.rs, streams_manager.rs, the ogre_arc channels, "
             "mmap_meta.rs, the pool allocator, stream_executor.rs). This time place the change in code those rounds RARELY TOUCHED, whichever of it this property depends on directly or "
             "through a call chain: src/uni/uni.rs and src/multi/multi.rs (the Uni / Multi API objects: spawn_* methods, close / flush, executor bookkeeping, the close macros), "
             "src/types.rs (channel traits and their default methods), src/prelude/*.rs (type aliases pairing containers, allocators and sizes), src/mutiny_stream.rs, "
             "src/ogre_std/ogre_alloc/ogre_unique.rs and ogre_arc.rs (constructors, conversions, Deref / AsRef / Debug / PartialEq impls), src/ogre_std/ogre_alloc/types.rs, "
             "src/ogre_std/ogre_queues/meta_publisher.rs / meta_subscriber.rs / meta_container.rs / mod.rs (trait defaults), the NonBlockingQueue wrappers "
             "(ogre_queues/atomic/non_blocking_queue.rs, ogre_queues/full_sync/non_blocking_queue.rs), the two stacks, the zero-copy containers (atomic_zero_copy.rs, "
             "full_sync_zero_copy.rs), src/multi/channels/reference/mmap_log.rs, src/multi/channels/arc/crossbeam.rs and src/uni/channels/movable/crossbeam.rs, src/instruments.rs. "
             "Any style of the earlier rounds is fine (slip, disguised refactor, additive fast path, contract drift, conditional). Keep each change small (1-15 lines), plausible, and make sure it "
             "breaks THIS property and satisfies (a)-(d). If the property cannot be broken from any of those files, say so and use the closest glue code you can find.\n\n")
if wave == "h":
    WAVE2 = ("This is an EIGHTH ROUND. Earlier rounds covered slips at the main mechanism, cooperating edits, disguised refactorings, additive fast paths, contract drift, "
             "configuration-conditional defects and rarely-touched files. This time put the defect on an ERROR, TIMEOUT, TEARDOWN, CANCELLATION or EXHAUSTION path -- code that ordinary "
             "runs and the test-suite reach rarely or never: what happens when a bounded timeout expires inside flush / end_stream / end_all_streams / close; when MAX_STREAMS ids are "
             "exhausted or an id is recycled right after a drop; when a channel / Uni / Multi is dropped with live streams or buffered events; when a stream ends by cancellation rather "
             "than by draining; when the pool or the ring is empty / full at the moment of the call; when crossbeam reports Disconnected; when a `send_with_async` future is DROPPED while "
             "its setter is suspended (cancellation safety: reserved slot, held lock, pre-loaded references); when an executor's item future errors or times out on the LAST item; when a "
             "close callback is slow; when `report_full_fn` / `report_empty_fn` answer true; Drop impls and `drop_resources`. The change must still break THIS property inside its quantifier "
             "and satisfy (a)-(d); keep it small (1-15 lines) and plausible.\n\n")
print(f"""You are helping to test a verification tool by playing the adversary. You have your own scratch git worktree of a Rust library
(zertyz/reactive-mutiny: async reactive event library with Uni/Multi channels over custom lock-free queues, pool allocators, OgreArc refcounting,
an mmap log channel and stream executors) at {wt}. Work ONLY inside {wt} and {wt}-out. Never read or write /repo or /verif.
There is no network: always pass --offline to cargo (CARGO_NET_OFFLINE=true). Do NOT use `git stash` (the stash is shared between all worktrees and other agents use it too): keep your change as a patch file and use `git apply` / `git apply -R`. The worktree has a pre-seeded target/ dir so builds are incremental.

Here is one semantic property that the library is supposed to satisfy (JSON record: statement, quantifier, why tests can't settle it, code anchors):

{json.dumps(p,indent=1)}

YOUR TASK: produce TWO different, independent, realistic changes ("seeded defects") to the library's non-test source code under {wt}/src
(no edits to existing tests; do not touch #[cfg(test)] code or tests/), each of which
  (a) BREAKS the property above (a genuine behavioural violation of its statement, inside its quantifier),
  (b) still COMPILES, and the EXISTING test suite still PASSES with it. The suite is `cargo test --workspace --no-fail-fast --offline`
      run in {wt}; on the untouched tree 150 tests pass, and exactly two fail already and must be ignored:
      `ogre_std::ogre_queues::full_sync::non_blocking_queue::tests::peek_test` and the doctest `src/lib.rs - (line 33)`
      (many perf/multi-thread tests are #[ignore]d). All tests that pass on the untouched tree must still pass with your change.
  (c) needs something SPECIFIC to manifest - a particular interleaving or suspension point, a crash/fault at a particular point, a multi-step
      sequence of operations, an unusual input or configuration (e.g. small MAX_STREAMS/BUFFER_SIZE, counter near wrap), or two cooperating
      sites that each look fine alone. NOT something ordinary use would expose at once. Think like a plausible maintainer slip
      (wrong ordering, off-by-one in a guard, dropped wake, wrong memory ordering used as the mechanism, moved statement, removed release,
      swapped argument, stale value reuse, early return...) rather than vandalism. The two changes should use different mechanisms / sites.
  (d) comes with a DEMONSTRATION that FAILS with the change and PASSES without it. Preferred form: one integration-test file that uses only the
      crate's public API, to be dropped in as `tests/seed_demo.rs` and run with `cargo test --offline --test seed_demo` (it must terminate:
      use timeouts instead of hanging; deterministic if at all possible; if it needs an interleaving, construct it deterministically, e.g. by
      polling futures by hand with a noop waker, suspending async setters, or using barriers). If (and only if) crate-private internals are
      needed, give instead a `demo.patch` that only ADDS a new `#[cfg(test)] mod seed_demo {{ ... }}` to a src file, run with
      `cargo test --offline --lib seed_demo`.

{WAVE2}Read the relevant code first (start from the anchors). Verify everything yourself: demo passes on the untouched tree; with the change applied
the whole existing suite still passes and the demo fails. Iterate until that is true. If a candidate turns out to be caught by the existing
tests, pick another one.

DELIVERABLES, for k in 1,2, in directory {wt}-out/seed<k>/ :
  patch.diff   - `git diff -- src` of ONLY the seeded change (must apply with `git apply` on a clean worktree at HEAD)
  seed_demo.rs - the demonstration (or demo.patch, see above)
  meta.json    - {{"property": "{pid}", "summary": "...what was changed...", "why_it_breaks": "...", "needs_to_manifest": "...",
                  "demo_kind": "integration_test" | "lib_test_patch", "demo_cmd": "...", "commands_run": [...],
                  "result_without_patch": "...", "result_with_patch": "...", "suite_with_patch": "N passed / which failed"}}
When finished, restore the worktree to a clean state (`git checkout -- . && git clean -fd -e target` in {wt}) and reply with a short summary of the
two seeds (files changed, mechanism, what it needs to manifest). If you could only produce one, say so. Do not spend time on write-ups beyond meta.json.""")
