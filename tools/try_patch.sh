#!/bin/bash
# usage: try_patch.sh <patch|benign-id|seed-id> <Cxx|all> [more check args]  -- runs check(s) on a scratch copy with the patch applied, then removes the copy
R=$(python3 /verif/tools/mkscratch.py "$1"); shift
P=$1; shift
D=$(dirname "$R")
case "$D" in /tmp/rm-mut-*) ;; *) echo "unexpected scratch dir $D"; exit 2;; esac
if [ "$P" = all ]; then PS=$(seq -f "C%02g" 1 20); else PS=$P; fi
for p in $PS; do RM_REPO=$R RM_EVID=$D/ev /verif/check $p "$@" | grep -v "^  *ok \|KNOWN-FINDING" | grep "violation:\|INFRA\|UNDECIDED\|tier=" | cut -c1-400; done
rm -rf "$D"
