//! Type-level witnesses (compile-fail doctests) for clauses of C05 / C10 / C14, each paired with a compiling twin that differs only in
//! the offending type -- so a witness cannot "pass" because its paths are merely wrong.  Run: `cargo +nightly test --doc --offline`
//! (error codes are only honoured on nightly).  Nothing of the analysed crate is executed apart from the twins' trivial bodies.

/// W1 -- `OgreUnique` is not `Clone` (a second unique handle would free the slot twice).
/// ```compile_fail,E0277
/// use reactive_mutiny::prelude::advanced::{OgreUnique, AllocatorAtomicArray};
/// fn assert_clone<T: Clone>() {}
/// assert_clone::<OgreUnique<u32, AllocatorAtomicArray<u32, 8>>>();
/// ```
/// twin: the shared handle *is* `Clone`
/// ```
/// use reactive_mutiny::prelude::advanced::{OgreArc, AllocatorAtomicArray};
/// fn assert_clone<T: Clone>() {}
/// assert_clone::<OgreArc<u32, AllocatorAtomicArray<u32, 8>>>();
/// ```
pub struct W1UniqueNotClone;

/// W1b -- `OgreUnique` is not `Copy`; neither is `OgreArc`.
/// ```compile_fail,E0277
/// use reactive_mutiny::prelude::advanced::{OgreUnique, AllocatorAtomicArray};
/// fn assert_copy<T: Copy>() {}
/// assert_copy::<OgreUnique<u32, AllocatorAtomicArray<u32, 8>>>();
/// ```
/// ```compile_fail,E0277
/// use reactive_mutiny::prelude::advanced::{OgreArc, AllocatorAtomicArray};
/// fn assert_copy<T: Copy>() {}
/// assert_copy::<OgreArc<u32, AllocatorAtomicArray<u32, 8>>>();
/// ```
/// twin
/// ```
/// fn assert_copy<T: Copy>() {}
/// assert_copy::<u32>();
/// ```
pub struct W1bHandlesNotCopy;

/// W2 -- `MutinyStream` is neither `Clone` nor `Copy` (a copy would return its stream id twice).
/// ```compile_fail,E0277
/// use reactive_mutiny::prelude::advanced::ChannelUniMoveAtomic;
/// use reactive_mutiny::mutiny_stream::MutinyStream;
/// fn assert_clone<T: Clone>() {}
/// assert_clone::<MutinyStream<'static, u32, ChannelUniMoveAtomic<u32, 8, 1>, u32>>();
/// ```
/// twin: the type itself is well-formed (only the `Clone` bound is the problem)
/// ```
/// use reactive_mutiny::prelude::advanced::ChannelUniMoveAtomic;
/// use reactive_mutiny::mutiny_stream::MutinyStream;
/// fn assert_sized<T: Sized>() {}
/// assert_sized::<MutinyStream<'static, u32, ChannelUniMoveAtomic<u32, 8, 1>, u32>>();
/// ```
pub struct W2StreamNotClone;

/// W3 -- the bulk reference API of `OgreArc` cannot be called from safe code.
/// ```compile_fail,E0133
/// use reactive_mutiny::prelude::advanced::{OgreArc, AllocatorAtomicArray};
/// fn f(a: &OgreArc<u32, AllocatorAtomicArray<u32, 8>>) { let _copy = a.raw_copy(); }
/// ```
/// twin
/// ```
/// use reactive_mutiny::prelude::advanced::{OgreArc, AllocatorAtomicArray};
/// fn f(a: &OgreArc<u32, AllocatorAtomicArray<u32, 8>>) { let _copy = unsafe { a.raw_copy() }; std::mem::forget(_copy); }
/// ```
pub struct W3BulkApiUnsafe;
